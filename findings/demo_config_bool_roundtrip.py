"""C20: saving the configuration and loading it into a new system reproduces every value with its type.  A Boolean given through the
dictionary channel (True is accepted for a (0, 1) field) is written by save_config as the text `True`, which the loader kept as a string
and then rejected as outside the alternatives: the saved file could not be loaded.  Exit 0 = property holds."""
import os
import sys
import tempfile

import andes

andes.config_logger(50)
ss = andes.System(default_config=True, no_undill=True, config={'ipadd': True})
print("supplied ipadd=True ->", repr(ss.config.ipadd))
d = tempfile.mkdtemp()
rc = os.path.join(d, 'andes.rc')
ss.save_config(rc, overwrite=True)
bad = False
try:
    s2 = andes.System(config_path=rc, no_undill=True)
    print("reloaded ipadd ->", repr(s2.config.ipadd))
    bad = s2.config.ipadd is not True
except Exception as e:      # noqa
    print("loading the saved configuration failed:", e)
    bad = True
print("PROPERTY VIOLATED" if bad else "PROPERTY HOLDS")
sys.exit(1 if bad else 0)
