"""Demonstration (real code): the same physical network given in MATPOWER format on baseMVA = 100 and on baseMVA = 50
(per-unit branch/shunt data rescaled accordingly, MW values unchanged) must give the same power-flow voltages.
Also a PSS/E branch record with line-end shunts GI/BI/GJ/BJ must import them. Before the fix the 50-MVA file is
mis-scaled (Line/Shunt default Sn = 100 assumed) and the raw line-end shunts are dropped."""
import io
import sys
import numpy as np
import andes
from andes.io.matpower import mpc2system, system2mpc
andes.config_logger(50)


def solve(mpc):
    ss = andes.System(default_config=True, no_output=True)
    mpc2system(mpc, ss)
    ss.setup()
    ss.PFlow.run()
    return ss


ss0 = andes.load(andes.get_case("matpower/case14.m"), default_config=True, no_output=True)
mpc = system2mpc(ss0)
a = solve(mpc)
m2 = {k: (v.copy() if hasattr(v, "copy") else v) for k, v in mpc.items()}
k = 50.0 / 100.0
m2["baseMVA"] = 50.0
m2["branch"][:, 2] *= k      # r  (pu on the new base)
m2["branch"][:, 3] *= k      # x
m2["branch"][:, 4] /= k      # b
b = solve(m2)
dv = np.abs(a.Bus.v.v - b.Bus.v.v).max()
print("converged:", a.PFlow.converged, b.PFlow.converged, " max |v(100 MVA file) - v(50 MVA file)| = %.3e" % dv)
bad = not (a.PFlow.converged and b.PFlow.converged and dv < 1e-6)

# PSS/E branch with line-end shunts
raw = open(andes.get_case("ieee14/ieee14.raw")).read().splitlines()
i0 = next(i for i, l in enumerate(raw) if "END OF GENERATOR DATA" in l.upper()) + 1
f = raw[i0].split(",")
f[9], f[10], f[11], f[12] = " 0.01", " 0.30", " 0.02", " 0.05"
raw[i0] = ",".join(f)
ss = andes.System(default_config=True, no_output=True)
andes.io.psse.read(ss, io.StringIO("\n".join(raw)))
print("imported g1,b1,g2,b2 of the first branch:", ss.Line.g1.v[0], ss.Line.b1.v[0], ss.Line.g2.v[0], ss.Line.b2.v[0], "(expected 0.01 0.3 0.02 0.05)")
bad = bad or [ss.Line.g1.v[0], ss.Line.b1.v[0], ss.Line.g2.v[0], ss.Line.b2.v[0]] != [0.01, 0.30, 0.02, 0.05]
sys.exit(1 if bad else 0)
