"""Demonstration (real code): switching off a phase bus of a Fortescue interface device.
Property: switching a bus off switches off exactly the devices attached to it. Before the fix the Fortescue device attached
to the bus through busa stays on."""
import sys
import andes
andes.config_logger(50)
ss = andes.load(andes.get_case("5bus_fortescue.xlsx"), default_config=True, no_output=True)
f = ss.Fortescue
busa = f.busa.v[0]
print("Fortescue attached to phase-a bus", busa, "u before:", f.u.v)
ss.Bus.alter("u", busa, 0)
ss.PFlow.init()
print("u after switching that bus off:", f.u.v)
sys.exit(0 if f.u.v[0] == 0 else 1)
