"""C15: replaying a simulation from its own csv export must reproduce it row by row.
On the unfixed tree TDS.init() lets calc_h() move the replay row pointer to row 1 without advancing the clock, so the first loop
iteration stores row 1 under t = 0, row 0 is dropped and t1 never appears."""
import os
import sys
import tempfile

import numpy as np

import andes

andes.config_logger(50)
case = andes.get_case("kundur/kundur_full.xlsx")
d = tempfile.mkdtemp()
ss = andes.run(case, routine="tds", tf=0.5, output_path=d, no_output=False, default_config=True, verbose=50)
ss.TDS.load_plotter()
csv = os.path.join(d, "kundur_full_out.csv")
ss.TDS.plt.export_csv(csv)
ref = np.array(ss.dae.ts.txyz[:, :1 + ss.dae.n + ss.dae.m])
# the variable-step run can end with a second row at tf (a step of ~1e-16 s); the exported times coincide, keep the first
keep = np.concatenate(([True], np.diff(ref[:, 0]) > 1e-9))
ref = ref[keep]

s2 = andes.load(case, default_config=True, no_output=True)
s2.PFlow.run()
s2.TDS.run(from_csv=csv)
rep = np.array(s2.dae.ts.txyz[:, :1 + s2.dae.n + s2.dae.m])
bad = 0
print("rows: original %d, replayed %d" % (ref.shape[0], rep.shape[0]))
if ref.shape[0] != rep.shape[0]:
    bad += 1
n = min(ref.shape[0], rep.shape[0])
if not np.allclose(ref[:n, 0], rep[:n, 0]):
    k = int(np.argmax(np.abs(ref[:n, 0] - rep[:n, 0]) > 1e-12))
    print("time axis differs from row %d: original %s, replayed %s" % (k, ref[k:k + 3, 0], rep[k:k + 3, 0]))
    bad += 1
if n and not np.allclose(ref[:n, 1:], rep[:n, 1:], atol=1e-8):
    print("values differ: max |diff| = %.3g" % np.abs(ref[:n, 1:] - rep[:n, 1:]).max())
    bad += 1
print("FAIL" if bad else "PASS")
sys.exit(1 if bad else 0)
