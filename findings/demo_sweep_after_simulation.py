"""C08: eigenvalue analysis reports the modes of the linearised system -- after parameter sweeps and for histories with t > 0.
EIG.sweep relied on TDS.itm_step() to rebuild the Jacobians, which it only does unconditionally while dae.t == 0: after a time-domain
run every point of the sweep returned the same eigenvalues.  Exit 0 = property holds."""
import sys

import numpy as np

import andes

andes.config_logger(50)
ss = andes.load(andes.get_case('kundur/kundur_full.xlsx'), default_config=True, no_output=True)
ss.PFlow.run()
ss.TDS.config.tf = 0.5
ss.TDS.config.no_tqdm = 1
ss.TDS.run()
ret = ss.EIG.sweep(ss.EXDC2.KA, 1, np.array([20., 2000.]))
d = float(np.max(np.abs(np.sort_complex(ret[0]['mu']) - np.sort_complex(ret[1]['mu']))))
print("sweep of EXDC2.KA over [20, 2000] after a simulation to t=0.5: max |difference of the two spectra| = %.3g" % d)
bad = d < 1e-6
print("PROPERTY VIOLATED: the sweep returns one spectrum for all parameter values" if bad else "PROPERTY HOLDS")
sys.exit(1 if bad else 0)
