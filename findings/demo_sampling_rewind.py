"""C09: Sampling (sample and hold, interval I) after a rejected step, real code.
t = 0 -> 1.7 (sample taken, 1.7 > I) -> step rejected, retried to 0.85 (no sample due: 0.85 <= I, the held value is restored) ->
1.25 (1.25 - 0 > I: a sample is due).  The rewind branch overwrites the time of the last sample with the retry time although no
sample was taken there, so the next sample is delayed by up to one interval."""
import sys

import numpy as np

from andes.core.common import DummyValue
from andes.core.discrete import Sampling

u = DummyValue(0)
u.v = np.zeros(1)
s = Sampling(u, interval=0.9, offset=0.0)
s.list2array(1)
out = None
for t, val in ((0.0, 10.0), (1.7, 11.0), (0.85, 12.0), (1.25, 13.0)):
    u.v[:] = val
    s.check_var(t)
    out = float(s.v[0])
want = 13.0   # last sample at t=0, 1.25 - 0 > 0.9 -> sample the current input
print("output %.1f, definition %.1f" % (out, want))
sys.exit(0 if out == want else 1)
