"""C06: with TDS.config.refresh_event = 1 ("refresh events at each step") an event whose time is changed during the simulation must fire
once at its new time.  store_switch_times appended the new times to the old schedule (unsorted, stale time kept) and the event pointer kept
walking the old list: the re-scheduled event never fired.  Exit 0 = property holds."""
import sys

import numpy as np

import andes

andes.config_logger(50)
ss = andes.load(andes.get_case('ieee14/ieee14_full.xlsx'), setup=False, default_config=True, no_output=True)
ss.add('Toggle', dict(idx='TX', model='Line', dev='Line_8', t=1.5))
ss.add('Alter', dict(t=1.2, model='PQ', dev='PQ_1', src='p0', attr='v', method='+', amount=0.0))   # an earlier event that changes nothing
ss.setup()
ss.PFlow.run()
ss.TDS.config.refresh_event = 1
ss.TDS.config.no_tqdm = 1
ss.TDS.config.tf = 0.5
ss.TDS.run()
ss.Toggle.alter('t', 'TX', 0.83)
ss.TDS.config.tf = 2.0
ok = ss.TDS.run()
st = np.array(ss.switch_times)
t = np.array(ss.dae.ts.t)
u = ss.Line.get('u', 'Line_8', 'v')
print("schedule after the change:", np.round(st, 4).tolist())
print("sorted:", bool(np.all(np.diff(st) > 0)), "| a step ends at 0.83:", bool(np.any(t == 0.83)), "| Line_8.u =", u, "| run ->", ok)
mono = bool(np.all(np.diff(t) > 0))
print("time stamps strictly increasing:", mono, "| stamps around the change:", np.round(t[(t > 0.75) & (t < 0.9)], 4).tolist())
bad = (u != 0) or not np.any(t == 0.83) or not mono
print("PROPERTY VIOLATED: the re-scheduled event did not fire once at its new time" if bad else "PROPERTY HOLDS")
sys.exit(1 if bad else 0)
