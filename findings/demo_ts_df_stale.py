"""C15: the in-memory series (`dae.ts.df_x`, `df_y`, `df_xy`, `df`) are unpacked lazily on their FIRST access only; TDS.run() refreshes
the numpy arrays at its end but not the dataframes, so after a resumed run the dataframes still hold the rows of the first segment."""
import sys

import andes

andes.config_logger(50)
ss = andes.load(andes.get_case("kundur/kundur_full.xlsx"), no_output=True, default_config=True)
ss.PFlow.run()
ss.TDS.config.no_tqdm = 1
ss.TDS.config.tf = 0.5
ss.TDS.run()
n1 = len(ss.dae.ts.df_xy)           # first access: unpacked now
ss.TDS.config.tf = 1.0
ss.TDS.run()
rows_np, rows_df = ss.dae.ts.xy.shape[0], len(ss.dae.ts.df_xy)
print("after the resumed run: numpy view %d rows, dataframe view %d rows (first segment had %d)" % (rows_np, rows_df, n1))
sys.exit(0 if rows_np == rows_df else 1)
