"""C06: an event fires exactly once.  When TDS.custom_event is raised in the step that ends at a scheduled event time, do_switch first
dispatches the scheduled event and then calls switch_action on ALL models at the same time: the Toggle fires twice (line back in).
Exit 0 = property holds."""
import sys

import andes

andes.config_logger(50)
ss = andes.load(andes.get_case('ieee14/ieee14_full.xlsx'), setup=False, default_config=True, no_output=True)
ss.add('Toggle', dict(model='Line', dev='Line_8', t=1.0))
ss.setup()
ss.PFlow.run()
ss.TDS.config.tf = 1.5
ss.TDS.config.no_tqdm = 1


def pert(t, system):
    if t == 1.0:
        system.TDS.custom_event = True      # what cases/ieee14/pert.py tells users to do after a manual change


ss.TDS.callpert = pert
ok = ss.TDS.run()
u = ss.Line.get('u', 'Line_8', 'v')
print("TDS.run -> %s, Line_8.u at the end = %s (one firing of the Toggle at t=1 leaves it at 0)" % (ok, u))
bad = u != 0
print("PROPERTY VIOLATED: the Toggle fired twice" if bad else "PROPERTY HOLDS")
sys.exit(1 if bad else 0)
