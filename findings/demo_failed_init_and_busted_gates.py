"""C17: dependent routines refuse to run on an invalid state.
 (a) a failed dynamic initialisation (TDS.test_ok False): TDS.run must not report success, EIG.run must refuse;
 (b) after a time-domain run that was terminated (TDS.busted): EIG.run must refuse, a second TDS.run must not move the clock.
Exit 0 = property holds."""
import sys

import andes

andes.config_logger(50)
bad = []

ss = andes.load(andes.get_case('kundur/kundur_full.xlsx'), setup=False, default_config=True, no_output=True)
ss.TGOV1.VMAX.v[0] = 0.1            # limit below the dispatch: the governor cannot initialise at the power-flow point
ss.setup()
ss.PFlow.run()
ss.TDS.config.tf = 0.5
r = ss.TDS.run()
print("(a) failed initialisation: test_ok=%s TDS.run -> %s, t=%s" % (ss.TDS.test_ok, r, float(ss.dae.t)))
if ss.TDS.test_ok is False and r:
    bad.append("TDS.run reports success after a failed initialisation")
ta = float(ss.dae.t)
r = ss.TDS.run()
print("(a) TDS.run again -> %s, clock %.4f -> %.4f" % (r, ta, float(ss.dae.t)))
if float(ss.dae.t) != ta or r:
    bad.append("a second TDS.run after the failed initialisation moves the clock / reports success")
e = ss.EIG.run()
print("(a) EIG.run after the failed initialisation ->", e)
if ss.TDS.test_ok is False and e:
    bad.append("EIG.run linearises a failed initialisation and reports success")

ss = andes.load(andes.get_case('kundur/kundur_full.xlsx'), setup=False, default_config=True, no_output=True)
ss.add('Fault', dict(bus=7, tf=1.0, tc=2.0, xf=1e-4, rf=0))
ss.setup()
ss.PFlow.run()
ss.TDS.config.tf = 10
r = ss.TDS.run()
t1 = float(ss.dae.t)
print("(b) unstable fault: TDS.run -> %s busted=%s t=%.4f" % (r, ss.TDS.busted, t1))
e = ss.EIG.run()
print("(b) EIG.run on the terminated simulation ->", e)
if ss.TDS.busted and e:
    bad.append("EIG.run reports success on the state of a terminated simulation")
r2 = ss.TDS.run()
t2 = float(ss.dae.t)
print("(b) TDS.run again -> %s, clock %.4f -> %.4f" % (r2, t1, t2))
if t2 != t1:
    bad.append("a second TDS.run on the terminated simulation moves the clock without computing a state")
for b in bad:
    print("VIOLATED:", b)
print("PROPERTY HOLDS" if not bad else "PROPERTY VIOLATED")
sys.exit(1 if bad else 0)
