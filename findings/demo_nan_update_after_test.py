"""C17/C01: no NaN state is presented as a solution; a reported success means the residual test passed FOR THE STATE THAT IS REPORTED.
PFlow.nr_step returns the mismatch of the point before its Newton update; nr_solve declared convergence on it and never looked at the
update itself.  With a singular Jacobian (island without slack) and a start point that already satisfies the equations (no load) the
solver's NaN sentinel was added to the state and the run still reported success.  Exit 0 = property holds."""
import sys

import numpy as np

import andes

andes.config_logger(50)
ss = andes.System(default_config=True, no_output=True)
for i in (1, 2, 3, 4):
    ss.add('Bus', dict(idx=i, name='B%d' % i, Vn=110))
ss.add('Line', dict(idx='L12', bus1=1, bus2=2, r=0.0, x=0.1, Vn1=110, Vn2=110))
ss.add('Slack', dict(idx='S1', bus=1, v0=1.0, a0=0.0, Vn=110))
ss.add('Line', dict(idx='L34', bus1=3, bus2=4, r=0.0, x=0.1, Vn1=110, Vn2=110))      # island 3-4 without a slack and without load
ss.setup()
ret = ss.PFlow.run()
nan = bool(np.isnan(ss.dae.y).any())
print("PFlow.run -> %s, converged = %s, exit_code = %d, NaN in the reported state: %s" % (ret, ss.PFlow.converged, ss.exit_code, nan))
bad = nan and (ret or ss.PFlow.converged or ss.exit_code == 0)
print("PROPERTY VIOLATED: a NaN state is reported as a converged solution" if bad else "PROPERTY HOLDS")
sys.exit(1 if bad else 0)
