"""C17: EIG.run() on a case without any dynamic model must refuse (false flag, non-zero exit code).  The `dae.n == 0` guard of
EIG._pre_check sat in an `elif` behind `TDS.initialized is False`, i.e. it was only evaluated when the time-domain routine had ALREADY
been initialised; on the usual path (power flow, then EIG) it was skipped and EIG.run() returned True with exit code 0."""
import sys

import andes

andes.config_logger(50)
ss = andes.load(andes.get_case("ieee14/ieee14.raw"), no_output=True, default_config=True)
ss.PFlow.run()
print("differential states:", ss.dae.n)
try:
    ok = ss.EIG.run()
except Exception as e:
    print("EIG.run raised %s: %s" % (type(e).__name__, e))
    sys.exit(1)
print("EIG.run() -> %s, exit_code=%s" % (ok, ss.exit_code))
sys.exit(1 if ok or ss.exit_code == 0 else 0)
