"""C17: Newton divergence / iteration limit => false success flag and non-zero exit code.  With PFlow.config.method = 'NK' a power flow that
does not converge raised scipy's NoConvergence out of PFlow.run (only ValueError was handled): no flag, exit_code untouched.
Exit 0 = property holds."""
import sys

import andes

andes.config_logger(50)
ss = andes.load(andes.get_case('ieee14/ieee14.raw'), setup=False, default_config=True, no_output=True)
ss.PQ.p0.v = [10 * v for v in ss.PQ.p0.v]          # ten-fold load: no solution
ss.setup()
ss.PFlow.config.method = 'NK'
bad = False
try:
    ret = ss.PFlow.run()
    print("PFlow.run ->", ret, "| converged =", ss.PFlow.converged, "| exit_code =", ss.exit_code)
    bad = bool(ret) or ss.exit_code == 0
except Exception as e:      # noqa
    print("PFlow.run raised %s; exit_code = %d" % (type(e).__name__, ss.exit_code))
    bad = True
print("PROPERTY VIOLATED: non-convergence is not reported through the flag and the exit code" if bad else "PROPERTY HOLDS")
sys.exit(1 if bad else 0)
