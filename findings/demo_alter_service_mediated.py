"""C11: "altering a parameter through the public alteration call ... takes effect in the next residual evaluation".
Line.x reaches the network equations only through ConstService strings (yh, ghk, bhk ...), which are evaluated at initialisation.  After
TDS.init() an alteration of Line.x changes the parameter (and what a case export writes) but not a single residual."""
import sys

import numpy as np

import andes

andes.config_logger(50)
ss = andes.load(andes.get_case("kundur/kundur_full.xlsx"), no_output=True, default_config=True)
ss.PFlow.run()
ss.TDS.init()
ss.TDS.fg_update(ss.exist.pflow_tds)
g0 = np.array(ss.dae.g)
idx = ss.Line.idx.v[0]
x_old = float(ss.Line.get("x", idx, "vin"))
ss.Line.alter("x", idx, 3 * x_old)
ss.TDS.fg_update(ss.exist.pflow_tds)
g1 = np.array(ss.dae.g)
print("Line.x of %s altered from %g to %g (stored: %g)" % (idx, x_old, 3 * x_old, ss.Line.get("x", idx, "vin")))
print("max |change of the algebraic residuals| = %.3g" % np.max(np.abs(g1 - g0)))
sys.exit(0 if np.max(np.abs(g1 - g0)) > 1e-6 else 1)
