"""Demonstration (real code): EIG.sweep over a parameter that is the time constant of a differential equation
(GENROU.M, the documented example). The eigenvalues must change with M. Before the fix dae.Tf is never refreshed
(TDS.init returns immediately once initialised) and every sweep point reports the same eigenvalues."""
import sys
import numpy as np
import andes
andes.config_logger(50)
ss = andes.load(andes.get_case("kundur/kundur_full.xlsx"), default_config=True, no_output=True)
ss.PFlow.run()
ss.EIG.run()
idx = ss.GENROU.idx.v[0]
res = ss.EIG.sweep(ss.GENROU.M, idx, [4.0, 40.0])
mu0, mu1 = np.sort_complex(res[0]["mu"]), np.sort_complex(res[1]["mu"])
d = np.abs(mu0 - mu1).max()
print("max |mu(M=4) - mu(M=40)| =", d, "| Tf at omega:", ss.dae.Tf[ss.GENROU.omega.a[0]], "(M.v =", ss.GENROU.M.v[0], ")")
sys.exit(0 if d > 1e-3 and abs(ss.dae.Tf[ss.GENROU.omega.a[0]] - ss.GENROU.M.v[0]) < 1e-12 else 1)
