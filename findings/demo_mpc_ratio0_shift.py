"""Demonstration (real code): a MATPOWER branch with ratio = 0 (nominal tap) and a non-zero shift angle.
Before the fix the phase shift is silently dropped on import."""
import sys
import numpy as np
import andes
from andes.io.matpower import mpc2system, system2mpc
andes.config_logger(50)
ss0 = andes.load(andes.get_case("matpower/case14.m"), default_config=True, no_output=True)
mpc = system2mpc(ss0)
mpc["branch"][0, 8] = 0.0
mpc["branch"][0, 9] = 7.5
ss = andes.System(default_config=True, no_output=True)
mpc2system(mpc, ss)
phi = ss.Line.phi.v[0] if hasattr(ss.Line.phi.v, "__len__") else None
print("imported tap=%s phi=%s rad (expected tap=1, phi=%.5f)" % (ss.Line.tap.v[0], ss.Line.phi.v[0], np.deg2rad(7.5)))
sys.exit(0 if abs(ss.Line.phi.v[0] - np.deg2rad(7.5)) < 1e-12 and ss.Line.tap.v[0] == 1 else 1)
