"""C20: Config.check() and System.collect_config() read the cached dict view `Config._dict`, which is filled by the first
check() at construction and never refreshed: a later update() with a value outside the declared alternatives is accepted, and
save_config() writes the values from construction time instead of the values in effect."""
import os
import sys
import tempfile

import andes

andes.config_logger(50)
ss = andes.System(default_config=True, no_output=True)
bad = 0
try:
    ss.TDS.config.update(fixt=5)          # alternatives are (0, 1)
    print("update(fixt=5) accepted although alternatives are", ss.TDS.config._alt["fixt"])
    bad += 1
except ValueError:
    print("update(fixt=5) rejected")
ss.TDS.config.update(fixt=1)
ss.TDS.config.update(tf=33.5)
ss.PFlow.config.max_iter = 17
with tempfile.TemporaryDirectory() as d:
    p = os.path.join(d, "andes.rc")
    ss.save_config(p, overwrite=True)
    s2 = andes.System(config_path=p, no_output=True)
    for rt, f, want in (("TDS", "tf", 33.5), ("TDS", "fixt", 1), ("PFlow", "max_iter", 17)):
        got = getattr(getattr(s2, rt).config, f)
        if got != want:
            print("saved+loaded %s.%s = %r, in effect at save time: %r" % (rt, f, got, want))
            bad += 1
sys.exit(1 if bad else 0)
