"""Demonstration (real code): eigenvalue analysis on an unconverged power flow.
Before the fix EIG.run() returns False but has already run TDS.init()/itm_step() on the invalid state
(TDS.initialized becomes True), and EIG.sweep() computes 'eigenvalues' from it without any error."""
import andes
andes.config_logger(50)
ss = andes.load(andes.get_case("kundur/kundur_full.xlsx"), default_config=True, no_output=True)
ss.PQ.alter("p0", ss.PQ.idx.v[0], 500.0)      # infeasible loading
ok = ss.PFlow.run()
print("PFlow converged:", ok)
r = ss.EIG.run()
print("EIG.run ->", r, "| TDS.initialized after EIG.run:", ss.TDS.initialized)
ss2 = andes.load(andes.get_case("kundur/kundur_full.xlsx"), default_config=True, no_output=True)
ss2.PQ.alter("p0", ss2.PQ.idx.v[0], 500.0)
ss2.PFlow.run()
res = ss2.EIG.sweep(ss2.GENROU.M, ss2.GENROU.idx.v[0], [5.0, 6.0])
print("EIG.sweep on unconverged PF ->", "refused" if not res else "returned %d result sets" % len(res),
      "| TDS.initialized:", ss2.TDS.initialized)
