"""Demonstration (real code): two SECTION.FIELD=VALUE options for the same section without an rc file.
Both are valid and must take effect. Before the fix the second one raises DuplicateSectionError."""
import sys
import andes
andes.config_logger(50)
try:
    ss = andes.System(default_config=True, no_undill=True, config_option=["TDS.tf=2", "TDS.tstep=0.01", "PFlow.tol=1e-8"])
except Exception as e:
    print("rejected valid options:", type(e).__name__, e)
    sys.exit(1)
print(ss.TDS.config.tf, ss.TDS.config.tstep, ss.PFlow.config.tol)
sys.exit(0 if (ss.TDS.config.tf, ss.TDS.config.tstep, ss.PFlow.config.tol) == (2, 0.01, 1e-8) else 1)
