"""C08: EIG.run() on a system whose time-domain routine is already initialised does not re-evaluate the Jacobians.
EIG.run(); EXDC2.alter('KA', ...); EIG.run() returns the identical spectrum although the exciter gain changed.
Reference: a fresh system loaded with the altered gain from the start."""
import sys

import numpy as np

import andes

andes.config_logger(50)
case = andes.get_case("kundur/kundur_full.xlsx")


def spectrum(ss):
    return np.sort_complex(np.array(ss.EIG.mu).ravel())


ss = andes.load(case, no_output=True, default_config=True)
ss.PFlow.run()
ss.EIG.run()
mu0 = spectrum(ss)
idx = ss.EXDC2.idx.v[0]
ka = float(ss.EXDC2.KA.v[0])
ss.EXDC2.alter("KA", idx, 10 * ka)
ss.EIG.run()
mu1 = spectrum(ss)

ref = andes.load(case, no_output=True, default_config=True, setup=False)
ref.EXDC2.alter("KA", idx, 10 * ka)
ref.setup()
ref.PFlow.run()
ref.EIG.run()
mur = spectrum(ref)

same_as_before = np.allclose(mu0, mu1)
err = float(np.max(np.abs(mu1 - mur)))
print("after alter: spectrum identical to before = %s; max |mu - reference| = %.3g" % (same_as_before, err))
sys.exit(1 if (same_as_before or err > 1e-6) else 0)
