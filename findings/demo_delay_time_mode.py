"""C09: Delay(mode='time') against its definition (the input delayed by `delay` seconds, linearly interpolated), real code.
 (1) REPEAT: a step is evaluated several times at the same time stamp (Newton iterations).  The interpolated output is computed from
     the FIRST evaluation and never refreshed, and the sample it was interpolated from is deleted.
 (2) REWIND: a rejected step is retried with a smaller step.  The history needed for the earlier query time has been deleted by the
     rejected step, the output stays at the value for the rejected time."""
import sys

import numpy as np

from andes.core.common import DummyValue
from andes.core.discrete import Delay


def feed(calls, delay):
    u = DummyValue(0)
    u.v = np.zeros(1)
    d = Delay(u=u, mode="time", delay=delay)
    d.list2array(1)
    out = None
    for t, val in calls:
        u.v[:] = val
        d.check_var(t)
        out = float(d.v[0])
    return out


bad = 0
# (1) input ramp u(t) = t, but the first Newton iterate at t = 1 still carries the old value 0; the converged value is 1
got = feed([(0.0, 0.0), (1.0, 0.0), (1.0, 1.0)], delay=0.5)
want = 0.5          # u(1.0 - 0.5) on the accepted history [(0, 0), (1, 1)]
print("repeat: output %.4f, definition %.4f" % (got, want))
bad += abs(got - want) > 1e-9
# (2) u(t) = t; step to 3.0 rejected, retried to 2.5 -> output must be u(2.5 - 2.5) = 0
got = feed([(0.0, 0.0), (1.0, 1.0), (2.0, 2.0), (3.0, 3.0), (2.5, 2.5)], delay=2.5)
want = 0.0
print("rewind: output %.4f, definition %.4f" % (got, want))
bad += abs(got - want) > 1e-9
sys.exit(1 if bad else 0)
