"""C12: bus-off propagation (ConnMan.record / ConnMan.act / GroupBase.find_idx) on the real code.
 (a) two buses switched off in one call: find_idx returns [None] for a bus without a match in some field; act() only drops the
     sentinel when the WHOLE result is [None] -> None reaches Group.set -> KeyError
 (b) two separate Bus.alter calls before the next routine: record() overwrites the pending change of the first call
 (c) a bus carrying devices of two models of one group (Shunt + ShuntSw, both StaticShunt): find_idx(allow_all=True) returns the
     first model's matches only -> the second model's device stays on
Expected in every scenario: exactly the devices attached to the switched-off buses have u == 0."""
import sys

import andes

andes.config_logger(50)
CASE = andes.get_case("ieee14/ieee14.json")


def attached(ss, buses):
    exp = {}
    for mname, flds in (("Line", ("bus1", "bus2")), ("PQ", ("bus",)), ("PV", ("bus",)), ("Slack", ("bus",)), ("Shunt", ("bus",)),
                        ("ShuntSw", ("bus",))):
        m = getattr(ss, mname)
        for k, idx in enumerate(m.idx.v):
            if any(getattr(m, f).v[k] in buses for f in flds):
                exp[(mname, idx)] = 0
            else:
                exp[(mname, idx)] = 1
    return exp


def check(tag, ss, buses):
    exp = attached(ss, buses)
    bad = []
    for (mname, idx), u in exp.items():
        got = int(getattr(ss, mname).get("u", idx, "v"))
        if got != u:
            bad.append("%s %s u=%d expected %d" % (mname, idx, got, u))
    print("%s: %s" % (tag, "ok" if not bad else "; ".join(bad)))
    return len(bad)


nbad = 0
# (a)
ss = andes.load(CASE, setup=True, no_output=True, default_config=True)
try:
    ss.Bus.alter("u", [14, 13], [0, 0])
    ss.PFlow.run()
    nbad += check("a (two buses, one call)", ss, {13, 14})
except Exception as e:
    print("a (two buses, one call): %s: %s" % (type(e).__name__, e))
    nbad += 1
# (b)
ss = andes.load(CASE, setup=True, no_output=True, default_config=True)
ss.Bus.alter("u", 14, 0)
ss.Bus.alter("u", 13, 0)
ss.PFlow.run()
nbad += check("b (two calls)", ss, {13, 14})
# (c)
ss = andes.load(CASE, setup=False, no_output=True, default_config=True)
sh_bus = ss.Shunt.bus.v[0]
ss.add("ShuntSw", dict(bus=sh_bus, idx="SW_X", name="SW_X", gs="0.0", bs="0.05", ns="1", Vn=ss.Bus.get("Vn", sh_bus, "v")))
ss.setup()
ss.Bus.alter("u", sh_bus, 0)
ss.PFlow.run()
nbad += check("c (two models of one group on the bus)", ss, {sh_bus})
sys.exit(1 if nbad else 0)
