"""C15/C10: a query of stored results by variable returns one column per device, in device order.  With an Output selection active the
columns came back in ascending-address order with shared addresses merged (BusFreq.v.a = [16, 14, 15] -> devices 1, 2, 0; Line.v1: 11
columns for 20 lines), and a device sub-index `a` addressed the stored subset instead of the devices (a=[0] returned device 2 when device
1 was not stored).  Exit 0 = property holds."""
import sys

import numpy as np

import andes

andes.config_logger(50)


def run(output_rows):
    ss = andes.load(andes.get_case('ieee14/ieee14_full.xlsx'), setup=False, default_config=True, no_output=True)
    for row in output_rows:
        ss.add('Output', row)
    ss.setup()
    ss.PFlow.run()
    ss.TDS.config.tf = 0.3
    ss.TDS.config.no_tqdm = 1
    ss.TDS.run()
    return ss


bad = []
ref = run([])                                   # everything stored
ss = run([dict(model='Bus')])                   # bus a, v stored (BusFreq.v and Line.v1 are views of bus voltages)
full = ref.dae.ts.get_data(ref.BusFreq.v)
part = ss.dae.ts.get_data(ss.BusFreq.v)
same = [bool(np.allclose(part[:, k], full[:, k])) for k in range(full.shape[1])] if part.shape == full.shape else None
print("BusFreq.v addresses", list(ref.BusFreq.v.a), "-> column k is device k:", same)
if same is None or not all(same):
    bad.append("columns of get_data(BusFreq.v) are not in device order")
l_full = ref.dae.ts.get_data(ref.Line.v1)
l_part = ss.dae.ts.get_data(ss.Line.v1)
print("Line.v1: %d devices, %d columns without Output, %d columns with Output" % (ref.Line.n, l_full.shape[1], l_part.shape[1]))
if l_part.shape != l_full.shape or not np.allclose(l_part, l_full):
    bad.append("get_data(Line.v1) does not return one column per line")
s2 = run([dict(model='GENROU', varname='omega', dev='GENROU_2'), dict(model='GENROU', varname='omega', dev='GENROU_4')])
o_full = ref.dae.ts.get_data(ref.GENROU.omega)
try:
    d1 = s2.dae.ts.get_data(s2.GENROU.omega, a=[1])
    ok1 = d1.shape[1] == 1 and np.allclose(d1[:, 0], o_full[:, 1])
    d3 = s2.dae.ts.get_data(s2.GENROU.omega, a=[3])
    ok3 = d3.shape[1] == 1 and np.allclose(d3[:, 0], o_full[:, 3])
    d0 = s2.dae.ts.get_data(s2.GENROU.omega, a=[0])
    ok0 = d0.shape[1] == 0
    print("GENROU.omega stored for devices 2 and 4: a=[1] -> device 2: %s, a=[3] -> device 4: %s, a=[0] (not stored) -> nothing: %s" % (ok1, ok3, ok0))
    if not (ok1 and ok3 and ok0):
        bad.append("device sub-index addresses the stored subset")
except Exception as e:      # noqa
    print("sub-index query failed:", repr(e))
    bad.append("device sub-index query raises")
for b in bad:
    print("VIOLATED:", b)
print("PROPERTY HOLDS" if not bad else "PROPERTY VIOLATED")
sys.exit(1 if bad else 0)
