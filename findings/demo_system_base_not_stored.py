"""C13 (open finding): writing a loaded system to xlsx / json and reading it back yields the same power-flow result.  The PSS/E reader
sets System.config.mva / freq from the raw file; the native formats store device tables only.  Exit 0 = property holds."""
import os
import sys
import tempfile

import numpy as np

import andes

andes.config_logger(50)
s1 = andes.load(andes.get_case('nordic44/N44_BC.raw'), default_config=True, no_output=True)
s1.PFlow.run()
d = tempfile.mkdtemp()
bad = False
for fmt in ('xlsx', 'json'):
    p = os.path.join(d, 'n44.' + fmt)
    andes.io.dump(s1, fmt, full_path=p, overwrite=True)
    s2 = andes.load(p, default_config=True, no_output=True)
    s2.PFlow.run()
    dv = float(np.max(np.abs(s2.Bus.v.v - s1.Bus.v.v))) if s2.PFlow.converged else float('nan')
    print("%s: base %.0f MVA / %.0f Hz -> %.0f MVA / %.0f Hz; re-read power flow converged=%s, max |dV| = %.4f" % (
        fmt, s1.config.mva, s1.config.freq, s2.config.mva, s2.config.freq, s2.PFlow.converged, dv))
    if s2.config.mva != s1.config.mva or s2.config.freq != s1.config.freq or not (dv < 1e-8):
        bad = True
print("PROPERTY VIOLATED: the native formats do not carry the system base" if bad else "PROPERTY HOLDS")
sys.exit(1 if bad else 0)
