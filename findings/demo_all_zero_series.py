"""C15: stored results are the simulated values.  The "is this channel stored?" test of DAETimeSeries._access_array counted the non-zero
ENTRIES of the stored matrix: with an Output selection whose variables stay exactly zero (a stabiliser output at rest) the stored data
were declared missing and get_data raised.  Exit 0 = property holds."""
import sys

import numpy as np

import andes

andes.config_logger(50)
ss = andes.load(andes.get_case('kundur/kundur_ieeest.xlsx'), setup=False, default_config=True, no_output=True)
for ev in ('Toggle', 'Fault', 'Alter'):
    if getattr(ss, ev).n:
        getattr(ss, ev).u.v = [0] * getattr(ss, ev).n
ss.add('Output', dict(model='IEEEST', varname='vsout'))
ss.setup()
ss.PFlow.run()
ss.TDS.config.tf = 0.2
ss.TDS.config.no_tqdm = 1
ss.TDS.run()
bad = False
try:
    d = ss.dae.ts.get_data(ss.IEEEST.vsout)
    print("get_data(IEEEST.vsout): shape %s, max |value| = %g" % (d.shape, float(np.max(np.abs(d))) if d.size else float('nan')))
    bad = d.shape != (len(ss.dae.ts.t), ss.IEEEST.n)
except Exception as e:      # noqa
    print("get_data(IEEEST.vsout) raises %r" % e)
    bad = True
print("PROPERTY VIOLATED: a stored all-zero series cannot be retrieved" if bad else "PROPERTY HOLDS")
sys.exit(1 if bad else 0)
