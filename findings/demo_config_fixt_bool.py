"""C20: saving the configuration and loading it into a new system reproduces every value with its type.  With TDS.tstep <= 0 the
routine itself wrote `config.fixt = False` into a field whose declared alternatives are (0, 1): save_config wrote `fixt = False`, and
loading that file was rejected.  Exit 0 = property holds."""
import os
import sys
import tempfile

import andes

andes.config_logger(50)
ss = andes.load(andes.get_case('5bus/pjm5bus.json'), default_config=True, no_output=True,
                config_option=['TDS.tstep=0', 'TDS.tf=0.05', 'TDS.fixt=1'])
ss.PFlow.run()
ss.TDS.config.no_tqdm = 1
ss.TDS.run()
print("after the run: TDS.config.fixt = %r" % ss.TDS.config.fixt)
d = tempfile.mkdtemp()
rc = os.path.join(d, "andes.rc")
ss.save_config(rc, overwrite=True)
bad = False
try:
    s2 = andes.System(config_path=rc, no_undill=True)
    print("reloaded: TDS.config.fixt = %r" % s2.TDS.config.fixt)
    bad = type(s2.TDS.config.fixt) is not type(ss.TDS.config.fixt) or s2.TDS.config.fixt != ss.TDS.config.fixt
except Exception as e:      # noqa
    print("loading the saved configuration failed:", e)
    bad = True
print("PROPERTY VIOLATED" if bad else "PROPERTY HOLDS")
sys.exit(1 if bad else 0)
