"""C13: the MATPOWER reader drops the last row of a matrix when the closing `];` stands on the same line as the data
(valid MATLAB; common in hand-written case files).  The section-end pattern `\\s*\\];?` is searched anywhere in the line, so a data
line that also carries the bracket is taken as the end marker and discarded."""
import io
import sys

import andes
from andes.io import matpower

andes.config_logger(50)
src = open(andes.get_case("matpower/case5.m")).read()
ref = matpower.m2mpc(io.StringIO(src))
# move the closing bracket of every matrix onto the last data line
lines = src.splitlines()
out = []
for ln in lines:
    if ln.strip() in ("];", "]"):
        k = len(out) - 1
        while k >= 0 and not out[k].strip():
            k -= 1
        out[k] = out[k].rstrip() + " ];"
    else:
        out.append(ln)
mod = matpower.m2mpc(io.StringIO("\n".join(out) + "\n"))
bad = 0
for key in ("bus", "gen", "branch"):
    print("%-7s rows: reference %d, bracket on the data line %d" % (key, ref[key].shape[0], mod[key].shape[0] if key in mod else 0))
    bad += (key not in mod) or ref[key].shape != mod[key].shape
sys.exit(1 if bad else 0)
