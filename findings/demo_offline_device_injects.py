"""C05: loads and generators are replaced by their dynamic models without changing the injected power -- including offline devices.
An OFFLINE REGCA1 (u = 0) left its static generator on (correct) but still injected Pe, Qe into the bus: the power was counted twice and
the dynamic initialisation failed / the bus balance changed.  (PLBVFU1 has the same shape: injections without the status factor.)
Exit 0 = property holds."""
import sys

import numpy as np

import andes

andes.config_logger(50)
ss = andes.load(andes.get_case('ieee14/ieee14_solar.xlsx'), setup=False, default_config=True, no_output=True)
ss.REGCA1.u.v[0] = 0
for mdl in ('REECA1', 'REPCA1', 'WTDTA1', 'WTARA1', 'WTPTA1', 'WTTQA1'):
    if getattr(ss, mdl).n:
        pass
ss.setup()
ss.PFlow.run()
ss.TDS.init()
k = 0
a_addr = ss.REGCA1.a.a[k]
bus = ss.REGCA1.bus.v[k]
inj_p = float(ss.REGCA1.a.e[k])
gen = ss.REGCA1.gen.v[k]
print("REGCA1 #1 offline at bus %s: its static generator u = %s; power the offline converter puts on the bus: P = %.4f" % (
    bus, ss.StaticGen.get('u', gen), inj_p))
print("dynamic initialisation test:", ss.TDS.test_ok)
bad = abs(inj_p) > 1e-9
print("PROPERTY VIOLATED: an offline device injects power" if bad else "PROPERTY HOLDS")
sys.exit(1 if bad else 0)
