"""Demonstration (real code) of the OPEN finding C16.stale-symbolic/KLUSolver: one solver instance, first a
diagonal matrix, then a matrix with a different pattern; KLU reuses the stale symbolic factor and returns a
wrong solution without any error, UMFPACK raises ValueError internally and is retried correctly."""
import numpy as np
from kvxopt import spmatrix, matrix
from andes.linsolvers.solverbase import Solver

A1 = spmatrix([2., 3., 4.], [0, 1, 2], [0, 1, 2], (3, 3))
A2 = spmatrix([2., 1., 1., 3., 1., 4., 1.], [0, 0, 1, 1, 2, 2, 0], [0, 1, 0, 1, 1, 2, 2], (3, 3))
b = [1., 2., 3.]
ref = np.linalg.solve(np.array(matrix(A2)), np.array(b))
for lib in ("klu", "umfpack"):
    s = Solver(lib)
    s.solve(A1, matrix([2., 3., 4.]))
    x = s.solve(A2, matrix(b))
    print("%-8s x=%s  reference=%s  |A x - b|=%.3g" % (lib, x, ref, np.abs(np.array(matrix(A2)) @ x - b).max()))
