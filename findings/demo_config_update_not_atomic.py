"""C20: "values outside the declared alternatives ... are rejected with an error".  Config.update() stores the values and then validates:
the ValueError is raised, but the rejected value stays in the configuration and is used from then on."""
import sys

import andes

andes.config_logger(50)
ss = andes.System(default_config=True, no_output=True)
before = ss.TDS.config.fixt
try:
    ss.TDS.config.update(fixt=5)
    print("update(fixt=5) accepted")
    sys.exit(1)
except ValueError as e:
    print("update(fixt=5) raised:", e)
print("TDS.config.fixt before %r, after the rejected update %r" % (before, ss.TDS.config.fixt))
sys.exit(0 if ss.TDS.config.fixt == before else 1)
