"""Demonstration (runs the real code; not part of any check): with an asymmetric branch shunt (b1 != b2)
the to-side reactive injection computed by ANDES differs from the pi-model value computed independently
from the solved voltages.  Prints the discrepancy; ~0 after the fix."""
import numpy as np
import andes

andes.config_logger(50)
ss = andes.load(andes.get_case("ieee14/ieee14.raw"), default_config=True, no_output=True)
ss.Line.alter("b1", ss.Line.idx.v[0], 0.30)
ss.Line.alter("b2", ss.Line.idx.v[0], 0.02)
ss.Line.alter("g1", ss.Line.idx.v[0], 0.05)
ss.PFlow.run()
L = ss.Line
k = 0
v1, v2, a1, a2 = L.v1.v[k], L.v2.v[k], L.a1.v[k], L.a2.v[k]
y = 1 / (L.r.v[k] + 1j * L.x.v[k])
yk = (L.g2.v[k] + L.g.v[k] / 2) + 1j * (L.b2.v[k] + L.b.v[k] / 2)
t, phi = L.tap.v[k], L.phi.v[k]
V1, V2 = v1 * np.exp(1j * a1), v2 * np.exp(1j * a2)
I2 = -y / (t * np.exp(1j * phi)) * V1 + (yk + y) * V2
S2 = V2 * np.conj(I2)
print("converged", ss.PFlow.converged)
print("ANDES   P2,Q2 =", L.a2.e[k], L.v2.e[k])
print("pi-model P2,Q2 =", S2.real, S2.imag)
print("discrepancy   =", abs(L.a2.e[k] - S2.real), abs(L.v2.e[k] - S2.imag))
