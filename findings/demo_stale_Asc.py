"""C08 (state): what EIG keeps and exports belongs to the last analysis.  `Asc` ("the original complete As") was only written when states
with zero time constants exist: after the last such state got a non-zero time constant a second analysis kept the matrix of the FIRST one
(export_mat writes it).  Exit 0 = property holds."""
import sys

import numpy as np

import andes

andes.config_logger(50)
ss = andes.load(andes.get_case('ieee14/ieee14_full.xlsx'), default_config=True, no_output=True)
ss.PFlow.run()
ss.EIG.run()
had = ss.EIG.Asc is not None
ss.ESST3A.set('TA', ss.ESST3A.idx.v, 'v', 0.05)
ss.EIG.run()
stale = ss.EIG.Asc is not None and len(ss.EIG.zstate_idx) == 0
print("first analysis kept a complete matrix: %s; after TA := 0.05 zero-T states left: %d, Asc %s" % (
    had, len(ss.EIG.zstate_idx), "still holds the matrix of the first analysis" if stale else "cleared / current"))
print("PROPERTY VIOLATED" if stale else "PROPERTY HOLDS")
sys.exit(1 if stale else 0)
