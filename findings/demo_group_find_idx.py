"""C19: a lookup by field values returns the devices that have those values, from whichever model of the group holds them.
GroupBase.find_idx asked every model of the group, and a model that does not have the field raised KeyError (StaticGen.find_idx('a0', ...)
although Slack has `a0`); an empty query raised IndexError in the group while the model answered [].  Exit 0 = property holds."""
import sys

import andes

andes.config_logger(50)
ss = andes.load(andes.get_case('kundur/kundur_full.xlsx'), default_config=True, no_output=True)
bad = []
a0 = ss.Slack.a0.v[0]
want = ss.Slack.find_idx('a0', [a0])
try:
    got = ss.StaticGen.find_idx('a0', [a0])
    print("Slack.find_idx('a0', [a0]) -> %s ; StaticGen.find_idx('a0', [a0]) -> %s" % (want, got))
    if list(got) != list(want):
        bad.append("group and model disagree")
except Exception as e:      # noqa
    print("StaticGen.find_idx('a0', [a0]) raises %r (Slack.find_idx gives %s)" % (e, want))
    bad.append("lookup by a field only some models have raises")
try:
    e_m, e_g = ss.PQ.find_idx('bus', []), ss.StaticLoad.find_idx('bus', [])
    print("empty query: model -> %s, group -> %s" % (e_m, e_g))
    if list(e_m) != list(e_g):
        bad.append("empty query: group and model disagree")
except Exception as e:      # noqa
    print("empty query raises %r" % e)
    bad.append("empty query raises")
print("PROPERTY VIOLATED: %s" % bad if bad else "PROPERTY HOLDS")
sys.exit(1 if bad else 0)
