"""Demonstration (real code): DeadBandRT return-direction flags. Input goes above the band, then returns inside:
documented zur = 1 (returned from the upper threshold). Before the fix both flags stay 0 for every history."""
import numpy as np
from andes.core.discrete import DeadBandRT
from andes.core.common import DummyValue


class V:
    def __init__(self, v):
        self.v = np.array([float(v)])
        self.name = "x"


u = V(0.0)
db = DeadBandRT(u=u, center=DummyValue(0.0), lower=V(-1.0), upper=V(1.0))
for x in (0.0, 2.0, 0.5, 0.2, -3.0, -0.5):
    u.v[:] = x
    db.check_var()
    print("u=%5.1f  zl,zi,zu=%d%d%d  zur=%d zlr=%d" % (x, db.zl[0], db.zi[0], db.zu[0], db.zur[0], db.zlr[0]))
