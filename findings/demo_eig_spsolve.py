"""Demonstration (real code) of the OPEN finding C16.inplace-contract: eigenvalue analysis with the SciPy back-end.
EIG._reduce calls solver.linsolve(gy, gyx) and ignores the return value, relying on the in-place semantics of the
SuiteSparse back-ends; the SciPy back-end returns a new array (and flattens a matrix right-hand side), so the analysis
fails (or would silently use gyx = gx)."""
import sys
import numpy as np
import andes
andes.config_logger(50)
mus = {}
for lib in ("klu", "spsolve"):
    ss = andes.load(andes.get_case("kundur/kundur_full.xlsx"), default_config=True, no_output=True, config_option=["EIG.sparselib=%s" % lib])
    ss.PFlow.run()
    try:
        ok = ss.EIG.run()
        mus[lib] = np.sort_complex(ss.EIG.mu)
        print(lib, "EIG.run ->", ok)
    except Exception as e:
        print(lib, "EIG.run raised", type(e).__name__, str(e)[:100])
if len(mus) == 2 and np.abs(mus["klu"] - mus["spsolve"]).max() < 1e-6:
    sys.exit(0)
sys.exit(1)
