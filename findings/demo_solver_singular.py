"""Demonstration (real code): singular matrices through the sparse-solver wrapper.
 (a) one-shot linsolve returns the untouched right-hand side as 'solution';
 (b) solve(): pattern change (ValueError -> retry) followed by a singular matrix loses the NaN sentinel."""
import numpy as np
from kvxopt import spmatrix, matrix
from andes.linsolvers.solverbase import Solver

for lib in ("klu", "umfpack"):
    s = Solver(lib)
    Asing = spmatrix([1.0, 1.0, 1.0, 1.0], [0, 0, 1, 1], [0, 1, 0, 1], (2, 2))     # rank 1
    x = s.linsolve(Asing, matrix([1.0, 2.0]))
    print(lib, "linsolve(singular) ->", x, " NaN reported:", bool(np.isnan(x).any()))
    s = Solver(lib)
    A1 = spmatrix([2.0, 3.0], [0, 1], [0, 1], (2, 2))
    print(lib, "solve(regular)     ->", s.solve(A1, matrix([2.0, 3.0])))
    x = s.solve(Asing, matrix([1.0, 2.0]))          # new pattern (symbolic factor invalid) and singular
    print(lib, "solve(new pattern, singular) ->", x, " NaN reported:", bool(np.isnan(x).any()))
