"""C11: a time constant set through the GROUP (SynGen.set) after dynamic initialisation does not reach dae.Tf / TDS.Teye, while the
same call on the model (GENROU.set) does: Group.set writes the attribute array itself instead of delegating to Model.set."""
import sys

import andes

andes.config_logger(50)
ss = andes.load(andes.get_case("kundur/kundur_full.xlsx"), no_output=True, default_config=True)
ss.PFlow.run()
ss.TDS.init()
idx = ss.GENROU.idx.v[0]
addr = ss.GENROU.omega.a[0]
old = float(ss.dae.Tf[addr])
new = old * 2
ss.SynGen.set("M", idx, "v", new)
got_tf, got_teye = float(ss.dae.Tf[addr]), float(ss.TDS.Teye[int(addr), int(addr)])
print("GENROU.M=%g after SynGen.set; dae.Tf=%g, Teye=%g (expected %g)" % (ss.GENROU.M.v[0], got_tf, got_teye, new))
sys.exit(0 if (abs(got_tf - new) < 1e-12 and abs(got_teye - new) < 1e-12) else 1)
