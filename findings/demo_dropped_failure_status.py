"""C17: missing or unparsable input => false success flag and non-zero exit code.  Two helpers report failure through their return value
and the callers dropped it: a perturbation file that does not exist (TDS._load_pert -> the simulation ran without it and reported
success) and an unsupported conversion format (andes.io.dump -> `andes run case --convert foo` exited 0).  Exit 0 = property holds."""
import os
import shutil
import sys
import tempfile

import andes
from andes.main import run

andes.config_logger(50)
d = tempfile.mkdtemp()
shutil.copy(andes.get_case('5bus/pjm5bus.json'), os.path.join(d, 'c.json'))
a = run('c.json', input_path=d, cli=True, no_output=True, default_config=True, verbose=50, routine='tds', tf=0.1,
        pert=os.path.join(d, 'missing_pert.py'))
print("(a) TDS with a perturbation file that does not exist: exit code", a)
b = run('c.json', input_path=d, cli=True, no_output=True, default_config=True, verbose=50, convert='foo', output_path=d)
print("(b) conversion to an unsupported format: exit code", b)
bad = a == 0 or b == 0
print("PROPERTY VIOLATED" if bad else "PROPERTY HOLDS")
sys.exit(1 if bad else 0)
