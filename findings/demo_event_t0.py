"""Demonstration (real code): a Toggle scheduled exactly at the initial time t0 = 0.
Before the fix the event is never applied (calc_h steps over the t0 entry of the schedule without
dispatching it): the line is still in service after the run. After the fix it is applied once at t=0."""
import andes
andes.config_logger(50)
ss = andes.load(andes.get_case("kundur/kundur_full.xlsx"), default_config=True, no_output=True, setup=False)
for t in list(ss.Toggle.idx.v):
    ss.Toggle.alter("u", t, 0) if False else None
ss.add("Toggle", dict(model="Line", dev="Line_3", t=0.0))
ss.setup()
ss.Toggle.u.v[:-1] = 0          # keep only the new event
ss.PFlow.run()
ss.TDS.config.tf = 0.05
ss.TDS.config.no_tqdm = 1
ok = ss.TDS.run()
print("TDS ok:", ok, "| Line_3 u after run:", ss.Line.get("u", "Line_3"), "(0 expected: toggled once at t=0)")
print("first stored times:", ss.dae.ts.t[:4])
