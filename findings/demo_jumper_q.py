"""Demonstration (real code): a Jumper carrying reactive power is opened during a simulation.
Before the fix its q keeps the pre-opening value (row (1-u)*p does not constrain q), so the open
jumper keeps exchanging reactive power between the two buses. After the fix q -> 0."""
import andes
andes.config_logger(50)
ss = andes.load(andes.get_case("ieee14/ieee14_jumper.xlsx"), default_config=True, no_output=True)
ss.PFlow.run()
print("q with jumper closed:", ss.Jumper.q.v)
ss.TDS.config.tf = 0.1
ss.TDS.config.criteria = 0
ss.TDS.run()
ss.Jumper.alter("u", ss.Jumper.idx.v[0], 0)
ss.TDS.config.tf = 0.5
ss.TDS.run()
print("q after opening     :", ss.Jumper.q.v, " p:", ss.Jumper.p.v)
