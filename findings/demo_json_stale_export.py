"""Demonstration (real code): dump to JSON, alter a parameter, dump again: the second dump must contain the altered value.
Before the fix the JSON writer reuses the cached input-base view and writes the stale value."""
import io
import json
import sys
import andes
andes.config_logger(50)
ss = andes.load(andes.get_case("5bus/pjm5bus.xlsx"), default_config=True, no_output=True)
buf = io.StringIO()
andes.io.json.write(ss, buf)
idx = ss.PQ.idx.v[0]
ss.PQ.alter("p0", idx, 9.87)
buf2 = io.StringIO()
andes.io.json.write(ss, buf2)
p0 = json.loads(buf2.getvalue())["PQ"][0]["p0"]
print("p0 written after alter:", p0, "(expected 9.87)")
sys.exit(0 if abs(p0 - 9.87) < 1e-12 else 1)
