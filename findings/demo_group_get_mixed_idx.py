"""C19: a lookup returns the device that actually has the value; a reference is never silently resolved to another device -- for numeric
and string indices.  GroupBase.get chose its result container from the FIRST value: after a number, the string idx '7' was converted to
7.0 by NumPy, so a device referring (through a group) to bus '7' was silently attached to bus 7; with a non-numeric string the same query
raised or worked depending on the order.  Exit 0 = property holds."""
import sys

import andes

andes.config_logger(50)


def build(second_bus):
    ss = andes.load(andes.get_case('5bus/pjm5bus.json'), setup=False, default_config=True, no_output=True)
    ss.add('Bus', dict(idx=second_bus, Vn=230, area=1))
    ss.add('Bus', dict(idx=7, Vn=230, area=1))
    ss.add('Line', dict(bus1=0, bus2=second_bus, x=0.1, r=0.01))
    ss.add('Line', dict(bus1=0, bus2=7, x=0.1, r=0.01))
    ss.add('PV', dict(idx='sa', bus=0, p0=0.1, v0=1.0))
    ss.add('PV', dict(idx='sb', bus=second_bus, p0=0.1, v0=1.0))
    ss.add('GENCLS', dict(idx='GA', bus=0, gen='sa', M=6, Sn=100, Vn=230))
    ss.add('GENCLS', dict(idx='GB', bus=second_bus, gen='sb', M=6, Sn=100, Vn=230))
    return ss


bad = []
ss = build('7')
got = list(ss.SynGen.get('bus', ['GA', 'GB']))
print("SynGen.get('bus', ['GA', 'GB']) with buses 0 and '7' ->", got)
if got[1] != '7' or not isinstance(got[1], str):
    bad.append("the string idx '7' comes back as %r" % (got[1],))
ss = build('B2')
for order in (['GA', 'GB'], ['GB', 'GA']):
    try:
        print("SynGen.get('bus', %s) with buses 0 and 'B2' ->" % order, list(ss.SynGen.get('bus', order)))
    except Exception as e:      # noqa
        print("SynGen.get('bus', %s) raises %r" % (order, e))
        bad.append("valid query raises")
for b in bad:
    print("VIOLATED:", b)
print("PROPERTY HOLDS" if not bad else "PROPERTY VIOLATED")
sys.exit(1 if bad else 0)
