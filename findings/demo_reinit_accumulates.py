"""C05: the dynamic initialisation yields an equilibrium consistent with the power flow -- also when it is repeated.  Initial values
declared with `v_str_add` (exciter input = compensator part + bus voltage part) are added in place; TDS.init() did not clear what an
earlier initialisation had left in dae.y, so `TDS.reset(); TDS.init()` doubled them (EXDC2.v = 2.0 p.u. at a 1.0 p.u. bus) and the
initialisation test failed.  Exit 0 = property holds."""
import sys

import numpy as np

import andes

andes.config_logger(50)
bad = []
for case in ('kundur/kundur_full.xlsx', 'ieee14/ieee14_full.xlsx'):
    ss = andes.load(andes.get_case(case), default_config=True, no_output=True)
    ss.PFlow.run()
    ss.TDS.init()
    x1, y1, ok1 = ss.dae.x.copy(), ss.dae.y.copy(), ss.TDS.test_ok
    ss.TDS.reset()
    ss.TDS.init()
    d = max(np.max(np.abs(ss.dae.x - x1)), np.max(np.abs(ss.dae.y - y1)))
    print("%-26s first init test_ok=%s, second init test_ok=%s, max |difference of initial values| = %.3g" % (case, ok1, ss.TDS.test_ok, d))
    if not (ok1 and ss.TDS.test_ok) or d > 1e-12:
        bad.append(case)
print("PROPERTY VIOLATED: a repeated initialisation is not the initialisation" if bad else "PROPERTY HOLDS")
sys.exit(1 if bad else 0)
