"""Demonstration (real code): MATPOWER export of a system with two loads (and two shunts) on one bus.
The MATPOWER bus table holds bus totals; before the fix only the last device on the bus is exported."""
import sys
import numpy as np
import andes
from andes.io.matpower import system2mpc
andes.config_logger(50)
ss = andes.load(andes.get_case("ieee14/ieee14.raw"), default_config=True, no_output=True, setup=False)
bus = ss.PQ.bus.v[0]
ss.add("PQ", dict(bus=bus, Vn=ss.Bus.Vn.v[ss.Bus.idx2uid(bus)], p0=0.11, q0=0.07))
sb = ss.Shunt.bus.v[0]
ss.add("Shunt", dict(bus=sb, Vn=ss.Bus.Vn.v[ss.Bus.idx2uid(sb)], g=0.02, b=0.05))
ss.setup()
mpc = system2mpc(ss)
uid = ss.Bus.idx2uid(bus)
want_p = sum(p for p, b in zip(ss.PQ.p0.v, ss.PQ.bus.v) if b == bus) * ss.config.mva
want_b = sum(x for x, b in zip(ss.Shunt.b.v, ss.Shunt.bus.v) if b == sb) * ss.config.mva
got_p, got_b = mpc["bus"][uid, 2], mpc["bus"][ss.Bus.idx2uid(sb), 5]
print("bus %s Pd exported %.4f MW, total load %.4f MW ; Bs exported %.4f, total %.4f" % (bus, got_p, want_p, got_b, want_b))
sys.exit(0 if abs(got_p - want_p) < 1e-9 and abs(got_b - want_b) < 1e-9 else 1)
