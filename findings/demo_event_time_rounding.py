"""C06: "a successful run ends exactly at the requested end time; stored time stamps are strictly increasing".
The clock is advanced by `dae.t += h` with h = target - t.  fl(t + fl(target - t)) need not equal target: with an event at 0.05, a fixed
step of 0.5 and tf = 0.45 the clock ends at 0.45000000000000007, the success test `dae.t == tf` fails and a healthy run is reported as
failed (exit code 1); with events at 0.05 and 0.45 the stamp after 0.4499 overshoots by one ulp and a negative step follows."""
import sys

import numpy as np

import andes

andes.config_logger(50)
case = andes.get_case("kundur/kundur_full.xlsx")
bad = 0


def run(events, tf, tstep=0.5):
    ss = andes.load(case, no_output=True, default_config=True, setup=False)
    ss.Toggle.alter("u", ss.Toggle.idx.v[0], 0)       # stock line trip off
    for k, t in enumerate(events):
        ss.add("Alter", dict(t=t, model="GENROU", dev=ss.GENROU.idx.v[0], src="D", attr="v", method="+", amount=0.0))
    ss.setup()
    ss.PFlow.run()
    ss.TDS.config.tf = tf
    ss.TDS.config.tstep = tstep
    ss.TDS.config.fixt = 1
    ss.TDS.config.no_tqdm = 1
    ok = ss.TDS.run()
    return ss, ok


ss, ok = run([0.05], 0.45)
print("events [0.05], tf=0.45: run() -> %s, exit_code=%s, busted=%s, final t=%r" % (ok, ss.exit_code, ss.TDS.busted, float(ss.dae.t)))
bad += (not ok) or float(ss.dae.t) != 0.45
ss, ok = run([0.05, 0.45], 1.0)
t = np.array(ss.dae.ts.t)
nonmono = int(np.sum(np.diff(t) <= 0))
print("events [0.05, 0.45], tf=1.0: %d non-increasing stamp pairs; stamps near 0.45: %s" % (nonmono, [repr(float(x)) for x in t if 0.44 < x < 0.46]))
bad += nonmono > 0
sys.exit(1 if bad else 0)
