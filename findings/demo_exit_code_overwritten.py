"""C17: "the process exit code is non-zero" when a routine did not reach a valid result.  System.exit_code is a failure counter that every
routine adds to -- except PFlow.run, which ASSIGNS it: a failed set-up (dangling reference) followed by a converged power flow ends with
exit code 0."""
import sys

import andes

andes.config_logger(50)
ss = andes.load(andes.get_case("ieee14/ieee14.raw"), no_output=True, default_config=True, setup=False)
ss.add("ZIP", dict(pq="no_such_load", idx="ZIP_X", kpp=100, kpi=0, kpz=0, kqp=100, kqi=0, kqz=0))
ok_setup = ss.setup()
code_after_setup = ss.exit_code
ok_pf = ss.PFlow.run()
print("setup() -> %s (exit_code %d); PFlow.run() -> %s; exit_code now %d" % (ok_setup, code_after_setup, ok_pf, ss.exit_code))
sys.exit(1 if (not ok_setup and ss.exit_code == 0) else 0)
