"""C08: the three counts partition the reported eigenvalues and the participation factors belong to the reported modes -- also after a
parameter sweep.  EIG.sweep stored mu and N of its last point but kept the counts, participation factors and left eigenvectors of the
previous EIG.run(): a following report() printed the new eigenvalues with the old statistics.  Exit 0 = property holds."""
import sys

import numpy as np

import andes

andes.config_logger(50)
ss = andes.load(andes.get_case('kundur/kundur_full.xlsx'), default_config=True, no_output=True)
ss.PFlow.run()
ss.EIG.run()
ss.EIG.sweep(ss.GENROU.D, 1, np.array([-300.]))
mu = ss.EIG.mu
tol = ss.EIG.config.tol
recount = (int(np.count_nonzero(mu.real > tol)), int(np.count_nonzero(abs(mu.real) <= tol)), int(np.count_nonzero(mu.real < -tol)))
stored = (int(ss.EIG.n_positive), int(ss.EIG.n_zeros), int(ss.EIG.n_negative))
_, pf, _, _ = ss.EIG.calc_pfactor()
dpf = float(np.max(np.abs(pf - ss.EIG.pfactors)))
print("after the sweep: max real(mu) = %.3f; stored counts %s, recount of EIG.mu %s; max |pfactors - pfactors of EIG.As| = %.3g" % (
    mu.real.max(), stored, recount, dpf))
bad = stored != recount or dpf > 1e-9
print("PROPERTY VIOLATED: statistics / participation factors of another spectrum" if bad else "PROPERTY HOLDS")
sys.exit(1 if bad else 0)
