"""Demonstration (real code): an OFFLINE dynamic device (u = 0) that is linked to a static generator / load.
Property C05: static devices are replaced by their dynamic counterparts without changing the injected power, including
offline devices. Before the fix the offline dynamic device still switches its static device off at TDS.init, so the
injection that the power flow relied on disappears and initialisation fails."""
import sys
import andes
andes.config_logger(50)
bad = 0
for case, mdl, grp, link in (("ieee14/ieee14_regcp1.xlsx", "REGCP1", "StaticGen", "gen"), ("ieee14/ieee14_zip.json", "ZIP", "StaticLoad", "pq"),
                             ("ieee14/ieee14_fload.json", "FLoad", "StaticLoad", "pq")):
    try:
        ss = andes.load(andes.get_case(case), default_config=True, no_output=True)
    except Exception as e:
        print(case, "not available:", e)
        continue
    m = getattr(ss, mdl)
    m.alter("u", m.idx.v[0], 0)
    ss.PFlow.run()
    ss.TDS.config.no_tqdm = 1
    ss.TDS.init()
    st = ss.groups[grp].get("u", getattr(m, link).v[0], "v")
    print("%-28s offline %s -> linked %s device u=%g, init ok=%s" % (case, mdl, grp, st, ss.TDS.test_ok))
    # the static device must stay in service; for the load models (no further controllers attached) init must also pass
    if st != 1 or (grp == "StaticLoad" and not ss.TDS.test_ok):
        bad += 1
sys.exit(1 if bad else 0)
