"""Demonstration (real code): EIG statistics, participation factors and the zero-time-constant path
against an independent generalised eigenvalue computation (scipy.linalg.eig on the DAE pencil)."""
import sys
import numpy as np
import scipy.linalg as sla
import andes
from kvxopt import matrix

andes.config_logger(50)


def pencil_eigs(ss):
    d = ss.dae
    n, m = d.n, d.m
    A = np.block([[np.array(matrix(d.fx)), np.array(matrix(d.fy))], [np.array(matrix(d.gx)), np.array(matrix(d.gy))]])
    B = np.zeros((n + m, n + m))
    B[:n, :n] = np.diag(d.Tf)
    w = sla.eig(A, B, right=False)
    w = w[np.isfinite(w)]
    return np.sort_complex(w[np.abs(w) < 1e8])


def run(zero_T):
    ss = andes.load(andes.get_case("kundur/kundur_full.xlsx"), default_config=True, no_output=True)
    if zero_T:
        # make two washout/lag time constants zero: TGOV1 T1 (lag) of two governors
        for i in ss.TGOV1.idx.v[:2]:
            ss.TGOV1.alter("T1", i, 0.0)
    ss.PFlow.run()
    ss.EIG.run()
    E = ss.EIG
    ref = pencil_eigs(ss)
    mu = np.sort_complex(E.mu)
    print("zero_T=%s  n_states=%d  nz=%d" % (zero_T, len(E.mu), len(E.zstate_idx)))
    print("  counts: +%d 0:%d -%d  sum=%d (n=%d)" % (E.n_positive, E.n_zeros, E.n_negative,
                                                  E.n_positive + E.n_zeros + E.n_negative, len(E.mu)))
    print("  pfactor row sums min/max: %.4f %.4f" % (E.pfactors.sum(axis=1).min(), E.pfactors.sum(axis=1).max()))
    if len(mu) == len(ref):
        from scipy.optimize import linear_sum_assignment
        C = np.abs(mu[:, None] - ref[None, :])
        r, c = linear_sum_assignment(C)
        print("  max |mu - pencil reference| (optimal matching) = %.3e ; max Re(mu) = %.4g (ref %.4g)" % (
            C[r, c].max(), mu.real.max(), ref.real.max()))
    else:
        print("  #eigs %d vs reference %d; max Re(mu) = %.4g (ref %.4g)" % (len(mu), len(ref), mu.real.max(), ref.real.max()))


run(False)
run(True)
