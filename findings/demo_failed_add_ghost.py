"""C19: device indices are unique, for every sequence of additions (explicit, duplicate and missing indices).  A rejected System.add()
(duplicate value of a unique parameter, missing mandatory parameter) left a half-added ghost device in the model: the next automatic idx
duplicated it and lookups by that idx failed.  Exit 0 = property holds."""
import sys

import andes

andes.config_logger(50)
ss = andes.load(andes.get_case('ieee14/ieee14_full.xlsx'), setup=False, default_config=True, no_output=True)
bad = []
n0, g0 = ss.TGOV1.n, ss.TurbineGov.n
try:
    ss.add('TGOV1', syn='GENROU_1')          # GENROU_1 already has a governor: unique parameter `syn` rejects it
    bad.append("duplicate governor accepted")
except IndexError as e:
    print("rejected as expected:", e)
lens = {len(p.v) for p in ss.TGOV1.params.values() if hasattr(p.v, '__len__') and not type(p).__name__ == 'ExtParam'}
print("after the rejected add: TGOV1.n %d -> %d, TurbineGov.n %d -> %d, parameter lengths %s" % (n0, ss.TGOV1.n, g0, ss.TurbineGov.n, sorted(lens)))
if ss.TGOV1.n != n0 or lens != {n0}:
    bad.append("the rejected add left a half-added device in TGOV1")
ss.add('GENROU', idx='GENROU_9', bus=2, gen=2)
new = ss.add('TGOV1', syn='GENROU_9')
idxs = list(ss.TGOV1.idx.v)
print("next automatic idx:", new, "| TGOV1.idx.v =", idxs)
if len(set(idxs)) != len(idxs):
    bad.append("duplicate idx within TGOV1: %s" % idxs)
try:
    print("lookup TurbineGov.get('syn', %r) ->" % new, ss.TurbineGov.get('syn', new))
except Exception as e:      # noqa
    bad.append("lookup of the new device fails: %r" % e)
for b in bad:
    print("VIOLATED:", b)
print("PROPERTY HOLDS" if not bad else "PROPERTY VIOLATED")
sys.exit(1 if bad else 0)
