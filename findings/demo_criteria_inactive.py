"""C17: "stability criterion tripped" must end the run as a failure.  The criterion reads SynGen.delta_addr, which was filled only by
a connectivity check after a switching event (and only with TDS.config.check_conn = 1): with check_conn = 0 -- or before the first
event -- the criterion tested an empty array and an unstable run was reported as a success.  Exit 0 = property holds."""
import sys

import numpy as np

import andes

andes.config_logger(50)
ss = andes.load(andes.get_case('kundur/kundur_full.xlsx'), setup=False, default_config=True, no_output=True)
ss.add('Fault', dict(bus=7, tf=1.0, tc=2.0, xf=1e-4, rf=0))
ss.setup()
ss.PFlow.run()
ss.TDS.config.tf = 5
ss.TDS.config.check_conn = 0
ss.TDS.config.no_tqdm = 1
r = ss.TDS.run()
delta = ss.dae.x[ss.GENROU.delta.a]
spread = float(np.degrees(delta.max() - delta.min()))
print("criteria=%s check_conn=0: TDS.run -> %s at t=%.3f, rotor-angle spread %.0f deg, monitored angles: %d"
      % (ss.TDS.config.criteria, r, float(ss.dae.t), spread, len(ss.SynGen.delta_addr)))
bad = r and spread > 180
print("PROPERTY VIOLATED: unstable run (spread > 180 deg) reported as success" if bad else "PROPERTY HOLDS")
sys.exit(1 if bad else 0)
