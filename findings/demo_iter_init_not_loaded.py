"""C02 / C05: generated code that is never loaded.  The generator emits an iterative initialiser `<var>_ii` (+ its Jacobian `_ij`) for every
variable declared with `v_iter`; the loader (System._expand_pycode) only loads the ones of MULTI-variable blocks of the init sequence.
ESST1A declares three single-variable iterative initialisers (vref, vi, vas): they are generated, never loaded, and Model.init skips them
silently (`if name in self.calls.ii`) -- while the same model generated in-process (no pycode on disk) does run them."""
import sys

import andes

andes.config_logger(50)
ss = andes.System(default_config=True, no_output=True)
m = ss.ESST1A
declared = [n for n, v in m.cache.all_vars.items() if v.v_iter is not None]
import importlib
pycode = sys.modules.get("pycode")
generated = sorted(k[:-3] for k in vars(getattr(pycode, "ESST1A")).keys() if k.endswith("_ii")) if pycode is not None else []
loaded = sorted(m.calls.ii.keys())
print("declared with v_iter :", declared)
print("generated *_ii       :", generated)
print("loaded into calls.ii :", loaded)
sys.exit(0 if set(loaded) == set(generated) else 1)
