"""C15: "off-loading to disk in chunks changes which values are kept but never the values themselves", for single and resumed runs.
DAETimeSeries.txyz is unpacked lazily on its FIRST access only.  The first-write branch of DAE.write_npz reads it without unpacking:
in a resumed run the attribute already exists (unpacked at the end of the first segment), so the first off-load writes the rows of
the first segment again instead of the rows in memory, and the chunk in memory is then discarded."""
import os
import sys
import tempfile

import numpy as np

import andes

andes.config_logger(50)
d = tempfile.mkdtemp()
ss = andes.load(andes.get_case("kundur/kundur_full.xlsx"), default_config=True, output_path=d)
ss.PFlow.run()
c = ss.TDS.config
c.limit_store, c.max_store, c.save_mode, c.no_tqdm = 1, 25, "manual", 1
ss.config.save_stats = 1
c.tf = 0.5
ss.TDS.run()                 # 16 rows, no off-load yet
c.tf = 2.5
ss.TDS.run()                 # resumed: off-loads happen now
ss.TDS.save_output()
times = [s[0] for s in ss.TDS.call_stats if s[2]]
data = np.load(os.path.join(d, "kundur_full_out.npz"))["data"]
tfile = data[:, 0]
missing = [t for t in times if not np.any(np.isclose(tfile, t, atol=1e-12))]
print("accepted steps: %d, rows in the npz file: %d, time stamps missing from the file: %d" % (len(times), data.shape[0], len(missing)))
dup = data.shape[0] - len(np.unique(tfile))
print("duplicated rows in the file: %d" % dup)
sys.exit(1 if (missing or dup) else 0)
