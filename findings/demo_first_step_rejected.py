"""C04: a rejected step leaves the state AND the clock where they were.  The step that is attempted right after TDS.init() is the only
one for which the clock has not been advanced; when it is rejected, TDS.run nevertheless subtracts h from the clock: the simulation
continues from a negative time and stores negative time stamps.  Exit 0 = property holds."""
import sys

import numpy as np

import andes

andes.config_logger(50)
bad = False
for case, tstep, paux, tol in (("ieee14/ieee14_fault.xlsx", 1.0, 0.3, 1e-6), ("ieee14/ieee14_fault.xlsx", 1.0, 0.7, 1e-4), ("ieee14/ieee14_fault.xlsx", 1.0, 0.2, 1e-7)):
    ss = andes.load(andes.get_case(case), default_config=True, no_output=True)
    ss.PFlow.run()
    ss.TDS.config.tf = 3.0
    ss.TDS.config.tstep = tstep
    ss.TDS.config.tol = tol

    def pert(t, system, paux=paux):
        system.TGOV1.paux0.v[:] = paux        # a step change of the governor reference: the first step is a hard one
    ss.TDS.callpert = pert
    max_iter = ss.TDS.config.max_iter
    ss.TDS.config.no_tqdm = 1
    ss.TDS.config.save_stats = 1
    ss.config.save_stats = 1
    ok = ss.TDS.run()
    t = np.array(ss.dae.ts.t)
    rejected_first = len(ss.TDS.call_stats) > 0 and not ss.TDS.call_stats[0][2]
    print("%-28s tstep=%.1f paux0=%.1f: first attempt %s; run -> %s; first stamps %s; min stamp %.4f" % (
        case, tstep, paux, "REJECTED" if rejected_first else "accepted", ok, np.round(t[:3], 4).tolist(), t.min() if len(t) else float("nan")))
    if len(t) and t.min() < 0:
        bad = True
print("PROPERTY VIOLATED: time stamps below t0 after a rejected first step" if bad else "PROPERTY HOLDS (or first step never rejected)")
sys.exit(1 if bad else 0)
