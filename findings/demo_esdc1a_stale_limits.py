"""C05: the dynamic initialisation yields an equilibrium; an undisturbed simulation stays there.  ESDC1A removes the limit services VRU / VRL it
inherits from ESDC2A and creates new ones, but the regulator's anti-windup block had been built with the OLD objects, which are never
evaluated (0.0): the regulator was clamped to [0, 0]; the initialisation test passed (the residual of a pegged state is reset before the
test) and the undisturbed run drifted.  Stock case ieee14_esdc1a.xlsx.  Exit 0 = property holds."""
import sys

import numpy as np

import andes

andes.config_logger(50)
ss = andes.load(andes.get_case('ieee14/ieee14_esdc1a.xlsx'), setup=False, default_config=True, no_output=True)
for ev in ('Toggle', 'Fault', 'Alter'):
    if getattr(ss, ev).n:
        getattr(ss, ev).u.v = [0] * getattr(ss, ev).n          # undisturbed: the events of the case are switched off
ss.setup()
ss.PFlow.run()
ss.TDS.config.tf = 2.0
ss.TDS.config.no_tqdm = 1
ss.TDS.init()
same = ss.ESDC1A.LA.lim.upper is ss.ESDC1A.VRU and ss.ESDC1A.LA.lim.lower is ss.ESDC1A.VRL
x0 = ss.dae.x.copy()
ss.TDS.run()
drift = float(np.max(np.abs(ss.dae.x - x0)))
print("limiter bound to the model's VRU/VRL: %s; limits seen by the limiter: [%s, %s] (VRL, VRU = %s, %s)" % (
    same, np.ravel(ss.ESDC1A.LA.lim.lower.v)[:1], np.ravel(ss.ESDC1A.LA.lim.upper.v)[:1], ss.ESDC1A.VRL.v[:1], ss.ESDC1A.VRU.v[:1]))
print("initialisation test: %s; undisturbed run to 2 s: max drift of the states = %.3g" % (ss.TDS.test_ok, drift))
bad = (not same) or drift > 1e-6
print("PROPERTY VIOLATED: the system does not stay at the initialised point" if bad else "PROPERTY HOLDS")
sys.exit(1 if bad else 0)
