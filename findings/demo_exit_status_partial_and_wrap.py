"""C17: missing input => non-zero exit code; the process exit code is non-zero whenever a case failed.
 (a) `andes run good.xlsx missing.xlsx`: the exit code was only raised when NO file at all was found;
 (b) the accumulated error count was handed to sys.exit unbounded: 256 errors -> exit status 0 (taken modulo 256).
Exit 0 = property holds."""
import os
import shutil
import sys
import tempfile

import andes
from andes.main import run

andes.config_logger(50)
d = tempfile.mkdtemp()
shutil.copy(andes.get_case('5bus/pjm5bus.json'), os.path.join(d, 'good.json'))
a = run(['good.json', 'missing.json'], input_path=d, cli=True, no_output=True, default_config=True, verbose=50)
print("(a) one of two files missing: run(cli=True) ->", a)
ss = andes.load(os.path.join(d, 'good.json'), default_config=True, no_output=True)
import andes.main as m
orig = m.run_case
m.run_case = lambda *x, **k: type("S", (), {"exit_code": 256})()
try:
    b = run('good.json', input_path=d, cli=True, no_output=True, default_config=True, verbose=50)
finally:
    m.run_case = orig
print("(b) a case with 256 recorded errors: run(cli=True) -> %s (process status %d)" % (b, b % 256))
bad = a == 0 or b % 256 == 0
print("PROPERTY VIOLATED" if bad else "PROPERTY HOLDS")
sys.exit(1 if bad else 0)
