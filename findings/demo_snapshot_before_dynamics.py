"""C14: a snapshot taken at ANY point and loaded (possibly in another process) continues to the same result.  A system that had only
run the power flow (dynamic models present, not yet initialised) could not be loaded again: fix_view_arrays re-pointed the variables of
models that have no addresses yet -> IndexError.  The same function runs on every system returned by `andes.run(..., pool=True)`, so a
multi-case power-flow run over cases with dynamic data crashed.  Exit 0 = property holds."""
import io
import sys

import numpy as np

import andes
from andes.utils.snapshot import load_ss, save_ss

andes.config_logger(50)
bad = []
ref = andes.load(andes.get_case('kundur/kundur_full.xlsx'), default_config=True, no_output=True)
ref.PFlow.run()
ref.TDS.config.tf = 0.5
ref.TDS.config.no_tqdm = 1
ref.TDS.run()

ss = andes.load(andes.get_case('kundur/kundur_full.xlsx'), default_config=True, no_output=True)
ss.PFlow.run()
buf = io.BytesIO()
save_ss(buf, ss)
buf.seek(0)
try:
    s2 = load_ss(buf)
    s2.TDS.config.tf = 0.5
    s2.TDS.config.no_tqdm = 1
    ok = s2.TDS.run()
    d = float(np.max(np.abs(s2.dae.xy - ref.dae.xy)))
    print("snapshot after the power flow, loaded, simulated to 0.5 s: run -> %s, max |difference to the uninterrupted run| = %.3g" % (ok, d))
    if not ok or d > 1e-9:
        bad.append("continuation differs")
except Exception as e:      # noqa
    print("loading the snapshot failed: %r" % e)
    bad.append("snapshot taken before the dynamic initialisation cannot be loaded")
print("PROPERTY VIOLATED" if bad else "PROPERTY HOLDS")
sys.exit(1 if bad else 0)
