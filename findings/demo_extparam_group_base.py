"""C10 / C11: "values read through a model, through its group, or through the global vector are the same number".
An ExtParam that borrows a per-unit-flagged parameter THROUGH A GROUP (COI.M <- SynGen.M [power], REPCA1.r/x <- ACLine.r/x [z]) is
linked before the per-unit conversion and never converted: it keeps the device-base input value while the source holds the
system-base value.  COI then weights the machines by their device-base inertia."""
import sys

import numpy as np

import andes

andes.config_logger(50)
ss = andes.load(andes.get_case("kundur/kundur_coi.xlsx"), no_output=True, default_config=True, setup=False)
# give the machines different MVA bases (same physical inertia constants H on their own base)
for k, idx in enumerate(ss.GENROU.idx.v):
    ss.GENROU.alter("Sn", idx, 300.0 if k % 2 == 0 else 900.0)
ss.setup()
bad = 0
for k, coi in enumerate(ss.COI.idx.v):
    gens = ss.COI.syn.v[k] if hasattr(ss.COI, "syn") else None
borrowed = np.array(ss.COI.M.v, dtype=object)
print("COI.M (borrowed through group SynGen):", [np.round(np.array(x, dtype=float), 3).tolist() for x in ss.COI.M.v])
src = ss.SynGen.get("M", ss.GENROU.idx.v, "v")
print("SynGen.M (system base)               :", np.round(src, 3).tolist())
flat = np.concatenate([np.array(x, dtype=float).ravel() for x in ss.COI.M.v])
ok = np.allclose(np.sort(flat), np.sort(np.array(src, dtype=float)))
print("same numbers:", ok)
sys.exit(0 if ok else 1)
