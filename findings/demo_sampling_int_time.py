"""C09: Sampling keeps the time of the last sample in `np.array([0])` -- an INTEGER array -- so every stored sample time is truncated.
 (1) interval 0.9: sample at 1.7 (stored as 1); the call at 2.1 samples again (2.1 - 1 > 0.9) although only 0.4 s passed
 (2) interval 1.5: sample at 1.7; a further evaluation at the same time (Newton iteration) no longer follows the input
     (1.7 != stored 1), the output keeps the first iterate
 (3) after a rejected step the time of the last sample is overwritten by the retry time (no sample was taken there): the next
     sample is late."""
import sys

import numpy as np

from andes.core.common import DummyValue
from andes.core.discrete import Sampling


def feed(interval, calls):
    u = DummyValue(0)
    u.v = np.zeros(1)
    s = Sampling(u, interval=interval, offset=0.0)
    s.list2array(1)
    for t, val in calls:
        u.v[:] = val
        s.check_var(t)
    return float(s.v[0])


bad = 0
for tag, interval, calls, want in (
        ("truncation/advance", 0.9, ((0.0, 10.0), (1.7, 11.0), (2.1, 12.0)), 11.0),
        ("truncation/repeat", 1.5, ((0.0, 10.0), (1.7, 11.0), (1.7, 12.0)), 12.0),
        ("rewind", 1.5, ((0.0, 10.0), (0.4, 11.0), (1.4, 12.0), (3.1, 13.0), (2.25, 14.0)), 14.0)):
    got = feed(interval, calls)
    print("%-20s output %.1f, definition %.1f" % (tag, got, want))
    bad += got != want
sys.exit(1 if bad else 0)
