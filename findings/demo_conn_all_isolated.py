"""C12: "for every on/off pattern of lines": with every series device out of service each bus is isolated; the island search
(Goderya) skips isolated start buses with `starting_bus += 1; continue` and never tests the bound, so it indexes past the last bus."""
import sys

import andes

andes.config_logger(50)
ss = andes.load(andes.get_case("ieee14/ieee14.raw"), no_output=True, default_config=True)
ss.Line.u.v[:] = 0
try:
    ss.connectivity(info=False)
except Exception as e:
    print("connectivity() raised %s: %s" % (type(e).__name__, e))
    sys.exit(1)
print("isolated buses: %d of %d, islands: %d" % (len(ss.Bus.islanded_buses), ss.Bus.n, len(ss.Bus.island_sets)))
sys.exit(0 if (len(ss.Bus.islanded_buses) == ss.Bus.n and len(ss.Bus.island_sets) == 0) else 1)
