"""C13: a case written to json / xlsx and read back has the same input parameter values -- and one case in the two formats is one
system.  NumParam.add applied the data corrections (non_zero / non_positive / non_negative -> default) to floats only: an integer cell
(openpyxl returns int for `20`, json holds `20.0`) by-passed them, so the xlsx and json twins of a case differ.  Exit 0 = holds."""
import os
import sys
import tempfile

import andes

andes.config_logger(50)
ss = andes.load(andes.get_case('ieee14/ieee14_pvd1.xlsx'), default_config=True, no_output=True)
print("ACEc.bias read from xlsx (cell holds the integer 20, parameter is declared non_positive):", ss.ACEc.bias.vin)
d = tempfile.mkdtemp()
out = {}
for fmt in ('json', 'xlsx'):
    p = os.path.join(d, 'c.' + fmt)
    andes.io.dump(ss, fmt, full_path=p, overwrite=True)
    s2 = andes.load(p, default_config=True, no_output=True)
    out[fmt] = list(s2.ACEc.bias.vin)
    print("re-read from %-4s: ACEc.bias = %s" % (fmt, out[fmt]))
s3 = andes.load(andes.get_case('ieee14/ieee14_full.xlsx'), setup=False, default_config=True, no_output=True)
s3.add('Line', dict(bus1=1, bus2=2, x=0.1, Sn=0))         # int 0 for a non_zero parameter
s3.add('Line', dict(bus1=1, bus2=2, x=0.1, Sn=0.0))       # float 0.0
print("Line.Sn given as int 0 -> %s, as float 0.0 -> %s" % (s3.Line.Sn.v[-2], s3.Line.Sn.v[-1]))
bad = out['json'] != out['xlsx'] or out['json'] != list(ss.ACEc.bias.vin) or s3.Line.Sn.v[-2] != s3.Line.Sn.v[-1]
print("PROPERTY VIOLATED: the value depends on whether the number arrived as int or float" if bad else "PROPERTY HOLDS")
sys.exit(1 if bad else 0)
