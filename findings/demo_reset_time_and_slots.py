"""C14 / C10 / C11: System.reset() must bring the system back to "after set-up, before power flow".
 (1) DAE.reset() sets dae.t = 0 instead of the not-initialised sentinel -1: PQ's equations switch on `dae_t < 0`, so the power
     flow after a reset is solved with the time-domain load model (constant Ppf/Qpf, here still 0) -> a different solution.
 (2) DAE.reset() zeroes the counters n, m, o but not p, q (right-hand sides of external variables): every reset + dynamic
     initialisation leaks the old slots."""
import sys

import numpy as np

import andes

andes.config_logger(50)
case = andes.get_case("kundur/kundur_full.xlsx")
ref = andes.load(case, no_output=True, default_config=True)
ref.PFlow.run()
ss = andes.load(case, no_output=True, default_config=True)
ss.PFlow.run()
ss.reset()
print("dae.t after reset: %s (sentinel of a fresh system: %s)" % (ss.dae.t, andes.load(case, no_output=True, default_config=True).dae.t))
ss.PFlow.run()
bad = 0
dv = float(np.max(np.abs(ss.Bus.v.v - ref.Bus.v.v)))
print("power flow after reset: converged=%s, max |v - v_fresh| = %.3g" % (ss.PFlow.converged, dv))
bad += (not ss.PFlow.converged) or dv > 1e-8
# (2) counters across a reset (set-up allocates the external right-hand-side slots again)
s2 = andes.load(case, no_output=True, default_config=True)
q1 = (s2.dae.p, s2.dae.q, len(s2.dae.i))
s2.PFlow.run()
s2.reset()
q2 = (s2.dae.p, s2.dae.q, len(s2.dae.i))
print("external-RHS counters (p, q, len(i)): after set-up %s, after reset %s" % (q1, q2))
bad += q1 != q2
sys.exit(1 if bad else 0)
