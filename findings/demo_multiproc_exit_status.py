"""C17: `andes run <several files>` (worker processes, the CLI default) must exit non-zero when cases fail.
Two cases: kundur_full with an impossible load (power flow diverges) and a healthy ieee14.  Exit 0 of this demo = property holds."""
import os
import shutil
import sys
import tempfile

import andes
from andes.main import run

d = tempfile.mkdtemp()
try:
    shutil.copy(andes.get_case("ieee14/ieee14.json"), os.path.join(d, "a_good.json"))
    txt = open(andes.get_case("ieee14/ieee14.json")).read()
    import json
    j = json.loads(txt)
    for row in j["PQ"]:
        row["p0"] = 500.0          # 500 pu per load: no solution
    json.dump(j, open(os.path.join(d, "b_bad.json"), "w"))
    code = run("*.json", input_path=d, cli=True, ncpu=2, pool=False, no_output=True, verbose=50, default_config=True)
    print("exit code with one diverging case out of two:", code)
    ok = code != 0
    shutil.copy(os.path.join(d, "a_good.json"), os.path.join(d, "b_bad.json"))
    code2 = run("*.json", input_path=d, cli=True, ncpu=2, pool=False, no_output=True, verbose=50, default_config=True)
    print("exit code with two healthy cases:", code2)
    ok = ok and code2 == 0
finally:
    shutil.rmtree(d, ignore_errors=True)
print("PROPERTY HOLDS" if ok else "PROPERTY VIOLATED: failing cases, exit code 0")
sys.exit(0 if ok else 1)
