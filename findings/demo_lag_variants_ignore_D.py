"""C18: a control block realises its documented transfer function for all parameter values, and its declared initial values balance its
equations.  The lag variants take the constant `D` of K/(D + sT) like Lag does (LagRate and LagAWFreeze show it in their diagrams, LagFreeze
inherits Lag's parameter list) but do not use it in the differential equation:
  LagFreeze   drops the caller's D (passes D=1 to Lag);
  LagAWFreeze initialises y = K u / D and integrates T y' = K u - y   -> the initial value does not balance for D != 1;
  LagRate     stores D and never uses it.
Shown on the equation strings the real block classes produce (sympy: steady state of T y' = rhs for a constant input).  Exit 0 = holds."""
import sys

import sympy as sp

from andes.core.block import Lag, LagAWFreeze, LagFreeze, LagRate

u, y, K, D, T = sp.symbols('u y K D T', positive=True)
bad = []


def check(blk, name):
    blk.define()
    ns = {'u': u, 'K': K, 'D': D, 'T': T, 'fz': 0, 'B_y': y, 'lo': -100, 'up': 100, 'rl': -100, 'ru': 100}
    rhs = sp.sympify(blk.y.e_str, locals=ns)
    y_ss = sp.solve(sp.Eq(rhs, 0), y)[0]                      # steady-state gain of the implemented equation
    y0 = sp.sympify(blk.y.v_str, locals=ns)                   # declared initial value
    res0 = sp.simplify(rhs.subs(y, y0))                       # residual at the declared initial value
    ok = sp.simplify(y_ss - K * u / D) == 0 and res0 == 0
    print("%-12s rhs = %-28s steady state y = %-8s (documented K*u/D)  y0 = %-8s residual at y0 = %s%s" % (
        name, rhs, y_ss, y0, res0, "" if ok else "   <-- D ignored"))
    if not ok:
        bad.append(name)


check(Lag(u='u', T='T', K='K', D='D', name='B'), 'Lag')
check(LagFreeze(u='u', T='T', K='K', freeze='fz', D='D', name='B'), 'LagFreeze')
check(LagAWFreeze(u='u', T='T', K='K', lower='lo', upper='up', freeze='fz', D='D', name='B'), 'LagAWFreeze')
check(LagRate(u='u', T='T', K='K', rate_lower='rl', rate_upper='ru', D='D', name='B'), 'LagRate')
print("PROPERTY VIOLATED for %s" % bad if bad else "PROPERTY HOLDS")
sys.exit(1 if bad else 0)
