"""C17 / C01: a power flow whose residuals are NaN is reported as converged.
PFlow.nr_step reduces the two residual maxima with the builtin `max(abs(fmax), abs(gmax))`; power-flow systems have no differential
states, so fmax is the int 0 and `max(0, nan)` is 0 (nan compares False): the mismatch is 0 < tol -> converged = True, exit code 0,
all voltages NaN.  The isnan guard in nr_solve can never fire."""
import sys

import numpy as np

import andes

andes.config_logger(50)
ss = andes.load(andes.get_case("ieee14/ieee14.json"), no_output=True, default_config=True)
ss.Line.alter("tap", ss.Line.idx.v[0], 0.0)        # a zero tap ratio: division by zero in the branch admittance
ok = ss.PFlow.run()
nan = bool(np.isnan(ss.dae.y).any())
print("PFlow.run() returned %s, converged=%s, exit_code=%s, NaN in solution: %s" % (ok, ss.PFlow.converged, ss.exit_code, nan))
sys.exit(1 if (ss.PFlow.converged and nan) else 0)
