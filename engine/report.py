"""Verdict protocol, evidence writer, known-findings handling.

exit 0  property held on everything analysed (KNOWN-FINDING lines allowed)
exit 1  VIOLATION property=<id> replay=<path>
exit 2  ANALYSIS-ERROR (anchor vanished, instance count below frozen minimum,
        internal error) -- never a silent pass
"""
import json
import os
import sys
import time
import traceback

VERIF = os.path.dirname(os.path.dirname(os.path.abspath(__file__)))
REPO = os.environ.get("VERIF_REPO", "/repo")
EVID = os.environ.get("VERIF_EVIDENCE_DIR") or os.path.join(VERIF, "evidence")
REPLAY = os.path.join(EVID, "replay")
KNOWN = os.path.join(VERIF, "known_findings.json")


class AnalysisError(Exception):
    """An anchor the rule is keyed on vanished / cannot be analysed."""


class Ctx:
    """Collects rule results for one property run."""

    def __init__(self, pid, tier="quick", level="other"):
        self.pid = pid
        self.tier = tier
        self.level = level
        self.t0 = time.time()
        self.results = []       # dict(rule, construct, verdict, detail, where)
        self.counters = {}
        self.samples = []
        self.explanations = []
        self.assumptions = []
        self.extra = {}
        self.minima = {}        # rule -> frozen minimum number of instances
        self.nontrivial = set()
        self.anchors = []
        self.only = None        # replay filter: (rule, construct)

    # ---- recording -----------------------------------------------------
    def rule(self, rule, text, minimum=1):
        """Declare a rule with its description and frozen instance minimum."""
        self.explanations.append("%s: %s" % (rule, text))
        self.minima[rule] = minimum

    def _add(self, rule, construct, verdict, detail, where, nontrivial):
        if self.only and (rule, construct) != self.only:
            return
        self.results.append(dict(rule=rule, construct=construct, verdict=verdict,
                                 detail=detail, where=where))
        if nontrivial:
            self.nontrivial.add((rule, construct))

    def ok(self, rule, construct, detail="", where="", nontrivial=True):
        self._add(rule, construct, "ok", detail, where, nontrivial)

    def violation(self, rule, construct, detail, where=""):
        self._add(rule, construct, "violation", detail, where, True)

    def undecided(self, rule, construct, detail, where=""):
        self._add(rule, construct, "undecided", detail, where, False)

    def check(self, cond, rule, construct, detail_ok="", detail_bad="", where=""):
        if cond:
            self.ok(rule, construct, detail_ok, where)
        else:
            self.violation(rule, construct, detail_bad or detail_ok, where)
        return cond

    def anchor(self, name, where=""):
        self.anchors.append("%s @ %s" % (name, where) if where else name)

    def sample(self, obj):
        if len(self.samples) < 12:
            self.samples.append(obj)

    def count(self, key, n=1):
        self.counters[key] = self.counters.get(key, 0) + n

    def assume(self, text):
        if text not in self.assumptions:
            self.assumptions.append(text)


def where(path, node=None):
    """file:line string relative to the repo."""
    rel = os.path.relpath(path, REPO) if os.path.isabs(path) else path
    if node is None:
        return rel
    line = node if isinstance(node, int) else getattr(node, "lineno", 0)
    return "%s:%d" % (rel, line)


def load_known():
    if not os.path.exists(KNOWN):
        return {"open": [], "fixed": []}
    with open(KNOWN) as f:
        return json.load(f)


def finish(ctx):
    """Print report, write evidence, return exit code."""
    known = load_known()
    open_keys = {}
    for e in known.get("open", []):
        if e["property"] == ctx.pid:
            open_keys[(e["rule"], e["construct"])] = e

    by_rule = {}
    for r in ctx.results:
        by_rule.setdefault(r["rule"], []).append(r)

    # frozen minima: a rule that matches fewer instances than confirmed by hand
    # has lost sight of its anchors
    errors = []
    if not ctx.only:
        for rule, minimum in ctx.minima.items():
            n = len(by_rule.get(rule, []))
            if n < minimum:
                errors.append("rule %s matched %d instances, frozen minimum %d"
                              % (rule, n, minimum))

    viols, knowns, undec = [], [], []
    for r in ctx.results:
        if r["verdict"] == "violation":
            k = (r["rule"], r["construct"])
            if k in open_keys:
                knowns.append(r)
            else:
                viols.append(r)
        elif r["verdict"] == "undecided":
            undec.append(r)

    print("== %s tier=%s: %d rule instances over %d rules; %d undecided; %d anchors"
          % (ctx.pid, ctx.tier, len(ctx.results), len(by_rule), len(undec), len(ctx.anchors)))
    for rule in sorted(by_rule):
        rs = by_rule[rule]
        nv = sum(1 for r in rs if r["verdict"] == "violation")
        nu = sum(1 for r in rs if r["verdict"] == "undecided")
        print("   %-34s instances=%-4d violations=%d undecided=%d" % (rule, len(rs), nv, nu))
    for r in undec[:20]:
        print("UNDECIDED: property=%s %s/%s %s %s" % (ctx.pid, r["rule"], r["construct"],
                                                    r["where"], r["detail"][:160]))
    for r in knowns:
        print("KNOWN-FINDING: property=%s %s/%s %s -- %s" % (
            ctx.pid, r["rule"], r["construct"], r["where"], r["detail"][:300]))

    os.makedirs(REPLAY, exist_ok=True)
    for i, r in enumerate(viols):
        name = "%s_%s_%s.json" % (ctx.pid, r["rule"].replace("/", "_").replace(".", "_"),
                                  "".join(c if c.isalnum() else "_" for c in r["construct"])[:60])
        path = os.path.join(REPLAY, name)
        with open(path, "w") as f:
            json.dump(dict(property=ctx.pid, **r), f, indent=1)
        print("   rule=%s construct=%s at %s\n      %s" % (r["rule"], r["construct"], r["where"], r["detail"]))
        print("VIOLATION property=%s replay=%s" % (ctx.pid, path))

    wall = time.time() - ctx.t0
    cov = {
        "explanation": " || ".join(ctx.explanations) or "n/a",
        "evaluations": max(len(ctx.results), 1),
        "distinct_nontrivial": len(ctx.nontrivial),
        "rule": "one evaluation per (rule, construct) instance discovered in the current /repo tree; "
                "non-trivial = the verdict needed a real decision (path search, normal-form comparison, "
                "table comparison, abstract-state enumeration) as flagged by the rule itself",
        "samples": ctx.samples or [dict(rule=r["rule"], construct=r["construct"], where=r["where"],
                                        verdict=r["verdict"], detail=r["detail"][:200])
                                   for r in ctx.results[:8]],
        "rules": {k: len(v) for k, v in sorted(by_rule.items())},
        "undecided": [dict(rule=r["rule"], construct=r["construct"], detail=r["detail"][:200]) for r in undec],
        "known_findings": ["%s/%s" % (r["rule"], r["construct"]) for r in knowns],
        "anchors": ctx.anchors,
        "counters": ctx.counters,
    }
    cov.update(ctx.extra)
    ev = {
        "property_id": ctx.pid,
        "tier": ctx.tier,
        "seed": int(os.environ.get("VERIF_SEED", "0") or 0),
        "level": ctx.level,
        "coverage": cov,
        "assumptions": ctx.assumptions,
        "wall_s": round(wall, 3),
        "violations": len(viols),
    }
    if not ctx.only:
        os.makedirs(EVID, exist_ok=True)
        with open(os.path.join(EVID, ctx.pid + ".json"), "w") as f:
            json.dump(ev, f, indent=1, default=str)
            f.write("\n")

    if errors:
        for e in errors:
            print("ANALYSIS-ERROR: property=%s %s" % (ctx.pid, e))
    if viols:
        return 1        # a decided violation is reported as such even if another rule lost its anchors
    if errors:
        return 2
    print("OK property=%s (%d instances, %.1fs)" % (ctx.pid, len(ctx.results), wall))
    return 0


def main_wrapper(fn):
    """Run fn() -> exit code; map every unexpected exception to exit 2."""
    try:
        code = fn()
    except AnalysisError as e:
        print("ANALYSIS-ERROR: %s" % e)
        code = 2
    except SystemExit:
        raise
    except BaseException:
        traceback.print_exc()
        print("ANALYSIS-ERROR: internal error (see traceback)")
        code = 2
    sys.stdout.flush()
    sys.exit(code)
