"""Resolved normal form of function bodies: the names chosen for locals and the presence of alias locals are invisible.

Two normalisations are applied to every function when the repository is parsed (engine/pysrc.Repo):

1. COPY PROPAGATION OF ALIAS LOCALS.  A local bound exactly once, at the top level of the function body, to a pure attribute
   chain rooted at `self`, a parameter or another alias (`system = self.system`, `dae = system.dae`, `config = self.config`) is an
   alias.  Every read of it is replaced by the fully resolved chain (`dae.store()` -> `self.system.dae.store()`).  Not an alias:
   a name bound more than once / augmented / deleted / bound in a loop or branch, a chain whose root parameter is re-bound, or a
   chain that the function itself stores to (`h = self.h` ... `self.h = x`).
   Patterns and dotted names written in the rules use the alias names of the PINNED tree (`dae.store()`); they are resolved with the
   alias table of the same function recorded in baselines/alpha.json, so that a renamed, a newly introduced or an inlined alias
   all meet the pattern in the same resolved form.

2. RENAME-BACK OF THE REMAINING LOCALS.  Alpha conversion is behaviour preserving, so the function may be analysed under any
   consistent renaming of its locals.  The locals that exist now but not in the baseline are mapped, in order of first binding, to
   the baseline locals that no longer exist (only if their numbers agree and no capture can occur); a pure rename of locals thereby
   reproduces the pinned names, any other edit leaves the names as they are.

Neither step can hide a violation: both are semantics-preserving rewritings of the function under analysis; when a step's side
conditions fail it is simply not applied."""
import ast
import copy
import json
import os

HERE = os.path.dirname(os.path.dirname(os.path.abspath(__file__)))
BASELINE_FILE = os.path.join(HERE, "baselines", "alpha.json")
_baseline = None
OWNER = {}          # id(ast node) -> (relpath, qualname)
CUR_ALIASES = {}    # (relpath, qualname) -> alias table of the current tree


def baseline():
    global _baseline
    if _baseline is None:
        try:
            with open(BASELINE_FILE) as f:
                _baseline = json.load(f)
        except (OSError, ValueError):
            _baseline = {}
    return _baseline


SCOPES = (ast.FunctionDef, ast.AsyncFunctionDef, ast.Lambda, ast.ClassDef)


def _params(fn):
    a = fn.args
    out = [x.arg for x in a.posonlyargs + a.args + a.kwonlyargs]
    if a.vararg:
        out.append(a.vararg.arg)
    if a.kwarg:
        out.append(a.kwarg.arg)
    return out


def _ordered(node):
    """pre-order traversal in field order, not entering nested scopes"""
    for ch in ast.iter_child_nodes(node):
        if isinstance(ch, SCOPES):
            continue
        yield ch
        yield from _ordered(ch)


def chain_text(e):
    if isinstance(e, ast.Name):
        return e.id
    if isinstance(e, ast.Attribute):
        b = chain_text(e.value)
        return None if b is None else b + "." + e.attr
    return None


def chain_ast(text):
    parts = text.split(".")
    node = ast.Name(id=parts[0], ctx=ast.Load())
    for p in parts[1:]:
        node = ast.Attribute(value=node, attr=p, ctx=ast.Load())
    return node


def analyse(fn):
    """(ordered non-alias locals, alias table name -> resolved chain text)"""
    params = set(_params(fn))
    banned = set()
    stores = {}
    order = []
    attr_stores = []
    for n in _ordered(fn):
        if isinstance(n, (ast.Global, ast.Nonlocal)):
            banned.update(n.names)
        elif isinstance(n, (ast.Import, ast.ImportFrom)):
            for a in n.names:
                banned.add((a.asname or a.name).split(".")[0])
        elif isinstance(n, ast.ExceptHandler) and n.name:
            stores[n.name] = stores.get(n.name, 0) + 2
            if n.name not in order:
                order.append(n.name)
        elif isinstance(n, ast.Name) and isinstance(n.ctx, (ast.Store, ast.Del)):
            stores[n.id] = stores.get(n.id, 0) + 1
            if n.id not in order:
                order.append(n.id)
        elif isinstance(n, ast.Attribute) and isinstance(n.ctx, (ast.Store, ast.Del)):
            attr_stores.append(n)
        if isinstance(n, ast.AugAssign) and isinstance(n.target, ast.Name):
            stores[n.target.id] = stores.get(n.target.id, 0) + 1
    locs = [n for n in order if n not in params and n not in banned]
    # alias candidates: top-level single assignment `name = chain`
    aliases = {}
    for st in fn.body:
        if isinstance(st, ast.Assign) and len(st.targets) == 1 and isinstance(st.targets[0], ast.Name):
            nm = st.targets[0].id
            if nm not in locs or stores.get(nm, 0) != 1:
                continue
            ch = chain_text(st.value)
            if ch is None or ("." not in ch and ch not in aliases):
                continue
            root = ch.split(".")[0]
            if root in aliases:
                ch = aliases[root] + ch[len(root):]
                root = ch.split(".")[0]
            if root != "self" and root not in params:
                continue
            if root in stores:          # the root parameter is re-bound somewhere
                continue
            aliases[nm] = ch
    # a chain the function stores to (or a prefix of it) is not a stable alias
    if aliases and attr_stores:
        stored = set()
        for a in attr_stores:
            t = chain_text(a)
            if t:
                r = t.split(".")[0]
                if r in aliases:
                    t = aliases[r] + t[len(r):]
                stored.add(t)
        for nm in list(aliases):
            if any(aliases[nm] == s or aliases[nm].startswith(s + ".") for s in stored):
                del aliases[nm]
        # aliases built on a removed alias keep their resolved text (still a valid chain of self/params)
    return [n for n in locs if n not in aliases], aliases


class _Rename(ast.NodeTransformer):
    def __init__(self, mapping):
        self.m = mapping

    def visit_Name(self, n):
        if n.id in self.m:
            n.id = self.m[n.id]
        return n

    def visit_ExceptHandler(self, n):
        if n.name in self.m:
            n.name = self.m[n.name]
        self.generic_visit(n)
        return n

    def _scope(self, n):
        # a nested scope that binds the name itself shadows it
        bound = set()
        if not isinstance(n, ast.ClassDef):
            bound.update(_params(n))
        if not isinstance(n, ast.Lambda):
            for x in _ordered(n):
                if isinstance(x, ast.Name) and isinstance(x.ctx, ast.Store):
                    bound.add(x.id)
        inner = {k: v for k, v in self.m.items() if k not in bound}
        if inner:
            r = _Rename(inner)
            if isinstance(n, ast.Lambda):
                n.body = r.visit(n.body)
            else:
                n.body = [r.visit(s) for s in n.body]
        return n
    visit_FunctionDef = visit_AsyncFunctionDef = visit_Lambda = visit_ClassDef = _scope


class _Subst(ast.NodeTransformer):
    """replace reads of alias names by their chains"""

    def __init__(self, aliases):
        self.a = aliases

    def visit_Name(self, n):
        if isinstance(n.ctx, ast.Load) and n.id in self.a:
            new = chain_ast(self.a[n.id])
            return ast.copy_location(new, n)
        return n

    def _scope(self, n):
        bound = set()
        if not isinstance(n, ast.ClassDef):
            bound.update(_params(n))
        inner = {k: v for k, v in self.a.items() if k not in bound}
        if inner:
            r = _Subst(inner)
            if isinstance(n, ast.Lambda):
                n.body = r.visit(n.body)
            else:
                n.body = [r.visit(s) for s in n.body]
        return n
    visit_FunctionDef = visit_AsyncFunctionDef = visit_Lambda = visit_ClassDef = _scope


def _all_names(fn):
    return {n.id for n in ast.walk(fn) if isinstance(n, ast.Name)} | set(_params(fn))


class _Canon(ast.NodeTransformer):
    """canonical spelling of comparisons: `a > b` -> `b < a`, `a >= b` -> `b <= a` (single-operator comparisons only)"""

    def visit_Compare(self, n):
        self.generic_visit(n)
        if len(n.ops) == 1 and isinstance(n.ops[0], (ast.Gt, ast.GtE)):
            op = ast.Lt() if isinstance(n.ops[0], ast.Gt) else ast.LtE()
            return ast.copy_location(ast.Compare(left=n.comparators[0], ops=[op], comparators=[n.left]), n)
        return n


def canon(node):
    return _Canon().visit(node)


def normalise_function(fn, rel, qual):
    """in-place normalisation of one function; registers ownership of its nodes"""
    base = baseline().get(rel, {}).get(qual)
    locs, aliases = analyse(fn)
    # 2. rename-back (before substitution so that alias names are aligned too)
    if base:
        b_all = base["locals"] + list(base["aliases"])
        c_all = locs + list(aliases)
        new = [n for n in c_all if n not in b_all]
        gone = [n for n in b_all if n not in c_all]
        # aliases are aligned by their chain first
        mapping = {}
        inv = {}
        for k, v in base["aliases"].items():
            inv.setdefault(v, k)
        for nm in list(new):
            if nm in aliases and aliases[nm] in inv and inv[aliases[nm]] in gone:
                mapping[nm] = inv[aliases[nm]]
                gone.remove(inv[aliases[nm]])
                new.remove(nm)
        new_l = [n for n in new if n not in aliases]
        gone_l = [n for n in gone if n in base["locals"]]
        if new_l and len(new_l) == len(gone_l):
            mapping.update(dict(zip(new_l, gone_l)))
        used = _all_names(fn)
        mapping = {k: v for k, v in mapping.items() if v not in used or v in mapping}
        if mapping and len(set(mapping.values())) == len(mapping):
            r = _Rename(mapping)
            fn.body = [r.visit(s) for s in fn.body]
            locs, aliases = analyse(fn)
    # 1. copy propagation
    if aliases:
        s = _Subst(aliases)
        fn.body = [s.visit(st) for st in fn.body]
        ast.fix_missing_locations(fn)
    fn.body = [canon(st) for st in fn.body]
    ast.fix_missing_locations(fn)
    key = (rel, qual)
    CUR_ALIASES[key] = aliases
    for n in ast.walk(fn):
        OWNER[id(n)] = key
    return locs, aliases


def normalise_module(tree, rel):
    for n in tree.body:
        if isinstance(n, (ast.FunctionDef, ast.AsyncFunctionDef)):
            normalise_function(n, rel, n.name)
        elif isinstance(n, ast.ClassDef):
            for m in n.body:
                if isinstance(m, (ast.FunctionDef, ast.AsyncFunctionDef)):
                    normalise_function(m, rel, "%s.%s" % (n.name, m.name))


def pattern_aliases(node):
    """alias table under which a pattern applied to `node` is to be read (the pinned tree's names for that function)"""
    key = OWNER.get(id(node))
    if key is None:
        return None, {}
    base = baseline().get(key[0], {}).get(key[1])
    if base is not None:
        return key, base["aliases"]
    return key, CUR_ALIASES.get(key, {})


def resolve_pattern(p, aliases):
    """copy of pattern AST with alias names replaced by their chains"""
    if not aliases:
        return p
    names = {n.id for n in ast.walk(p) if isinstance(n, ast.Name)}
    if not (names & set(aliases)):
        return p
    q = copy.deepcopy(p)

    class R(ast.NodeTransformer):
        def visit_Name(self, n):
            if n.id in aliases and isinstance(n.ctx, ast.Load):
                return ast.copy_location(chain_ast(aliases[n.id]), n)
            return n
    if isinstance(q, ast.Name):
        return R().visit(q)
    return R().visit(q)


def resolve_dotted(name, node_or_key):
    """`dae.store` -> `self.system.dae.store` under the alias table of the owning function"""
    if isinstance(node_or_key, tuple):
        key = node_or_key
        base = baseline().get(key[0], {}).get(key[1])
        aliases = base["aliases"] if base is not None else CUR_ALIASES.get(key, {})
    else:
        key, aliases = pattern_aliases(node_or_key)
    root = name.split(".")[0]
    if root in aliases:
        return aliases[root] + name[len(root):]
    return name


def make_baseline(repo_root):
    """{rel: {qual: {locals: [...], aliases: {...}}}} of the tree under repo_root (un-normalised analysis)"""
    out = {}
    pkg = os.path.join(repo_root, "andes")
    for dp, dn, fns in os.walk(pkg):
        dn[:] = [d for d in dn if d != "__pycache__"]
        for f in sorted(fns):
            if not f.endswith(".py"):
                continue
            p = os.path.join(dp, f)
            rel = os.path.relpath(p, repo_root)
            tree = ast.parse(open(p, encoding="utf-8").read())
            ent = {}

            def add(fn, qual):
                locs, al = analyse(fn)
                if locs or al:
                    ent[qual] = dict(locals=locs, aliases=al)
            for n in tree.body:
                if isinstance(n, (ast.FunctionDef, ast.AsyncFunctionDef)):
                    add(n, n.name)
                elif isinstance(n, ast.ClassDef):
                    for m in n.body:
                        if isinstance(m, (ast.FunctionDef, ast.AsyncFunctionDef)):
                            add(m, "%s.%s" % (n.name, m.name))
            if ent:
                out[rel] = ent
    return out


if __name__ == "__main__":
    import sys
    root = sys.argv[1] if len(sys.argv) > 1 else "/repo"
    b = make_baseline(root)
    with open(BASELINE_FILE, "w") as f:
        json.dump(b, f, indent=0, sort_keys=True)
    print("baseline: %d files, %d functions, %d aliases" % (len(b), sum(len(v) for v in b.values()),
                                                           sum(len(x["aliases"]) for v in b.values() for x in v.values())))
