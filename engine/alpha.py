"""Resolved normal form of function bodies: the names chosen for locals and the presence of alias locals are invisible.

Two normalisations are applied to every function when the repository is parsed (engine/pysrc.Repo):

1. COPY PROPAGATION OF ALIAS LOCALS.  A local bound exactly once, at the top level of the function body, to a pure attribute
   chain rooted at `self`, a parameter or another alias (`system = self.system`, `dae = system.dae`, `config = self.config`) is an
   alias.  Every read of it is replaced by the fully resolved chain (`dae.store()` -> `self.system.dae.store()`).  Not an alias:
   a name bound more than once / augmented / deleted / bound in a loop or branch, a chain whose root parameter is re-bound, or a
   chain that the function itself stores to (`h = self.h` ... `self.h = x`).
   Patterns and dotted names written in the rules use the alias names of the PINNED tree (`dae.store()`); they are resolved with the
   alias table of the same function recorded in baselines/alpha.json, so that a renamed, a newly introduced or an inlined alias
   all meet the pattern in the same resolved form.

2. RENAME-BACK OF THE REMAINING LOCALS.  Alpha conversion is behaviour preserving, so the function may be analysed under any
   consistent renaming of its locals.  The locals that exist now but not in the baseline are mapped, in order of first binding, to
   the baseline locals that no longer exist (only if their numbers agree and no capture can occur); a pure rename of locals thereby
   reproduces the pinned names, any other edit leaves the names as they are.

Neither step can hide a violation: both are semantics-preserving rewritings of the function under analysis; when a step's side
conditions fail it is simply not applied."""
import ast
import copy
import json
import os

HERE = os.path.dirname(os.path.dirname(os.path.abspath(__file__)))
BASELINE_FILE = os.path.join(HERE, "baselines", "alpha.json")
_baseline = None
OWNER = {}          # id(ast node) -> (relpath, qualname)
CUR_ALIASES = {}    # (relpath, qualname) -> alias table of the current tree


def baseline():
    global _baseline
    if _baseline is None:
        try:
            with open(BASELINE_FILE) as f:
                _baseline = json.load(f)
        except (OSError, ValueError):
            _baseline = {}
    return _baseline


SCOPES = (ast.FunctionDef, ast.AsyncFunctionDef, ast.Lambda, ast.ClassDef)


def _params(fn):
    a = fn.args
    out = [x.arg for x in a.posonlyargs + a.args + a.kwonlyargs]
    if a.vararg:
        out.append(a.vararg.arg)
    if a.kwarg:
        out.append(a.kwarg.arg)
    return out


def _ordered(node):
    """pre-order traversal in field order, not entering nested scopes"""
    for ch in ast.iter_child_nodes(node):
        if isinstance(ch, SCOPES):
            continue
        yield ch
        yield from _ordered(ch)


def chain_text(e):
    if isinstance(e, ast.Name):
        return e.id
    if isinstance(e, ast.Attribute):
        b = chain_text(e.value)
        return None if b is None else b + "." + e.attr
    return None


def chain_ast(text):
    parts = text.split(".")
    node = ast.Name(id=parts[0], ctx=ast.Load())
    for p in parts[1:]:
        node = ast.Attribute(value=node, attr=p, ctx=ast.Load())
    return node


def analyse(fn):
    """(ordered non-alias locals, alias table name -> resolved chain text)"""
    params = set(_params(fn))
    banned = set()
    stores = {}
    order = []
    attr_stores = []
    for n in _ordered(fn):
        if isinstance(n, (ast.Global, ast.Nonlocal)):
            banned.update(n.names)
        elif isinstance(n, (ast.Import, ast.ImportFrom)):
            for a in n.names:
                banned.add((a.asname or a.name).split(".")[0])
        elif isinstance(n, ast.ExceptHandler) and n.name:
            stores[n.name] = stores.get(n.name, 0) + 2
            if n.name not in order:
                order.append(n.name)
        elif isinstance(n, ast.Name) and isinstance(n.ctx, (ast.Store, ast.Del)):
            stores[n.id] = stores.get(n.id, 0) + 1
            if n.id not in order:
                order.append(n.id)
        elif isinstance(n, ast.Attribute) and isinstance(n.ctx, (ast.Store, ast.Del)):
            attr_stores.append(n)
        if isinstance(n, ast.AugAssign) and isinstance(n.target, ast.Name):
            stores[n.target.id] = stores.get(n.target.id, 0) + 1
    locs = [n for n in order if n not in params and n not in banned]
    # alias candidates: single assignment `name = chain`, at the top level or in a nested block; every read of the name lies in the
    # statements that follow the assignment in the same block (its region), and the region does not store to the chain or a prefix
    def blocks(node):
        for name in ("body", "orelse", "finalbody"):
            b = getattr(node, name, None)
            if isinstance(b, list) and b and isinstance(b[0], ast.stmt):
                yield b
                for st in b:
                    if not isinstance(st, SCOPES):
                        yield from blocks(st)
        for h in getattr(node, "handlers", []) or []:
            yield from blocks(h)
    aliases = {}
    all_loads = {}
    for x in _ordered(fn):
        if isinstance(x, ast.Name) and isinstance(x.ctx, ast.Load):
            all_loads.setdefault(x.id, []).append(x)
    for block in blocks(fn):
        for i, st in enumerate(block):
            if not (isinstance(st, ast.Assign) and len(st.targets) == 1 and isinstance(st.targets[0], ast.Name)):
                continue
            nm = st.targets[0].id
            if nm not in locs or stores.get(nm, 0) != 1 or nm in aliases:
                continue
            ch = chain_text(st.value)
            if ch is None or ("." not in ch and ch not in aliases):
                continue
            root = ch.split(".")[0]
            if root in aliases:
                ch = aliases[root] + ch[len(root):]
                root = ch.split(".")[0]
            if root != "self" and root not in params:
                continue
            if root in stores:          # the root parameter is re-bound somewhere
                continue
            region = block[i + 1:]
            in_region = {id(x) for r_ in region for x in _ordered(r_)} | {id(x) for r_ in region for x in ast.walk(r_)}
            if block is not fn.body and not all(id(x) in in_region for x in all_loads.get(nm, [])):
                continue
            # stores to the chain (or a prefix) inside the region
            bad = False
            for r_ in region:
                for x in ast.walk(r_):
                    if isinstance(x, ast.Attribute) and isinstance(x.ctx, (ast.Store, ast.Del)):
                        t = chain_text(x)
                        if t:
                            r0 = t.split(".")[0]
                            if r0 in aliases:
                                t = aliases[r0] + t[len(r0):]
                            elif r0 == nm:
                                t = ch + t[len(r0):]
                            if ch == t or ch.startswith(t + "."):
                                bad = True
            if bad:
                continue
            aliases[nm] = ch
    return [n for n in locs if n not in aliases], aliases


class _Rename(ast.NodeTransformer):
    def __init__(self, mapping):
        self.m = mapping

    def visit_Name(self, n):
        if n.id in self.m:
            n.id = self.m[n.id]
        return n

    def visit_ExceptHandler(self, n):
        if n.name in self.m:
            n.name = self.m[n.name]
        self.generic_visit(n)
        return n

    def _scope(self, n):
        # a nested scope that binds the name itself shadows it
        bound = set()
        if not isinstance(n, ast.ClassDef):
            bound.update(_params(n))
        if not isinstance(n, ast.Lambda):
            for x in _ordered(n):
                if isinstance(x, ast.Name) and isinstance(x.ctx, ast.Store):
                    bound.add(x.id)
        inner = {k: v for k, v in self.m.items() if k not in bound}
        if inner:
            r = _Rename(inner)
            if isinstance(n, ast.Lambda):
                n.body = r.visit(n.body)
            else:
                n.body = [r.visit(s) for s in n.body]
        return n
    visit_FunctionDef = visit_AsyncFunctionDef = visit_Lambda = visit_ClassDef = _scope


class _Subst(ast.NodeTransformer):
    """replace reads of alias names by their chains"""

    def __init__(self, aliases):
        self.a = aliases

    def visit_Name(self, n):
        if isinstance(n.ctx, ast.Load) and n.id in self.a:
            new = chain_ast(self.a[n.id])
            return ast.copy_location(new, n)
        return n

    def _scope(self, n):
        bound = set()
        if not isinstance(n, ast.ClassDef):
            bound.update(_params(n))
        inner = {k: v for k, v in self.a.items() if k not in bound}
        if inner:
            r = _Subst(inner)
            if isinstance(n, ast.Lambda):
                n.body = r.visit(n.body)
            else:
                n.body = [r.visit(s) for s in n.body]
        return n
    visit_FunctionDef = visit_AsyncFunctionDef = visit_Lambda = visit_ClassDef = _scope


def _all_names(fn):
    return {n.id for n in ast.walk(fn) if isinstance(n, ast.Name)} | set(_params(fn))


class _Canon(ast.NodeTransformer):
    """canonical spelling of comparisons: `a > b` -> `b < a`, `a >= b` -> `b <= a` (single-operator comparisons only)"""

    def visit_Compare(self, n):
        self.generic_visit(n)
        if len(n.ops) == 1 and isinstance(n.ops[0], (ast.Gt, ast.GtE)):
            op = ast.Lt() if isinstance(n.ops[0], ast.Gt) else ast.LtE()
            return ast.copy_location(ast.Compare(left=n.comparators[0], ops=[op], comparators=[n.left]), n)
        return n


def canon(node):
    return _Canon().visit(node)


PURE_CALLS = {"len", "abs", "min", "max", "float", "int", "bool", "str", "tuple", "list", "np.abs", "np.equal", "np.array", "np.asarray",
              "np.ravel", "np.shape", "np.any", "np.all", "np.nonzero", "np.flatnonzero", "np.where", "np.arange", "np.sum", "isinstance",
              "np.logical_and", "np.logical_or", "np.logical_not", "np.isnan", "np.max", "np.argmax", "sorted", "round"}


MODULE_PURE = {}        # relpath -> names of module-level functions inferred pure
_cur_rel = [None]
STR_METHODS = {"replace", "format", "join", "strip", "lstrip", "rstrip", "split", "startswith", "endswith", "lower", "upper", "get", "items",
               "keys", "values", "tolist", "copy", "astype", "ravel", "reshape", "index", "count"}


def _pure_function(fn):
    """a module-level function is pure if it only binds its own locals, and calls nothing but pure builtins / str methods"""
    params = set(_params(fn))
    for x in ast.walk(fn):
        if isinstance(x, (ast.Global, ast.Nonlocal, ast.Yield, ast.YieldFrom, ast.Raise, ast.With, ast.Try, ast.Delete)):
            return False
        if isinstance(x, (ast.Attribute, ast.Subscript)) and isinstance(x.ctx, (ast.Store, ast.Del)):
            return False
        if isinstance(x, ast.Call):
            f = chain_text(x.func)
            if f in PURE_CALLS:
                continue
            if isinstance(x.func, ast.Attribute) and x.func.attr in STR_METHODS:
                continue
            return False
    return True


def _pure(e):
    """side-effect free expression built from names, attributes, subscripts, constants, operators and a few pure calls"""
    for x in ast.walk(e):
        if isinstance(x, ast.Call):
            f = chain_text(x.func)
            if f not in PURE_CALLS and f not in MODULE_PURE.get(_cur_rel[0], ()):
                return False
        elif isinstance(x, (ast.Lambda, ast.Yield, ast.YieldFrom, ast.Await, ast.NamedExpr, ast.Starred, ast.ListComp, ast.SetComp,
                            ast.DictComp, ast.GeneratorExp)):
            return False
    return True


def _reads(e):
    """names and maximal attribute chains read by expression e (`self.a.b[self.k]` reads `self.a.b` and `self.k`, not `self`)"""
    out = set()

    def rec(x):
        if isinstance(x, ast.Attribute):
            t = chain_text(x)
            if t:
                out.add(t)
                return
        if isinstance(x, ast.Name):
            out.add(x.id)
            return
        for c in ast.iter_child_nodes(x):
            rec(c)
    rec(e)
    return out


def _written(fn):
    """names and attribute chains stored anywhere in fn (subscript stores count as writes to their base)"""
    out = set()
    for x in _ordered(fn):
        tg = []
        if isinstance(x, ast.Assign):
            tg = x.targets
        elif isinstance(x, (ast.AugAssign, ast.AnnAssign)):
            tg = [x.target]
        elif isinstance(x, (ast.For, ast.comprehension)):
            tg = [x.target]
        elif isinstance(x, ast.Delete):
            tg = x.targets
        def add_target(t):
            # the maximal chain that is stored to (`self.h = ..` writes `self.h`, not `self`; `a.b[i] = ..` writes `a.b`)
            if isinstance(t, (ast.Tuple, ast.List)):
                for e_ in t.elts:
                    add_target(e_)
            elif isinstance(t, ast.Starred):
                add_target(t.value)
            elif isinstance(t, ast.Subscript):
                add_target(t.value)
            elif isinstance(t, (ast.Name, ast.Attribute)):
                c = chain_text(t)
                if c:
                    out.add(c)
                else:
                    for y in ast.walk(t):
                        if isinstance(y, ast.Name):
                            out.add(y.id)
        for t in tg:
            add_target(t)
        if isinstance(x, ast.Call) and isinstance(x.func, ast.Attribute) and x.func.attr in (
                "append", "extend", "update", "pop", "clear", "insert", "remove", "sort", "fill", "put", "ipadd", "ipset"):
            c = chain_text(x.func.value)
            if c:
                out.add(c)
    return out


class _SubstExpr(ast.NodeTransformer):
    def __init__(self, name, expr):
        self.name, self.expr = name, expr
        self.n = 0

    def visit_Name(self, n):
        if isinstance(n.ctx, ast.Load) and n.id == self.name:
            self.n += 1
            return ast.copy_location(copy.deepcopy(self.expr), n)
        return n

    def _scope(self, n):
        return n
    visit_FunctionDef = visit_AsyncFunctionDef = visit_Lambda = visit_ClassDef = _scope


def propagate_new_locals(fn, known, max_remove=0, last_first=False):
    """copy propagation of locals that the pinned tree does not have (`known` = its locals and aliases): a local bound exactly once,
    by a plain assignment in some statement list, to a pure expression whose operands the function never writes, and read only in
    the statements that follow it in the same list, is replaced by that expression at every read.  Returns the number removed."""
    removed = 0
    for _round in range(8):
        if max_remove and removed >= max_remove:
            break
        stores = {}
        for x in _ordered(fn):
            if isinstance(x, ast.Name) and isinstance(x.ctx, (ast.Store, ast.Del)):
                stores[x.id] = stores.get(x.id, 0) + 1
            if isinstance(x, ast.AugAssign) and isinstance(x.target, ast.Name):
                stores[x.target.id] = stores.get(x.target.id, 0) + 1
        written = _written(fn)
        params = set(_params(fn))
        done = False

        def blocks(node):
            for name in ("body", "orelse", "finalbody"):
                b = getattr(node, name, None)
                if isinstance(b, list) and b and isinstance(b[0], ast.stmt):
                    yield b
            for h in getattr(node, "handlers", []) or []:
                yield h.body
        stack = [fn]
        cands = []
        while stack:
            node = stack.pop()
            for b in blocks(node):
                for k, st in enumerate(b):
                    if not isinstance(st, SCOPES):
                        stack.append(st)
                    if not (isinstance(st, ast.Assign) and len(st.targets) == 1 and isinstance(st.targets[0], ast.Name)):
                        continue
                    v = st.targets[0].id
                    if v in known or v in params or stores.get(v, 0) != 1 or v.startswith("__"):
                        continue
                    if isinstance(st.value, (ast.Constant,)) and not isinstance(st.value.value, (int, float, str, bool, type(None))):
                        continue
                    if not _pure(st.value):
                        continue
                    rd = _reads(st.value)
                    # operands must not be written between the definition and the uses (all uses follow in this block)
                    after = ast.Module(body=b[k + 1:], type_ignores=[])
                    written = _written(after)
                    if v in written or any(w.startswith(v + ".") for w in written):
                        continue        # the local itself is mutated (append, item store ...): not a value
                    if isinstance(st.value, (ast.List, ast.Dict, ast.Set)) and not st.value.__dict__.get("elts", st.value.__dict__.get("keys")):
                        continue        # empty container literal: an accumulator, identity matters
                    if v in rd or any(r == w or r.startswith(w + ".") or w.startswith(r + ".") for r in rd for w in written if w != v):
                        continue
                    # every read of v lies in the statements after st in this block
                    total = sum(1 for x in ast.walk(fn) if isinstance(x, ast.Name) and x.id == v and isinstance(x.ctx, ast.Load))
                    inside = sum(1 for s2 in b[k + 1:] for x in ast.walk(s2) if isinstance(x, ast.Name) and x.id == v and isinstance(x.ctx, ast.Load))
                    if total == 0 or total != inside:
                        continue
                    # not captured by a nested scope
                    if any(isinstance(y, SCOPES) and any(isinstance(z, ast.Name) and z.id == v for z in ast.walk(y)) for s2 in b[k + 1:] for y in ast.walk(s2)):
                        continue
                    cands.append((getattr(st, "lineno", 0), b, st, v))
        if cands:
            cands.sort(key=lambda c: c[0], reverse=last_first)
            _ln, b, st, v = cands[0]
            k = next(i for i, x in enumerate(b) if x is st)
            sub = _SubstExpr(v, st.value)
            b[k + 1:] = [sub.visit(s2) for s2 in b[k + 1:]]
            del b[k]
            removed += 1
            done = True
        if not done:
            break
    if removed:
        ast.fix_missing_locations(fn)
    return removed


def split_tuple_assigns(fn):
    """`a, b = x, y` -> `a = x; b = y` when no target occurs in a value and the values are side-effect free (names, chains, constants):
    parallel and sequential assignment then coincide"""
    def simple(e):
        return isinstance(e, ast.Constant) or chain_text(e) is not None

    def visit(block):
        i = 0
        while i < len(block):
            st = block[i]
            if isinstance(st, ast.Assign) and len(st.targets) == 1 and isinstance(st.targets[0], ast.Tuple) and isinstance(st.value, ast.Tuple) \
                    and len(st.targets[0].elts) == len(st.value.elts) and all(isinstance(t, ast.Name) for t in st.targets[0].elts) \
                    and all(simple(v) for v in st.value.elts):
                tn = {t.id for t in st.targets[0].elts}
                used = {x.id for v in st.value.elts for x in ast.walk(v) if isinstance(x, ast.Name)}
                if not (tn & used) and len(tn) == len(st.targets[0].elts):
                    new = [ast.copy_location(ast.Assign(targets=[t], value=v), st) for t, v in zip(st.targets[0].elts, st.value.elts)]
                    block[i:i + 1] = new
                    i += len(new)
                    continue
            for name in ("body", "orelse", "finalbody"):
                b = getattr(st, name, None)
                if isinstance(b, list) and b and isinstance(b[0], ast.stmt) and not isinstance(st, SCOPES):
                    visit(b)
            for h in getattr(st, "handlers", []) or []:
                visit(h.body)
            i += 1
    visit(fn.body)


def normalise_function(fn, rel, qual):
    """in-place normalisation of one function; registers ownership of its nodes"""
    split_tuple_assigns(fn)
    base = baseline().get(rel, {}).get(qual)
    locs, aliases = analyse(fn)
    fbase0 = baseline().get(rel, {})
    if "__functions__" in fbase0 and (qual in fbase0["__functions__"]):
        # locals the pinned tree does not have: if there are MORE new non-alias locals than vanished ones, some of them are
        # additions (not renames); pure ones are propagated (last defined first) until the counts allow a one-to-one rename-back
        known0 = set((base or {}).get("locals", [])) | set((base or {}).get("aliases", {}))
        for _k in range(12):
            new_l0 = [n for n in locs if n not in known0]
            gone_l0 = [n for n in (base or {}).get("locals", []) if n not in locs and n not in aliases]
            if len(new_l0) <= len(gone_l0):
                break
            if not propagate_new_locals(fn, known0 | set(aliases), max_remove=1, last_first=True):
                break
            locs, aliases = analyse(fn)
    # 2. rename-back (before substitution so that alias names are aligned too)
    if base:
        b_all = base["locals"] + list(base["aliases"])
        c_all = locs + list(aliases)
        new = [n for n in c_all if n not in b_all]
        gone = [n for n in b_all if n not in c_all]
        # aliases are aligned by their chain first
        mapping = {}
        inv = {}
        for k, v in base["aliases"].items():
            inv.setdefault(v, k)
        for nm in list(new):
            if nm in aliases and aliases[nm] in inv and inv[aliases[nm]] in gone:
                mapping[nm] = inv[aliases[nm]]
                gone.remove(inv[aliases[nm]])
                new.remove(nm)
        new_l = [n for n in new if n not in aliases]
        gone_l = [n for n in gone if n in base["locals"]]
        if new_l and len(new_l) == len(gone_l):
            mapping.update(dict(zip(new_l, gone_l)))
        used = _all_names(fn)
        mapping = {k: v for k, v in mapping.items() if v not in used or v in mapping}
        if mapping and len(set(mapping.values())) == len(mapping):
            r = _Rename(mapping)
            fn.body = [r.visit(s) for s in fn.body]
            locs, aliases = analyse(fn)
    # 1b. copy propagation of pure locals the pinned tree does not have
    fbase = baseline().get(rel, {})
    if "__functions__" in fbase and (qual in fbase["__functions__"]):
        known = set((base or {}).get("locals", [])) | set((base or {}).get("aliases", {}))
        if propagate_new_locals(fn, known):
            locs, aliases = analyse(fn)
    # 1. copy propagation
    if aliases:
        s = _Subst(aliases)
        fn.body = [s.visit(st) for st in fn.body]
        ast.fix_missing_locations(fn)
    partial_alias_subst(fn)
    fn.body = [canon(st) for st in fn.body]
    ast.fix_missing_locations(fn)
    key = (rel, qual)
    CUR_ALIASES[key] = aliases
    for n in ast.walk(fn):
        OWNER[id(n)] = key
    return locs, aliases


def partial_alias_subst(fn):
    """aliases that analyse() rejects because their region also STORES to the chain (`gy = self.dae.gy` ... `self.dae.gy += M`): the
    reads that are evaluated before the first such store still see the aliased object, so they are replaced by the chain -- statement
    by statement in program order, each branch of an `if` on its own, nothing inside loops/try that contain a store, nothing after."""
    params = set(_params(fn))
    stores = {}
    for x in _ordered(fn):
        if isinstance(x, ast.Name) and isinstance(x.ctx, (ast.Store, ast.Del)):
            stores[x.id] = stores.get(x.id, 0) + 1

    def has_store(node, ch):
        for x in ast.walk(node):
            if isinstance(x, ast.Attribute) and isinstance(x.ctx, (ast.Store, ast.Del)):
                t = chain_text(x)
                if t and (ch == t or ch.startswith(t + ".")):
                    return True
        return False

    def subst(node, nm, ch):
        return _Subst({nm: ch}).visit(node)

    def until_store(stmts, nm, ch):
        for i, st in enumerate(stmts):
            if isinstance(st, SCOPES):
                continue
            if not has_store(st, ch):
                stmts[i] = subst(st, nm, ch)
                continue
            if isinstance(st, ast.If):
                st.test = subst(st.test, nm, ch)
                until_store(st.body, nm, ch)
                until_store(st.orelse, nm, ch)
            elif isinstance(st, (ast.Assign, ast.AugAssign)) and not has_store(st.value, ch):
                st.value = subst(st.value, nm, ch)      # the right-hand side is evaluated before the store
            return True
        return False

    def blocks(node):
        for name in ("body", "orelse", "finalbody"):
            b = getattr(node, name, None)
            if isinstance(b, list) and b and isinstance(b[0], ast.stmt):
                yield b
                for st in b:
                    if not isinstance(st, SCOPES):
                        yield from blocks(st)
        for h in getattr(node, "handlers", []) or []:
            yield from blocks(h)
    n = 0
    for block in list(blocks(fn)):
        for i, st in enumerate(block):
            if not (isinstance(st, ast.Assign) and len(st.targets) == 1 and isinstance(st.targets[0], ast.Name)):
                continue
            nm = st.targets[0].id
            if nm in params or stores.get(nm, 0) != 1:
                continue
            ch = chain_text(st.value)
            if ch is None or "." not in ch:
                continue
            root = ch.split(".")[0]
            if (root != "self" and root not in params) or root in stores:
                continue
            region = block[i + 1:]
            if not any(has_store(r_, ch) for r_ in region):
                continue        # a full alias (handled by analyse) or not an alias at all
            loads = [x for x in _ordered(fn) if isinstance(x, ast.Name) and x.id == nm and isinstance(x.ctx, ast.Load)]
            inreg = {id(x) for r_ in region for x in ast.walk(r_)}
            if block is not fn.body and not all(id(x) in inreg for x in loads):
                continue
            until_store(region, nm, ch)
            block[i + 1:] = region
            n += 1
    if n:
        ast.fix_missing_locations(fn)
    return n


class _GiveUp(Exception):
    pass


def _has_return(node):
    return any(isinstance(x, ast.Return) for x in ast.walk(node) if not isinstance(x, SCOPES) or x is node)


def _always_returns(stmts):
    for st in stmts:
        if isinstance(st, ast.Return):
            return True
        if isinstance(st, ast.If) and _always_returns(st.body) and _always_returns(st.orelse):
            return True
    return False


def _single_exit(stmts, retvar, cont=None):
    """statement list with `return`s -> equivalent list without: "execute stmts; if no return was executed, execute cont".  `return v`
    becomes `retvar = v` and ends the path; the code that follows an `if` containing a return (at any nesting depth) is moved into the
    paths of that `if` that do not return (copied into both branches when both can fall through).  Returns inside loops/try/with:
    _GiveUp.  Returns (stmts, always_returns)."""
    cont = list(cont or [])

    def se(ss, k):
        if not ss:
            return [copy.deepcopy(x) for x in k]
        st, rest = ss[0], ss[1:]
        if isinstance(st, ast.Return):
            if retvar is not None:
                val = st.value if st.value is not None else ast.Constant(value=None)
                return [ast.copy_location(ast.Assign(targets=[ast.Name(id=retvar, ctx=ast.Store())], value=val), st)]
            if st.value is not None and not isinstance(st.value, (ast.Constant, ast.Name)):
                return [ast.copy_location(ast.Expr(value=st.value), st)]
            return [ast.copy_location(ast.Pass(), st)]
        if isinstance(st, ast.If) and _has_return(st):
            after = se(rest, k)
            body = se(st.body, after) or [ast.copy_location(ast.Pass(), st)]
            orelse = se(st.orelse, after)
            return [ast.copy_location(ast.If(test=st.test, body=body, orelse=orelse), st)]
        if not isinstance(st, SCOPES) and _has_return(st):
            raise _GiveUp()
        return [st] + se(rest, k)
    return se(list(stmts), cont), _always_returns(stmts)


_inl_counter = [0]


def _inline_call(call, helper, is_method):
    """(prelude statements, value expression or None) for one call of `helper`, or None when it cannot be inlined"""
    a = helper.args
    if a.vararg or a.kwarg or a.kwonlyargs or a.posonlyargs:
        return None
    if any(isinstance(x, ast.Starred) for x in call.args) or any(k.arg is None for k in call.keywords):
        return None
    if any(isinstance(x, (ast.Yield, ast.YieldFrom, ast.Await, ast.Global, ast.Nonlocal)) for x in ast.walk(helper)):
        return None
    params = [x.arg for x in a.args]
    args = list(call.args)
    if is_method:
        if not params:
            return None
        bind = {params[0]: ast.Name(id="self", ctx=ast.Load())}
        params = params[1:]
    else:
        bind = {}
    defaults = dict(zip([x.arg for x in a.args][len(a.args) - len(a.defaults):], a.defaults))
    for pn, av in zip(params, args):
        bind[pn] = av
    for k in call.keywords:
        if k.arg not in params:
            return None
        bind[k.arg] = k.value
    for pn in params:
        if pn not in bind:
            if pn in defaults:
                bind[pn] = defaults[pn]
            else:
                return None
    _inl_counter[0] += 1
    tag = "__%s%d" % (helper.name.strip("_")[:12], _inl_counter[0])
    body = copy.deepcopy(helper.body)
    if body and isinstance(body[0], ast.Expr) and isinstance(body[0].value, ast.Constant) and isinstance(body[0].value.value, str):
        body = body[1:]
    tmp = ast.FunctionDef(name="__tmp", args=helper.args, body=body, decorator_list=[], lineno=helper.lineno)
    stored = {x.id for x in _ordered(tmp) if isinstance(x, ast.Name) and isinstance(x.ctx, (ast.Store, ast.Del))}
    prelude = []
    subst = {}
    for pn, av in bind.items():
        simple = isinstance(av, (ast.Name, ast.Constant)) or chain_text(av) is not None
        if simple and pn not in stored:
            subst[pn] = av
        else:
            nm = pn + tag
            prelude.append(ast.Assign(targets=[ast.Name(id=nm, ctx=ast.Store())], value=av, lineno=call.lineno))
            subst[pn] = ast.Name(id=nm, ctx=ast.Load())
            if pn in stored:
                stored.discard(pn)
                # the parameter is re-bound in the helper: rename it like a local
    rename = {n: n + tag for n in stored if n not in bind}

    class R(ast.NodeTransformer):
        def visit_Name(self, n):
            if n.id in rename:
                n.id = rename[n.id]
                return n
            if n.id in subst and isinstance(n.ctx, ast.Load):
                return ast.copy_location(copy.deepcopy(subst[n.id]), n)
            if n.id in subst and isinstance(n.ctx, ast.Store) and isinstance(subst[n.id], ast.Name):
                n.id = subst[n.id].id
            return n

        def visit_ExceptHandler(self, n):
            if n.name in rename:
                n.name = rename[n.name]
            self.generic_visit(n)
            return n
    body = [R().visit(st) for st in body]
    retvar = "__ret" + tag
    try:
        new, always = _single_exit(body, retvar)
    except _GiveUp:
        return None
    uses_value = any(isinstance(x, ast.Name) and x.id == retvar for st in new for x in ast.walk(st))
    if uses_value and not always:
        prelude.append(ast.Assign(targets=[ast.Name(id=retvar, ctx=ast.Store())], value=ast.Constant(value=None), lineno=call.lineno))
    _last_locals[0] = set(rename.values())
    return prelude + new, (ast.Name(id=retvar, ctx=ast.Load()) if uses_value else ast.Constant(value=None))


_last_locals = [set()]


def _fuse_return(st, pre, val):
    """`__ret = e; T = __ret` -> `T = e`; and when e is (a tuple of) helper locals and T (a tuple of) names that the inlined body does
    not mention, the helper locals take the target names and the copy disappears: `Vb, Vn = self._bases(m)` un-extracts to the
    statements that computed Vb and Vn.  Returns (pre, val, drop_statement)."""
    def rename_into_target():
        # the return value is assigned on several paths: `T = helper()` -> the helper's paths assign T directly
        if isinstance(val, ast.Name) and isinstance(st, ast.Assign) and len(st.targets) == 1 and isinstance(st.targets[0], ast.Name):
            tname = st.targets[0].id
            mentioned = {y.id for x in pre for y in ast.walk(x) if isinstance(y, ast.Name)}
            if tname not in mentioned and val.id in mentioned:
                for x in pre:
                    for y in ast.walk(x):
                        if isinstance(y, ast.Name) and y.id == val.id:
                            y.id = tname
                return pre, val, True
        return pre, val, False
    if not (isinstance(val, ast.Name) and pre and isinstance(pre[-1], ast.Assign) and len(pre[-1].targets) == 1
            and isinstance(pre[-1].targets[0], ast.Name) and pre[-1].targets[0].id == val.id):
        return rename_into_target()
    nstores = sum(1 for x in pre for y in ast.walk(x) if isinstance(y, ast.Name) and y.id == val.id)
    if nstores != 1:
        return rename_into_target()
    expr, pre = pre[-1].value, pre[:-1]
    if not (isinstance(st, ast.Assign) and len(st.targets) == 1):
        return pre, expr, False
    tg = st.targets[0]
    if isinstance(tg, ast.Tuple) and isinstance(expr, ast.Tuple) and len(tg.elts) == len(expr.elts):
        pairs = list(zip(expr.elts, tg.elts))
    elif isinstance(tg, ast.Name) and isinstance(expr, ast.Name):
        pairs = [(expr, tg)]
    else:
        return pre, expr, False
    if not all(isinstance(a, ast.Name) and isinstance(b, ast.Name) and a.id in _last_locals[0] for a, b in pairs):
        return pre, expr, False
    src, dst = [a.id for a, _ in pairs], [b.id for _, b in pairs]
    mentioned = {y.id for x in pre for y in ast.walk(x) if isinstance(y, ast.Name)}
    if len(set(src)) != len(src) or len(set(dst)) != len(dst) or set(dst) & mentioned:
        return pre, expr, False
    m = dict(zip(src, dst))
    for x in pre:
        for y in ast.walk(x):
            if isinstance(y, ast.Name) and y.id in m:
                y.id = m[y.id]
            elif isinstance(y, ast.ExceptHandler) and y.name in m:
                y.name = m[y.name]
    return pre, expr, True


def inline_new_helpers(tree, rel):
    """un-extract: calls to functions that the pinned tree does not have (a private helper split off from an anchored function) are
    replaced by the helper's body, so that the caller is analysed in the shape it had.  Only calls in statement position (expression
    statement, right-hand side of an assignment, returned value, whole `if` test) are inlined; helpers with returns inside loops, with
    *args/**kwargs, generators etc. are left as calls."""
    fbase = baseline().get(rel)
    if not fbase or "__functions__" not in fbase:
        return 0
    known = set(fbase["__functions__"])
    mod_funcs = {n.name: n for n in tree.body if isinstance(n, ast.FunctionDef)}
    n_inl = 0
    for cls in [None] + [c for c in tree.body if isinstance(c, ast.ClassDef)]:
        methods = {m.name: m for m in cls.body if isinstance(m, ast.FunctionDef)} if cls else {}
        new_methods = {k: v for k, v in methods.items() if "%s.%s" % (cls.name, k) not in known} if cls else {}
        new_funcs = {k: v for k, v in mod_funcs.items() if k not in known}
        if not new_methods and not new_funcs:
            continue
        callers = list(methods.values()) if cls else list(mod_funcs.values())

        def resolve(call):
            f = call.func
            if isinstance(f, ast.Attribute) and isinstance(f.value, ast.Name) and f.attr in new_methods:
                h = new_methods[f.attr]
                deco = {chain_text(d) for d in h.decorator_list}
                if f.value.id == "self" and "staticmethod" not in deco:
                    return h, True
                if "staticmethod" in deco and (f.value.id in ("self", "cls") or (cls and f.value.id == cls.name)):
                    return h, False
                return None
            if isinstance(f, ast.Name) and f.id in new_funcs:
                return new_funcs[f.id], False
            return None

        for caller in callers:
            key = (rel, ("%s.%s" % (cls.name, caller.name)) if cls else caller.name)
            for _round in range(3):
                changed = False

                def visit_block(block):
                    nonlocal changed
                    i = 0
                    while i < len(block):
                        st = block[i]
                        target_call = None
                        if isinstance(st, ast.Expr) and isinstance(st.value, ast.Call):
                            target_call = st.value
                        elif isinstance(st, (ast.Assign, ast.AugAssign, ast.AnnAssign)) and isinstance(st.value, ast.Call):
                            target_call = st.value
                        elif isinstance(st, ast.Return) and isinstance(st.value, ast.Call):
                            target_call = st.value
                        elif isinstance(st, ast.If) and isinstance(st.test, ast.Call):
                            target_call = st.test
                        elif isinstance(st, ast.If) and isinstance(st.test, ast.UnaryOp) and isinstance(st.test.operand, ast.Call):
                            target_call = st.test.operand
                        r = resolve(target_call) if target_call is not None else None
                        if r is not None and r[0] is not caller:
                            res = _inline_call(target_call, r[0], r[1])
                            if res is not None:
                                pre, val = res
                                for x in pre:
                                    for y in ast.walk(x):
                                        if not hasattr(y, "lineno"):
                                            y.lineno = getattr(st, "lineno", 1)
                                            y.col_offset = 0
                                drop = False
                                if not isinstance(st, ast.Expr):
                                    pre, val, drop = _fuse_return(st, pre, val)
                                if isinstance(st, ast.Expr) or drop:
                                    block[i:i + 1] = pre or [ast.copy_location(ast.Pass(), st)]
                                    i += max(len(pre), 1)
                                else:
                                    if isinstance(st, ast.If):
                                        if st.test is target_call:
                                            st.test = val
                                        else:
                                            st.test.operand = val
                                    else:
                                        st.value = val
                                    block[i:i] = pre
                                    i += len(pre) + 1
                                changed = True
                                continue
                        for name in ("body", "orelse", "finalbody"):
                            b = getattr(st, name, None)
                            if isinstance(b, list) and b and isinstance(b[0], ast.stmt) and not isinstance(st, SCOPES):
                                visit_block(b)
                        for h in getattr(st, "handlers", []) or []:
                            visit_block(h.body)
                        i += 1
                visit_block(caller.body)
                if not changed:
                    break
                n_inl += 1
            ast.fix_missing_locations(caller)
            for x in ast.walk(caller):
                OWNER[id(x)] = key
    return n_inl


def normalise_module(tree, rel):
    _cur_rel[0] = rel
    MODULE_PURE[rel] = {n.name for n in tree.body if isinstance(n, ast.FunctionDef) and _pure_function(n)}
    for n in tree.body:
        if isinstance(n, (ast.FunctionDef, ast.AsyncFunctionDef)):
            normalise_function(n, rel, n.name)
        elif isinstance(n, ast.ClassDef):
            for m in n.body:
                if isinstance(m, (ast.FunctionDef, ast.AsyncFunctionDef)):
                    normalise_function(m, rel, "%s.%s" % (n.name, m.name))
    if inline_new_helpers(tree, rel):
        # the inlined bodies may bring new pure locals / aliases of their own: normalise the callers once more
        for n in tree.body:
            if isinstance(n, (ast.FunctionDef, ast.AsyncFunctionDef)):
                normalise_function(n, rel, n.name)
            elif isinstance(n, ast.ClassDef):
                for m in n.body:
                    if isinstance(m, (ast.FunctionDef, ast.AsyncFunctionDef)):
                        normalise_function(m, rel, "%s.%s" % (n.name, m.name))


def pattern_aliases(node):
    """alias table under which a pattern applied to `node` is to be read (the pinned tree's names for that function)"""
    key = OWNER.get(id(node))
    if key is None:
        return None, {}
    base = baseline().get(key[0], {}).get(key[1])
    if base is not None:
        return key, base["aliases"]
    return key, CUR_ALIASES.get(key, {})


def resolve_pattern(p, aliases):
    """copy of pattern AST with alias names replaced by their chains"""
    if not aliases:
        return p
    names = {n.id for n in ast.walk(p) if isinstance(n, ast.Name)}
    if not (names & set(aliases)):
        return p
    q = copy.deepcopy(p)

    class R(ast.NodeTransformer):
        def visit_Name(self, n):
            if n.id in aliases and isinstance(n.ctx, ast.Load):
                return ast.copy_location(chain_ast(aliases[n.id]), n)
            return n
    if isinstance(q, ast.Name):
        return R().visit(q)
    return R().visit(q)


def resolve_dotted(name, node_or_key):
    """`dae.store` -> `self.system.dae.store` under the alias table of the owning function"""
    if isinstance(node_or_key, tuple):
        key = node_or_key
        base = baseline().get(key[0], {}).get(key[1])
        aliases = base["aliases"] if base is not None else CUR_ALIASES.get(key, {})
    else:
        key, aliases = pattern_aliases(node_or_key)
    root = name.split(".")[0]
    if root in aliases:
        return aliases[root] + name[len(root):]
    return name


def make_baseline(repo_root):
    """{rel: {qual: {locals: [...], aliases: {...}}}} of the tree under repo_root (un-normalised analysis)"""
    out = {}
    pkg = os.path.join(repo_root, "andes")
    for dp, dn, fns in os.walk(pkg):
        dn[:] = [d for d in dn if d != "__pycache__"]
        for f in sorted(fns):
            if not f.endswith(".py"):
                continue
            p = os.path.join(dp, f)
            rel = os.path.relpath(p, repo_root)
            tree = ast.parse(open(p, encoding="utf-8").read())
            ent = {}

            def add(fn, qual):
                locs, al = analyse(fn)
                if locs or al:
                    ent[qual] = dict(locals=locs, aliases=al)
            for n in tree.body:
                if isinstance(n, (ast.FunctionDef, ast.AsyncFunctionDef)):
                    add(n, n.name)
                elif isinstance(n, ast.ClassDef):
                    for m in n.body:
                        if isinstance(m, (ast.FunctionDef, ast.AsyncFunctionDef)):
                            add(m, "%s.%s" % (n.name, m.name))
            ent["__functions__"] = sorted(
                [n.name for n in tree.body if isinstance(n, (ast.FunctionDef, ast.AsyncFunctionDef))] +
                ["%s.%s" % (c.name, m.name) for c in tree.body if isinstance(c, ast.ClassDef) for m in c.body
                 if isinstance(m, (ast.FunctionDef, ast.AsyncFunctionDef))])
            out[rel] = ent
    return out


if __name__ == "__main__":
    import sys
    root = sys.argv[1] if len(sys.argv) > 1 else "/repo"
    b = make_baseline(root)
    with open(BASELINE_FILE, "w") as f:
        json.dump(b, f, indent=0, sort_keys=True)
    print("baseline: %d files, %d functions with locals, %d aliases" % (
        len(b), sum(len([k for k in v if k != "__functions__"]) for v in b.values()),
        sum(len(x["aliases"]) for v in b.values() for k, x in v.items() if k != "__functions__")))
