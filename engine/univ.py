"""Universality rule: a loop that must treat EVERY element (every device, every equation, every model, every record) has no
`break` / `return` that cuts it short.  The tables in the rule modules name such loops by (class, function, file, regex on the
iterated expression); each was confirmed by reading to be an apply-to-all loop (not a search).  A loop that can no longer be
found is reported UNDECIDED (the function was restructured), a vanished function is an analysis error."""
import ast
import re

from . import astq as Q
from .pysrc import src


def check(ctx, repo, rule, table):
    n = 0
    for cls, func, path, pat, why in table:
        if cls:
            ci, fn = repo.method(cls, func, path)
            qual = "%s.%s" % (cls, func)
            p = ci.path
        else:
            fn = repo.func(path, func)
            qual = "%s::%s" % (path.split("/")[-1], func)
            p = path
        loops = [l for l in ast.walk(fn) if isinstance(l, ast.For) and re.search(pat, src(l.iter))]
        if not loops:
            ctx.undecided(rule, "%s/for:%s" % (qual, pat), "apply-to-all loop no longer found (restructured?)", "%s:%d" % (p, fn.lineno))
            continue
        for k, l in enumerate(loops):
            n += 1
            ex = Q.early_exits(l)
            ctx.check(not ex, rule, "%s/for:%s#%d" % (qual, pat, k), "visits every element (%s)" % why,
                      "`%s` at line %d leaves the loop `for %s in %s` before every element is treated (%s)" % (
                          src(ex[0]) if ex else "", ex[0].lineno if ex else 0, src(l.target), src(l.iter)[:60], why),
                      "%s:%d" % (p, l.lineno))
    return n
