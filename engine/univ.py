"""Universality rule: a loop that must treat EVERY element (every device, every equation, every model, every record) has no
`break` / `return` that cuts it short.  The tables in the rule modules name such loops by (class, function, file, regex on the
iterated expression); each was confirmed by reading to be an apply-to-all loop (not a search).  A loop that can no longer be
found is reported UNDECIDED (the function was restructured), a vanished function is an analysis error."""
import ast
import re

from . import astq as Q
from .pysrc import src


_G = None


def _guards():
    global _G
    if _G is None:
        import json
        import os
        f = os.path.join(os.path.dirname(os.path.dirname(os.path.abspath(__file__))), "baselines", "univ_guards.json")
        try:
            _G = set(json.load(open(f))["guards"])
        except (OSError, ValueError, KeyError):
            _G = set()
    return _G


def collect_guards(repo, tables):
    """guards of returns that bypass a universal loop on the current tree (used once, to write the baseline after reading them)"""
    out = set()

    class Sink:
        def violation(self, rule, construct, detail, where=""):
            pass

        def check(self, *a, **k):
            pass

        def undecided(self, *a, **k):
            pass
    import re as _re
    for pid, table in tables.items():
        for cls, func, path, pat, why in table:
            fn = repo.method(cls, func, path)[1] if cls else repo.func(path, func)
            qual = "%s.%s" % (cls, func) if cls else "%s::%s" % (path.split("/")[-1], func)
            loops = [l for l in ast.walk(fn) if isinstance(l, ast.For) and any(_re.search(pat, t_) for t_ in _spellings(l.iter))]
            g = repo.cfg(fn)
            for l in loops:
                hd = [x for x in g.nodes() if g.data(x)["kind"] == "loop" and g.data(x)["ast"] is l]
                for rn in g.nodes():
                    ra = g.data(rn).get("ast")
                    if isinstance(ra, ast.Return) and g.data(rn)["kind"] == "stmt" and not any(y is ra for y in ast.walk(l)) \
                            and hd and g.path(g.entry, rn, avoid=hd) is not None:
                        chain = Q.condition_chain(fn, ra) or []
                        tests = [" ".join(src(c.test).split()) for c in chain if hasattr(c, "test")]
                        out.add("%s|%s" % (qual, " && ".join(tests)))
    return sorted(out)


def _spellings(node):
    """source text of `node` in resolved form and with the pinned tree's alias names folded back (engine/alpha.py)"""
    from . import alpha
    t = src(node)
    out = [t]
    key, aliases = alpha.pattern_aliases(node)
    for name, chain in sorted(aliases.items(), key=lambda kv: -len(kv[1])):
        t = re.sub(r"(?<![\w.])" + re.escape(chain) + r"(?![\w])", name, t)
    out.append(t)
    return out


def check(ctx, repo, rule, table):
    n = 0
    for cls, func, path, pat, why in table:
        if cls:
            ci, fn = repo.method(cls, func, path)
            qual = "%s.%s" % (cls, func)
            p = ci.path
        else:
            fn = repo.func(path, func)
            qual = "%s::%s" % (path.split("/")[-1], func)
            p = path
        loops = [l for l in ast.walk(fn) if isinstance(l, ast.For) and any(re.search(pat, t_) for t_ in _spellings(l.iter))]
        if not loops:
            ctx.undecided(rule, "%s/for:%s" % (qual, pat), "apply-to-all loop no longer found (restructured?)", "%s:%d" % (p, fn.lineno))
            continue
        # the loop is reached on every normal path through the function: a `return` that can be taken without passing the loop is
        # accepted only if its guard tests the iterated collection itself (nothing to treat) or is one of the guards confirmed by
        # reading on the pinned tree (baselines/univ_guards.json); anything else is a new way of skipping every element
        g = repo.cfg(fn)
        heads = [x for x in g.nodes() if g.data(x)["kind"] == "loop" and g.data(x)["ast"] in loops]
        for k, l in enumerate(loops):
            n += 1
            hd = [x for x in heads if g.data(x)["ast"] is l]
            outer = [x for x in heads if g.data(x)["ast"] is not l and any(y is l for y in ast.walk(g.data(x)["ast"]))]
            if hd and not outer:
                iter_names = {y.id for y in ast.walk(l.iter) if isinstance(y, ast.Name)} | \
                    {src(y) for y in ast.walk(l.iter) if isinstance(y, ast.Attribute)}
                for rn in g.nodes():
                    ra = g.data(rn).get("ast")
                    if not isinstance(ra, ast.Return) or g.data(rn)["kind"] != "stmt":
                        continue
                    if any(y is ra for y in ast.walk(l)):
                        continue
                    if g.path(g.entry, rn, avoid=hd) is None:
                        continue            # only reachable after the loop
                    chain = Q.condition_chain(fn, ra) or []
                    tests = [" ".join(src(c.test).split()) for c in chain if hasattr(c, "test")]
                    if not tests:
                        continue            # the function's final return; the loop sits in a branch
                    mentions = any(nm in t for t in tests for nm in iter_names if nm not in ("self",))
                    key = "%s|%s" % (qual, " && ".join(tests))
                    if mentions or key in _guards():
                        continue
                    ctx.violation(rule, "%s/for:%s#%d/reached" % (qual, pat, k),
                                  "`%s` at line %d (guard: %s) leaves the function before the loop `for %s in %s` is reached: on that path no "
                                  "element is treated (%s)" % (src(ra), ra.lineno, " and ".join(tests) or "none", src(l.target), src(l.iter)[:60], why),
                                  "%s:%d" % (p, ra.lineno))
            # no value leaks from one element to the next (a variable assigned only on some paths of the body and read in it)
            if not outer:
                for nm, un, first in Q.loop_leaks(fn, l, g):
                    ctx.violation(rule, "%s/for:%s#%d/carry(%s)" % (qual, pat, k, nm),
                                  "`%s` is assigned only on some paths through the body of `for %s in %s` (first at line %d) but read at line %d: for "
                                  "an element that takes another path the value of an earlier element (or the one from before the loop) is used (%s)" % (
                                      nm, src(l.target), src(l.iter)[:50], first.lineno, g.line(un), why), "%s:%d" % (p, g.line(un)))
            # the per-element work has not slipped out of the loop: a call after the loop that uses the loop variable (without re-binding it)
            # acts on the LAST element only
            tnames = {y.id for y in ast.walk(l.target) if isinstance(y, ast.Name)}
            hd_ = [x for x in heads if g.data(x)["ast"] is l]
            if hd_ and tnames:
                inside = {id(y) for y in ast.walk(l)}
                for rn in g.nodes():
                    ra = g.data(rn).get("ast")
                    if ra is None or g.data(rn)["kind"] not in ("stmt", "test") or id(ra) in inside:
                        continue
                    if any(isinstance(y, (ast.For, ast.While)) and any(z is l for z in ast.walk(y)) for y in [ra]):
                        continue
                    exprs = g.data(rn).get("expr") or [ra]
                    used = {y.id for e_ in exprs for y in ast.walk(e_) if isinstance(y, ast.Name) and isinstance(y.ctx, ast.Load)} & tnames
                    if not used or not any(isinstance(y, ast.Call) for e_ in exprs for y in ast.walk(e_)):
                        continue
                    if not g.reachable(hd_[0], rn):
                        continue            # not after the loop
                    # re-bound between the loop and the use?
                    rebinds = [x for x in g.nodes() if g.data(x)["kind"] in ("stmt", "loop") and g.data(x)["ast"] is not l and id(g.data(x)["ast"]) not in inside
                               and any(isinstance(y, ast.Name) and isinstance(y.ctx, ast.Store) and y.id in used for y in ast.walk(
                                   g.data(x)["ast"].target if isinstance(g.data(x)["ast"], ast.For) else g.data(x)["ast"]))]
                    if rebinds and g.must_pass(hd_[0], rn, rebinds)[0]:
                        continue
                    ctx.violation(rule, "%s/for:%s#%d/leak(%s)" % (qual, pat, k, ",".join(sorted(used))),
                                  "`%s` at line %d uses the loop variable `%s` AFTER the loop `for %s in %s`: it acts on the last element only (%s)" % (
                                      src(ra)[:70] if not hasattr(ra, "test") else src(ra.test)[:70], g.line(rn), ",".join(sorted(used)), src(l.target),
                                      src(l.iter)[:50], why), "%s:%d" % (p, g.line(rn)))
            ex = Q.early_exits(l)
            ctx.check(not ex, rule, "%s/for:%s#%d" % (qual, pat, k), "visits every element (%s)" % why,
                      "`%s` at line %d leaves the loop `for %s in %s` before every element is treated (%s)" % (
                          src(ex[0]) if ex else "", ex[0].lineno if ex else 0, src(l.target), src(l.iter)[:60], why),
                      "%s:%d" % (p, l.lineno))
    return n
