"""Elaborate a Block subclass of andes/core/block.py inside a synthetic host model, through the real
__setattr__/export() path (so name-spacing is part of what is checked)."""
import inspect

from .elab import _import_andes
from .report import AnalysisError


def host_for(cls_name, args, name="B", extra_vars=()):
    """args: dict ctor-arg -> spec, where spec is
         ('param', ) -> a NumParam named like the arg   | ('var',) -> an Algeb named like the arg
         ('const', value) -> literal passed through     | ('name',) -> the block name
    returns the host model instance."""
    _import_andes()
    from andes.core import ModelData, Model, NumParam, Algeb
    import andes.core.block as B

    if not hasattr(B, cls_name):
        raise AnalysisError("block class vanished: %s" % cls_name)
    cls = getattr(B, cls_name)

    class Host(ModelData, Model):
        def __init__(self):
            ModelData.__init__(self)
            Model.__init__(self, system=None, config=None)
            self.group = "Undefined"
            kw = {}
            for a, spec in args.items():
                if spec[0] == "param":
                    setattr(self, a, NumParam(default=1.0, tex_name=a, info=a))
                    kw[a] = getattr(self, a)
                elif spec[0] == "var":
                    setattr(self, a, Algeb(tex_name=a, info=a, v_str="0", e_str="0"))
                    kw[a] = getattr(self, a)
                elif spec[0] == "const":
                    kw[a] = spec[1]
            for v in extra_vars:
                setattr(self, v, Algeb(tex_name=v, info=v, v_str="0", e_str="0"))
            sig = inspect.signature(cls.__init__)
            if "name" in sig.parameters:
                kw["name"] = name
            try:
                setattr(self, name, cls(**kw))
            except TypeError as e:
                raise AnalysisError("block %s constructor signature changed: %s" % (cls_name, e))

    Host.__name__ = "Host_" + cls_name
    return Host()
