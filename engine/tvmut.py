"""Mutation of *generated* functions (in memory) to measure the sensitivity of the translation validator itself:
every non-equivalent mutant of a generated function must be reported by the body/binding comparison."""
import ast
import copy
import random

import sympy as sp

from . import dsl


def mutants_of(gfunc, rnd, k=2):
    """yield (kind, mutated GenFunc-like object) for a generated function."""
    from .pycode import GenFunc
    out = []
    node = gfunc.node
    els = gfunc.elements() if gfunc.ret is not None else []
    kinds = ["negate", "swap_elems", "swap_params", "op_flip", "const_bump", "name_swap"]
    rnd.shuffle(kinds)
    for kind in kinds:
        if len(out) >= k:
            break
        m = copy.deepcopy(node)
        ret = m.body[0].value
        tup = ret.elts if isinstance(ret, ast.Tuple) else None
        if kind == "negate":
            if tup:
                cand = [i for i, e in enumerate(tup) if not (isinstance(e, ast.Constant) and e.value == 0)]
                if not cand:
                    continue
                i = rnd.choice(cand)
                tup[i] = ast.UnaryOp(op=ast.USub(), operand=tup[i])
            else:
                if isinstance(ret, ast.Constant) and ret.value == 0:
                    continue
                m.body[0].value = ast.UnaryOp(op=ast.USub(), operand=ret)
        elif kind == "swap_elems":
            if not tup or len(tup) < 2:
                continue
            i, j = rnd.sample(range(len(tup)), 2)
            if ast.dump(tup[i]) == ast.dump(tup[j]):
                continue
            tup[i], tup[j] = tup[j], tup[i]
        elif kind == "swap_params":
            a = m.args.args
            if len(a) < 2:
                continue
            i, j = rnd.sample(range(len(a)), 2)
            a[i], a[j] = a[j], a[i]
        elif kind == "op_flip":
            ops = [x for x in ast.walk(ret) if isinstance(x, ast.BinOp) and isinstance(x.op, (ast.Add, ast.Sub))]
            if not ops:
                continue
            x = rnd.choice(ops)
            x.op = ast.Sub() if isinstance(x.op, ast.Add) else ast.Add()
        elif kind == "const_bump":
            cs = [x for x in ast.walk(ret) if isinstance(x, ast.Constant) and isinstance(x.value, (int, float)) and not isinstance(x.value, bool)
                  and x.value not in (0,)]
            if not cs:
                continue
            x = rnd.choice(cs)
            x.value = x.value + 1
        elif kind == "name_swap":
            names = sorted({x.id for x in ast.walk(ret) if isinstance(x, ast.Name) and not x.id.startswith("__")} - {
                "select", "nan", "sin", "cos", "exp", "sqrt", "less", "greater", "less_equal", "greater_equal", "real", "imag", "conj", "abs"})
            params = [p.arg for p in m.args.args if not p.arg.startswith("__")]
            if len(names) < 1 or len(params) < 2:
                continue
            src_ = rnd.choice(names)
            dst = rnd.choice([p for p in params if p != src_])
            hit = [x for x in ast.walk(ret) if isinstance(x, ast.Name) and x.id == src_]
            if not hit:
                continue
            hit[0].id = dst
        ast.fix_missing_locations(m)
        out.append((kind, GenFunc(m)))
    return out
