"""Translation validation of the code generator: declared equations (own front-end)
versus generated NumPy source (own front-end), compared in the sympy normal-form kernel."""
import sympy as sp

from . import dsl, elab, pycode
from .report import AnalysisError


class ModelTV:
    def __init__(self, name, model, gen):
        self.name = name
        self.m = model
        self.gen = gen
        self.st = dsl.SymTab(model)
        self.subs = {}
        self.subs_nested = False
        for n, inst in model.services_subs.items():
            if inst.v_str is not None:
                self.subs[self.st.get(n)] = dsl.parse_dsl(inst.v_str, self.st)
        for e in self.subs.values():
            if e.free_symbols & set(self.subs):
                self.subs_nested = True
        self._eq = {}

    def decl(self, text):
        """own parse of a declared string, SubsService substituted."""
        e = dsl.parse_dsl(text, self.st)
        if self.subs and isinstance(e, sp.Basic):
            for _ in range(3 if self.subs_nested else 1):
                e = e.xreplace(self.subs)
        # a bare condition assigned to a numeric array is its 0/1 indicator
        return dsl.Indicator(e) if dsl.is_bool(e) else e

    def gen_expr(self, node, params):
        e = dsl.parse_np(node, self.st, params=set(params))
        # results are stored into float arrays: a bare condition is its 0/1 indicator
        return dsl.Indicator(e) if dsl.is_bool(e) else e

    def var_order(self):
        c = self.m.cache
        return list(c.states_and_ext.keys()), list(c.algebs_and_ext.keys()), list(c.all_vars.keys())

    def eq(self, vname):
        if vname not in self._eq:
            v = self.m.cache.all_vars[vname]
            self._eq[vname] = self.decl(v.e_str) if v.e_str is not None else sp.S.Zero
        return self._eq[vname]

    def providable(self):
        """names the runtime can bind (Model.refresh_inputs)."""
        m = self.m
        names = set()
        for reg in (m.num_params, m.services, m.services_ext, m.services_ops):
            names |= set(reg.keys())
        for d in m.discrete.values():
            names |= set(d.get_names())
        names |= set(m.cache.all_vars.keys())
        names |= set(m.config.as_dict().keys())
        names |= {"__zeros", "__ones", "__falses", "__trues", "sys_f", "sys_mva", "dae_t"}
        return names


def flags_of(model, st):
    """0/1-valued symbols: exported discrete flags and the status parameter u."""
    out = set()
    for d in model.discrete.values():
        for n in d.get_names():
            if n in st:
                out.add(st.get(n))
    return out


def load_all():
    models = elab.load_models()
    d, errors, cached = elab.generated_dir()
    if errors:
        raise AnalysisError("code generator failed for: %s" % errors)
    gens = pycode.load_dir(d, list(models))
    return models, gens, cached
