"""Elaboration: instantiate the declarative model constructors of /repo (system=None,
config=None) to obtain the DSL programs (e_str, v_str, v_iter, services, flags),
and run the repository's code generator into a scratch directory so its *output
text* can be analysed.  No System, no case file, no routine, no numerics."""
import ast
import importlib
import inspect
import os
import shutil
import sys
import tempfile
from collections import OrderedDict

from .report import REPO, AnalysisError, where

_models = None


def _import_andes():
    if REPO not in sys.path:
        sys.path.insert(0, REPO)
    try:
        import andes  # noqa: F401
    except Exception as e:
        raise AnalysisError("cannot import andes from %s: %r" % (REPO, e))
    p = os.path.realpath(os.path.dirname(sys.modules["andes"].__file__))
    if not p.startswith(os.path.realpath(REPO)):
        raise AnalysisError("andes imported from %s, not from %s" % (p, REPO))


def load_models():
    """OrderedDict class_name -> model instance built with system=None, config=None."""
    global _models
    if _models is not None:
        return _models
    _import_andes()
    from andes.models import file_classes
    out = OrderedDict()
    for fname, cls_list in (file_classes.items() if hasattr(file_classes, "items") else file_classes):
        try:
            mod = importlib.import_module("andes.models." + fname)
        except Exception as e:
            raise AnalysisError("cannot import andes.models.%s: %r" % (fname, e))
        for cname in cls_list:
            try:
                out[cname] = getattr(mod, cname)(system=None, config=None)
            except Exception as e:
                raise AnalysisError("cannot elaborate model %s: %r" % (cname, e))
    _models = out
    return out


def _gen_one(args):
    name, path = args
    import logging
    logging.disable(logging.CRITICAL)
    m = load_models()[name]
    try:
        m.prepare(quick=True, pycode_path=path)
    except Exception as e:   # generator refused the model: report, do not crash the pool
        return name, repr(e)
    return name, None


def generate_pycode():
    """Run the repo's generator for all models into a fresh scratch dir.
    Returns (dir, errors).  Caller must shutil.rmtree(dir)."""
    import multiprocessing as mp
    models = load_models()
    d = tempfile.mkdtemp(prefix="andes_verif_pycode_")
    try:
        ctx = mp.get_context("fork")
        with ctx.Pool(int(os.environ.get("VERIF_JOBS", 0)) or min(16, os.cpu_count() or 4)) as pool:
            res = pool.map(_gen_one, [(n, d) for n in models], chunksize=2)
    except Exception:
        shutil.rmtree(d, ignore_errors=True)
        raise
    errors = {n: e for n, e in res if e}
    return d, errors


# ---- mapping DSL strings back to source constructs ----------------------------

_src_cache = {}


def _class_ast(cls):
    try:
        f = inspect.getsourcefile(cls)
    except TypeError:
        return None, None
    if f is None:
        return None, None
    if f not in _src_cache:
        with open(f) as fh:
            _src_cache[f] = ast.parse(fh.read())
    for n in ast.walk(_src_cache[f]):
        if isinstance(n, ast.ClassDef) and n.name == cls.__name__:
            return f, n
    return f, None


_attr_index = {}


def _class_index(cls):
    """attr -> file:line of the last `self.<attr>[.x] = ...` statement in the class body."""
    if cls in _attr_index:
        return _attr_index[cls]
    idx = {}
    f, node = _class_ast(cls)
    if node is not None:
        for n in ast.walk(node):
            if isinstance(n, (ast.Assign, ast.AugAssign)):
                tg = n.targets if isinstance(n, ast.Assign) else [n.target]
                for t in tg:
                    d = t
                    while isinstance(d, ast.Attribute) and not (
                            isinstance(d.value, ast.Name) and d.value.id == "self"):
                        d = d.value
                    if isinstance(d, ast.Attribute):
                        idx[d.attr] = where(f, n)
        idx["<class>"] = where(f, node)
    _attr_index[cls] = idx
    return idx


def locate(model, attr):
    """file:line of the `self.<attr> = ...` (or `self.<attr>.<x> = `) statement that declares
    member `attr` of a model instance; block-exported names (LG_y) resolve to the block (LG)."""
    cands = [attr]
    parts = attr.split("_")
    for i in range(len(parts) - 1, 0, -1):
        cands.append("_".join(parts[:i]))
    for cand in cands:
        for cls in type(model).__mro__:
            if cls is object:
                continue
            idx = _class_index(cls)
            if cand in idx:
                return idx[cand]
    return _class_index(type(model)).get("<class>", type(model).__name__)


# ---- cached generator output ------------------------------------------------------

def tree_digest():
    import hashlib
    h = hashlib.sha256()
    root = os.path.join(REPO, "andes")
    for dp, dn, fn in sorted(os.walk(root)):
        dn[:] = sorted(d for d in dn if d != "__pycache__")
        for f in sorted(fn):
            if f.endswith(".py"):
                p = os.path.join(dp, f)
                h.update(os.path.relpath(p, root).encode())
                with open(p, "rb") as fh:
                    h.update(fh.read())
    import sympy
    h.update(sympy.__version__.encode())
    return h.hexdigest()[:20]


def generated_dir():
    """directory holding generator output for the *current* tree (cached by content digest
    of /repo/andes/**/*.py under /verif/.cache; rebuilt when absent)."""
    from .report import VERIF
    cache = os.environ.get("VERIF_CACHE") or os.path.join(VERIF, ".cache")
    os.makedirs(cache, exist_ok=True)
    dg = tree_digest()
    target = os.path.join(cache, "pycode_" + dg)
    if os.path.isdir(target) and os.path.exists(os.path.join(target, ".complete")):
        return target, {}, True
    # several checks may start on a cold cache at the same time: one generates, the others wait for it
    import fcntl
    lock = open(os.path.join(cache, ".lock"), "w")
    fcntl.flock(lock, fcntl.LOCK_EX)
    try:
        return _generated_dir_locked(cache, target)
    finally:
        fcntl.flock(lock, fcntl.LOCK_UN)
        lock.close()


def _generated_dir_locked(cache, target):
    if os.path.isdir(target) and os.path.exists(os.path.join(target, ".complete")):
        return target, {}, True
    d, errors = generate_pycode()
    if os.path.isdir(target):
        shutil.rmtree(target, ignore_errors=True)
    shutil.move(d, target)
    if not errors:
        with open(os.path.join(target, ".complete"), "w") as f:
            f.write("ok\n")
    # keep at most 4 cached generations
    olds = sorted((os.path.getmtime(os.path.join(cache, x)), x) for x in os.listdir(cache)
                  if x.startswith("pycode_"))
    for _, x in olds[:-4]:
        shutil.rmtree(os.path.join(cache, x), ignore_errors=True)
    return target, errors, False
