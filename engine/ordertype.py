"""Finite abstract interpretation for comparison-only code.

Code that touches its numeric inputs only through comparisons (and 0/1 flag arithmetic)
behaves identically on all inputs with the same *order type*; evaluating it on one
representative per order type is therefore exhaustive for all real inputs.

`Interp` is a tiny evaluator for the NumPy subset used by the repository's discrete
components and statistics code, working on scalars (one array element at a time).
"""
import ast
import itertools
import operator

from .pysrc import dotted


class Unsupported(Exception):
    pass


def weak_orderings(names):
    """all weak orderings of `names` as dict name -> rank (ties allowed).
    3 names -> 13 orderings, 4 names -> 75."""
    names = list(names)
    out = []
    n = len(names)
    seen = set()
    for ranks in itertools.product(range(n), repeat=n):
        # canonical: ranks used must be 0..k-1 without gaps
        used = sorted(set(ranks))
        if used != list(range(len(used))):
            continue
        if ranks in seen:
            continue
        seen.add(ranks)
        out.append(dict(zip(names, ranks)))
    return out


_CMP = {ast.Lt: operator.lt, ast.LtE: operator.le, ast.Gt: operator.gt, ast.GtE: operator.ge,
        ast.Eq: operator.eq, ast.NotEq: operator.ne}

_NPF = {
    "np.less": operator.lt, "np.less_equal": operator.le, "np.greater": operator.gt,
    "np.greater_equal": operator.ge, "np.equal": operator.eq, "np.not_equal": operator.ne,
    "np.logical_and": lambda a, b: bool(a) and bool(b), "np.logical_or": lambda a, b: bool(a) or bool(b),
    "np.logical_not": lambda a: not bool(a), "np.abs": abs, "abs": abs, "np.absolute": abs,
    "np.count_nonzero": lambda a: int(bool(a)), "np.sign": lambda a: (a > 0) - (a < 0),
    "np.maximum": max, "np.minimum": min, "max": max, "min": min,
    "np.array": lambda a, **k: a, "np.ones_like": lambda a, **k: 1, "np.zeros_like": lambda a, **k: 0,
    "float": float, "int": int, "bool": bool, "np.bitwise_or": lambda a, b: bool(a) or bool(b),
    "np.bitwise_and": lambda a, b: bool(a) and bool(b), "np.bitwise_not": lambda a: not bool(a),
    "np.isnan": lambda a: a != a, "np.any": bool, "np.all": bool, "any": bool, "all": bool,
    "np.copy": lambda a: a,
}


class Interp:
    """scalar evaluator: env maps dotted names to python numbers/bools."""

    def __init__(self, env, funcs=None):
        self.env = dict(env)
        self.funcs = dict(_NPF)
        if funcs:
            self.funcs.update(funcs)

    def ev(self, n):
        if isinstance(n, ast.Constant):
            return n.value
        if isinstance(n, (ast.Name, ast.Attribute)):
            d = dotted(n)
            if d in self.env:
                return self.env[d]
            if d in ("True", "False", "None"):
                return {"True": True, "False": False, "None": None}[d]
            if isinstance(n, ast.Attribute) and n.attr in ("real", "imag"):
                base = self.ev(n.value)
                return getattr(base, n.attr) if isinstance(base, (int, float, complex)) else base
            raise Unsupported("unbound %s" % d)
        if isinstance(n, ast.Subscript):
            # element-wise view: x[...] of a scalar stand-in is the scalar
            d = dotted(n.value)
            if d in self.env:
                return self.env[d]
            return self.ev(n.value)
        if isinstance(n, ast.Compare):
            left = self.ev(n.left)
            res = True
            for op, c in zip(n.ops, n.comparators):
                right = self.ev(c)
                if isinstance(op, ast.Is):
                    r = left is right
                elif isinstance(op, ast.IsNot):
                    r = left is not right
                elif type(op) in _CMP:
                    r = _CMP[type(op)](left, right)
                else:
                    raise Unsupported("cmp %s" % type(op).__name__)
                res = res and r
                left = right
            return res
        if isinstance(n, ast.BoolOp):
            # Python semantics: left to right, short-circuit
            res = isinstance(n.op, ast.And)
            for v in n.values:
                res = self.ev(v)
                if isinstance(n.op, ast.And) and not res:
                    return res
                if isinstance(n.op, ast.Or) and res:
                    return res
            return res
        if isinstance(n, ast.UnaryOp):
            v = self.ev(n.operand)
            if isinstance(n.op, ast.USub):
                return -v
            if isinstance(n.op, ast.UAdd):
                return +v
            if isinstance(n.op, (ast.Not, ast.Invert)):
                return not bool(v)
        if isinstance(n, ast.BinOp):
            a, b = self.ev(n.left), self.ev(n.right)
            ops = {ast.Add: operator.add, ast.Sub: operator.sub, ast.Mult: operator.mul, ast.Div: operator.truediv,
                   ast.BitAnd: lambda x, y: bool(x) and bool(y), ast.BitOr: lambda x, y: bool(x) or bool(y),
                   ast.Pow: operator.pow, ast.Mod: operator.mod, ast.FloorDiv: operator.floordiv}
            if type(n.op) in ops:
                return ops[type(n.op)](a, b)
            raise Unsupported("binop %s" % type(n.op).__name__)
        if isinstance(n, ast.IfExp):
            return self.ev(n.body) if self.ev(n.test) else self.ev(n.orelse)
        if isinstance(n, ast.Call):
            f = dotted(n.func)
            if f in self.funcs:
                args = [self.ev(a) for a in n.args]
                kw = {k.arg: self.ev(k.value) for k in n.keywords if k.arg}
                return self.funcs[f](*args, **kw) if kw else self.funcs[f](*args)
            # method on value, e.g. x.astype(float), x.copy()
            if isinstance(n.func, ast.Attribute) and n.func.attr in ("astype", "copy", "ravel", "tolist"):
                return self.ev(n.func.value)
            raise Unsupported("call %s" % f)
        raise Unsupported(type(n).__name__)
