"""Statement-level control-flow graph for a Python function (stdlib ast + networkx).

Nodes are integers; attributes:
  kind  entry | exit | raise | stmt | test | loop | handler | with | join
  ast   the ast node (statement, or the compound statement for test/loop/with/handler)
  expr  list of ast expressions *evaluated at this node* (for test: the condition only)
Edges carry label: 'next' | 'true' | 'false' | 'exc' | 'loop' | 'break' | 'continue'.

Exceptions: only explicit `raise` and statements inside a `try` body are
modelled as raising (edge to every handler of the innermost try). A path into
the `raise` node is an *exit by exception*, not a success path.
"""
import ast

import networkx as nx


class CFG:
    def __init__(self, func):
        self.func = func
        self.g = nx.DiGraph()
        self._n = 0
        self.entry = self._new("entry")
        self.exit = self._new("exit")
        self.raise_exit = self._new("raise")
        self._loops = []     # stack of (header, after_join)
        self._tries = []     # stack of list-of-handler-entry nodes
        self._finals = []
        last = self._block(func.body, [self.entry])
        self._link(last, self.exit)
        self._dom = None
        self._pdom = None

    # ---- construction ------------------------------------------------
    def _new(self, kind, node=None, expr=None):
        i = self._n
        self._n += 1
        self.g.add_node(i, kind=kind, ast=node, expr=expr or [])
        return i

    def _link(self, preds, n, label="next"):
        for p in preds:
            if isinstance(p, tuple):
                self.g.add_edge(p[0], n, label=p[1])
            else:
                self.g.add_edge(p, n, label=label)

    def _exc_edges(self, n):
        if self._tries:
            for h in self._tries[-1]:
                self.g.add_edge(n, h, label="exc")

    def _block(self, stmts, preds):
        for s in stmts:
            preds = self._stmt(s, preds)
        return preds

    def _stmt(self, s, preds):
        if isinstance(s, ast.If):
            t = self._new("test", s, [s.test])
            self._link(preds, t)
            self._exc_edges(t)
            out = self._block(s.body, [(t, "true")])
            if s.orelse:
                out = out + self._block(s.orelse, [(t, "false")])
            else:
                out = out + [(t, "false")]
            return out
        if isinstance(s, (ast.For, ast.AsyncFor, ast.While)):
            if isinstance(s, ast.While):
                h = self._new("loop", s, [s.test])
            else:
                h = self._new("loop", s, [s.iter, s.target])
            self._link(preds, h)
            self._exc_edges(h)
            after = self._new("join", s)
            self._loops.append((h, after))
            body_out = self._block(s.body, [(h, "true")])
            self._loops.pop()
            self._link(body_out, h, "loop")
            infinite = isinstance(s, ast.While) and isinstance(s.test, ast.Constant) and s.test.value is True
            if not infinite:
                if s.orelse:
                    e_out = self._block(s.orelse, [(h, "false")])
                    self._link(e_out, after)
                else:
                    self.g.add_edge(h, after, label="false")
            return [after] if self.g.in_degree(after) else []
        if isinstance(s, ast.Try):
            handlers = [self._new("handler", hd, [hd.type] if hd.type else []) for hd in s.handlers]
            fin_entry = None
            self._tries.append(handlers if handlers else (self._tries[-1] if self._tries else []))
            body_out = self._block(s.body, preds)
            self._tries.pop()
            if s.orelse:
                body_out = self._block(s.orelse, body_out)
            outs = list(body_out)
            for hn, hd in zip(handlers, s.handlers):
                outs += self._block(hd.body, [hn])
            if s.finalbody:
                outs = self._block(s.finalbody, outs)
            return outs
        if isinstance(s, (ast.With, ast.AsyncWith)):
            w = self._new("with", s, [i.context_expr for i in s.items])
            self._link(preds, w)
            self._exc_edges(w)
            return self._block(s.body, [w])
        if isinstance(s, ast.Return):
            n = self._new("stmt", s, [s.value] if s.value else [])
            self._link(preds, n)
            self._exc_edges(n)
            self.g.add_edge(n, self.exit, label="return")
            return []
        if isinstance(s, ast.Raise):
            n = self._new("stmt", s, [x for x in (s.exc, s.cause) if x])
            self._link(preds, n)
            if self._tries and self._tries[-1]:
                self._exc_edges(n)
            else:
                self.g.add_edge(n, self.raise_exit, label="exc")
            return []
        if isinstance(s, ast.Break):
            n = self._new("stmt", s)
            self._link(preds, n)
            if self._loops:
                self.g.add_edge(n, self._loops[-1][1], label="break")
            return []
        if isinstance(s, ast.Continue):
            n = self._new("stmt", s)
            self._link(preds, n)
            if self._loops:
                self.g.add_edge(n, self._loops[-1][0], label="continue")
            return []
        if isinstance(s, (ast.FunctionDef, ast.AsyncFunctionDef, ast.ClassDef)):
            n = self._new("stmt", s, [])
            self._link(preds, n)
            return [n]
        if hasattr(ast, "Match") and isinstance(s, ast.Match):
            t = self._new("test", s, [s.subject])
            self._link(preds, t)
            outs = [(t, "false")]
            for c in s.cases:
                outs += self._block(c.body, [(t, "true")])
            return outs
        # simple statement
        n = self._new("stmt", s, [s])
        self._link(preds, n)
        self._exc_edges(n)
        return [n]

    # ---- queries -----------------------------------------------------
    def nodes(self, pred=None):
        for n, d in self.g.nodes(data=True):
            if pred is None or pred(n, d):
                yield n

    def data(self, n):
        return self.g.nodes[n]

    def line(self, n):
        a = self.g.nodes[n]["ast"]
        return getattr(a, "lineno", 0)

    def exprs(self, n):
        return self.g.nodes[n]["expr"]

    def find(self, pred):
        """nodes whose evaluated expressions satisfy pred(ast_node) for some sub-node."""
        out = []
        for n, d in self.g.nodes(data=True):
            for e in d["expr"]:
                if any(pred(x) for x in walk_noscope(e)):
                    out.append(n)
                    break
        return out

    def dom(self):
        if self._dom is None:
            self._dom = nx.immediate_dominators(self.g, self.entry)
        return self._dom

    def dominates(self, a, b):
        """a dominates b (every path entry->b passes a)."""
        d = self.dom()
        if b != self.entry and b not in d:
            return True   # unreachable
        while True:
            if a == b:
                return True
            if b == self.entry or d.get(b, b) == b:
                return False
            b = d[b]

    def reachable(self, a, b, avoid=()):
        """is there a path a ->+ b that does not pass through a node in avoid
        (a itself may be in avoid; endpoints are not tested)."""
        avoid = set(avoid)
        seen = set()
        stack = [s for s in self.g.successors(a)]
        while stack:
            n = stack.pop()
            if n == b:
                return True
            if n in seen or n in avoid:
                continue
            seen.add(n)
            stack.extend(self.g.successors(n))
        return False

    def path(self, a, b, avoid=(), avoid_edges=()):
        """one witness path a -> b avoiding `avoid` (list of nodes) and `avoid_edges` or None."""
        avoid = set(avoid) - {a, b}
        h = self.g.subgraph([n for n in self.g.nodes if n not in avoid])
        if avoid_edges:
            h = nx.DiGraph(h)
            h.remove_edges_from([e for e in avoid_edges if h.has_edge(*e)])
        try:
            return nx.shortest_path(h, a, b)
        except (nx.NetworkXNoPath, nx.NodeNotFound):
            return None

    def must_pass(self, src, dst, through, infeasible_edges=()):
        """every path src -> dst passes a node in `through`; returns (bool, witness path)."""
        p = self.path(src, dst, avoid=through, avoid_edges=infeasible_edges)
        return (p is None), p

    def cycle_avoiding(self, a, avoid):
        """is there a path a ->+ a (through a loop back edge) that avoids every node in `avoid`?"""
        avoid = set(avoid)
        for m in self.g.successors(a):
            if m in avoid:
                continue
            if m == a or self.path(m, a, avoid=avoid) is not None:
                return True
        return False

    def all_before(self, a_nodes, b):
        """every path entry -> b passes some node of a_nodes."""
        return self.must_pass(self.entry, b, a_nodes)

    def fmt_path(self, p):
        return " -> ".join("L%d" % self.line(n) if self.line(n) else self.g.nodes[n]["kind"] for n in p)

    def succ_label(self, n, label):
        return [m for m in self.g.successors(n) if self.g.edges[n, m]["label"] == label]

    def branch_region(self, test, label):
        """nodes reachable from the `label` branch of test without passing the test again
        and not reachable... (simple forward closure used for guard rules)."""
        out = set()
        stack = self.succ_label(test, label)
        while stack:
            n = stack.pop()
            if n in out or n == test:
                continue
            out.add(n)
            stack.extend(self.g.successors(n))
        return out

    def guarded_by(self, n, test, label):
        """every path entry->n enters through the `label` edge of `test`:
        i.e. n is dominated by test and not reachable from the other branch
        without passing test again."""
        if not self.dominates(test, n):
            return False
        other = "false" if label == "true" else "true"
        for m in self.succ_label(test, other):
            if m == n or self.reachable(m, n, avoid=[test]):
                return False
        # also the implicit fallthrough: if test has no explicit other edge, ok
        return True


def walk_noscope(node):
    """ast.walk that does not descend into nested function/class/lambda bodies."""
    stack = [node]
    while stack:
        n = stack.pop()
        yield n
        for c in ast.iter_child_nodes(n):
            if isinstance(c, (ast.FunctionDef, ast.AsyncFunctionDef, ast.ClassDef, ast.Lambda)):
                continue
            stack.append(c)
