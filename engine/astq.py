"""Tiny structural AST pattern matcher with metavariables.

pattern syntax: Python source where `$x` is a metavariable binding any expression
(consistently: two occurrences of `$x` must bind structurally equal expressions) and
`$_` matches anything without binding.  Formatting, comments and the names chosen for
locals are invisible; attribute/function names written literally are matched literally.
"""
import ast
import re

from . import alpha
from .cfg import walk_noscope

_MV = "__mv_"
_cache = {}


class Bindings(dict):
    """a successful match (truthy even when no metavariable was bound)."""

    def __bool__(self):
        return True


def _compile(pattern):
    if pattern in _cache:
        return _cache[pattern]
    text = re.sub(r"\$([A-Za-z_][A-Za-z_0-9]*)", lambda m: _MV + m.group(1), pattern)
    mod = ast.parse(text)
    node = mod.body[0]
    if isinstance(node, ast.Expr):
        node = node.value
    node = alpha.canon(node)        # same canonical spelling of comparisons as the normalised program
    _cache[pattern] = node
    return node


def _eq(a, b):
    if ast.unparse(a) == ast.unparse(b):
        return True
    # a metavariable bound to an alias local at its definition (`$c = $A.CCS`) meets the propagated chain at the uses
    if isinstance(a, ast.Name):
        key = alpha.OWNER.get(id(b))
        if key is not None and alpha.CUR_ALIASES.get(key, {}).get(a.id) == ast.unparse(b):
            return True
    return False


def _match(p, n, env):
    if isinstance(p, ast.Name) and p.id.startswith(_MV):
        k = p.id[len(_MV):]
        if k == "_":
            return True
        if k in env:
            return _eq(env[k], n)
        env[k] = n
        return True
    if isinstance(p, ast.Attribute) and p.attr.startswith(_MV):
        # metavariable in attribute position: x.$a
        if not isinstance(n, ast.Attribute):
            return False
        k = p.attr[len(_MV):]
        if k != "_":
            if k in env and env[k] != n.attr:
                return False
            env[k] = n.attr
        return _match(p.value, n.value, env)
    if type(p) is not type(n):
        return False
    for field, pv in ast.iter_fields(p):
        if field in ("ctx", "lineno", "col_offset", "end_lineno", "end_col_offset", "type_comment", "kind"):
            continue
        nv = getattr(n, field, None)
        if isinstance(pv, list):
            if not isinstance(nv, list) or len(pv) != len(nv):
                return False
            for a, b in zip(pv, nv):
                if isinstance(a, ast.AST):
                    if not _match(a, b, env):
                        return False
                elif a != b:
                    return False
        elif isinstance(pv, ast.AST):
            if not isinstance(nv, ast.AST) or not _match(pv, nv, env):
                return False
        else:
            if pv != nv:
                return False
    return True


_rcache = {}


def _resolved(pattern, node):
    """pattern AST read under the alias table of the function that owns `node` (engine/alpha.py)"""
    p = _compile(pattern)
    key, aliases = alpha.pattern_aliases(node)
    if not aliases:
        return p
    ck = (pattern, key)
    if ck not in _rcache:
        _rcache[ck] = alpha.resolve_pattern(p, aliases)
    return _rcache[ck]


def match(pattern, node, env=None):
    """bindings dict (name -> ast node) or None."""
    p = _resolved(pattern, node)
    if isinstance(node, ast.Expr) and not isinstance(p, ast.stmt):
        node = node.value
    e = Bindings(env or {})
    return e if _match(p, node, e) else None


def search(pattern, root, env=None):
    """all (node, bindings) under root (not descending into nested scopes) matching pattern."""
    p = _resolved(pattern, root)
    out = []
    for n in walk_noscope(root):
        if type(n) is type(p) or (isinstance(p, ast.Name) and p.id.startswith(_MV)):
            e = Bindings(env or {})
            if _match(p, n, e):
                out.append((n, e))
    return out


def has(pattern, root, env=None):
    return bool(search(pattern, root, env))


def first(pattern, root, env=None):
    r = search(pattern, root, env)
    return r[0] if r else (None, None)


def s(node):
    return ast.unparse(node) if isinstance(node, ast.AST) else str(node)


def loops(root, iter_pattern, target_pattern=None, env=None):
    """for-loops (and comprehensions) under root whose iterable matches; -> [(node, bindings)]."""
    out = []
    for n in walk_noscope(root):
        if isinstance(n, (ast.For, ast.comprehension)):
            e = match(iter_pattern, n.iter, env)
            if e is None:
                continue
            if target_pattern is not None:
                e = match(target_pattern, n.target, e)
                if e is None:
                    continue
            out.append((n, e))
    return out


# ---- universality helpers -------------------------------------------------------------------------------------------

def early_exits(loop):
    """break / return statements that can cut `loop` short (breaks of nested loops belong to those loops)."""
    out = []

    def rec(body, depth):
        for st in body:
            if isinstance(st, (ast.FunctionDef, ast.AsyncFunctionDef, ast.ClassDef, ast.Lambda)):
                continue
            if isinstance(st, ast.Return):
                out.append(st)
            elif isinstance(st, ast.Break) and depth == 0:
                out.append(st)
            for name in ("body", "orelse", "finalbody"):
                sub = getattr(st, name, None)
                if isinstance(sub, list):
                    rec(sub, depth + (1 if isinstance(st, (ast.For, ast.While)) and name == "body" else 0))
            for h in getattr(st, "handlers", []) or []:
                rec(h.body, depth)
    rec(loop.body, 0)
    return out


def condition_chain(root, stmt):
    """If / Try / While / IfExp nodes enclosing `stmt` inside `root` (For and With are transparent)."""
    path = []

    def rec(node, chain):
        if node is stmt:
            path.append(list(chain))
            return True
        for ch in ast.iter_child_nodes(node):
            c2 = chain + [node] if isinstance(node, (ast.If, ast.Try, ast.While, ast.IfExp)) and node is not root else chain
            if rec(ch, c2):
                return True
        return False
    rec(root, [])
    return path[0] if path else None


def loop_leaks(fn, loop, cfg):
    """names whose value can leak from one iteration of `loop` to the next: assigned somewhere in the body, read in the body, and on
    some path from the start of an iteration to such a read no assignment of the body is passed (so the read sees the value of an
    earlier iteration, or the one from before the loop).  Loop targets and names only read are not candidates.
    Returns [(name, read node, ast of the first conditional assignment)]"""
    body_nodes = set()
    for st in loop.body:
        for x in ast.walk(st):
            body_nodes.add(id(x))
    targets = {x.id for x in ast.walk(loop.target) if isinstance(x, ast.Name)}
    assigned = {}
    for st in loop.body:
        for x in ast.walk(st):
            if isinstance(x, ast.Name) and isinstance(x.ctx, ast.Store) and x.id not in targets:
                assigned.setdefault(x.id, []).append(x)
            if isinstance(x, (ast.For, ast.comprehension)):
                for y in ast.walk(x.target):
                    if isinstance(y, ast.Name):
                        targets.add(y.id)
    head = [n for n in cfg.nodes() if cfg.data(n)["kind"] == "loop" and cfg.data(n)["ast"] is loop]
    if not head:
        return []
    head = head[0]
    out = []
    aug_only, self_ref, plain = set(), set(), set()
    for st in loop.body:
        for x in ast.walk(st):
            if isinstance(x, ast.AugAssign) and isinstance(x.target, ast.Name):
                aug_only.add(x.target.id)
    for st in loop.body:
        for x in ast.walk(st):
            if isinstance(x, ast.Assign):
                reads = {y.id for y in ast.walk(x.value) if isinstance(y, ast.Name)}
                for t in x.targets:
                    for y in ast.walk(t):
                        if isinstance(y, ast.Name):
                            if y.id in reads:
                                self_ref.add(y.id)      # x = f(x, ...): accumulation
                            else:
                                plain.add(y.id)
    aug_only = (aug_only | self_ref) - plain
    for name in sorted(assigned):
        if name in targets or name in aug_only:
            continue            # loop variables; counters/accumulators written with += only are carried on purpose
        defs = [n for n in cfg.nodes() if cfg.data(n).get("ast") is not None and cfg.data(n)["kind"] in ("stmt", "loop") and
                any(isinstance(x, ast.Name) and x.id == name and isinstance(x.ctx, ast.Store) and id(x) in body_nodes
                    for x in (ast.walk(cfg.data(n)["ast"]) if cfg.data(n)["kind"] == "stmt" else
                              (ast.walk(cfg.data(n)["ast"].target) if isinstance(cfg.data(n)["ast"], ast.For) else [])))]
        # AugAssign counts as a read-modify-write: a use first
        uses = []
        for n in cfg.nodes():
            d = cfg.data(n)
            a = d.get("ast")
            if a is None or d["kind"] not in ("stmt", "test"):
                continue
            exprs = d.get("expr") or []
            reads = False
            for e in exprs:
                for x in ast.walk(e):
                    if isinstance(x, ast.Name) and x.id == name and isinstance(x.ctx, ast.Load) and id(x) in body_nodes:
                        reads = True
            if isinstance(a, ast.AugAssign) and isinstance(a.target, ast.Name) and a.target.id == name and id(a) in body_nodes:
                reads = True
            if reads:
                uses.append(n)
        for u in uses:
            through = [d_ for d_ in defs if d_ != u or not isinstance(cfg.data(u)["ast"], ast.AugAssign)]
            succ = cfg.succ_label(head, "true") or list(cfg.g.successors(head))
            leak = False
            for s0 in succ:
                if s0 == u or cfg.path(s0, u, avoid=[x for x in through if x != u] + [head]) is not None:
                    if s0 in through and s0 != u:
                        continue
                    leak = True
            if leak:
                out.append((name, u, assigned[name][0]))
                break
    return out


def path_condition(root, stmt):
    """[(test expression, polarity)] of the If statements enclosing `stmt` inside `root` (polarity True: stmt is in the body)"""
    out = []

    def rec(node, chain):
        if node is stmt:
            out.append(list(chain))
            return True
        if isinstance(node, ast.If):
            for b, pol in ((node.body, True), (node.orelse, False)):
                for ch in b:
                    if rec(ch, chain + [(node.test, pol)]):
                        return True
            return False
        for ch in ast.iter_child_nodes(node):
            if isinstance(ch, ast.AST) and rec(ch, chain):
                return True
        return False
    rec(root, [])
    return out[0] if out else None


def slice_names(fn, expr):
    """backward def-use closure (names) of an expression inside fn: names whose assignments can flow into it"""
    names, work = set(), [x.id for x in ast.walk(expr) if isinstance(x, ast.Name)]
    stmts = []
    while work:
        nm = work.pop()
        if nm in names:
            continue
        names.add(nm)
        for st in ast.walk(fn):
            val = None
            if isinstance(st, ast.Assign) and any(isinstance(y, ast.Name) and y.id == nm for t in st.targets for y in ast.walk(t)):
                val = st.value
            elif isinstance(st, (ast.For, ast.comprehension)) and any(isinstance(y, ast.Name) and y.id == nm for y in ast.walk(st.target)):
                val = st.iter
            elif isinstance(st, ast.Expr) and isinstance(st.value, ast.Call) and isinstance(st.value.func, ast.Attribute) and \
                    st.value.func.attr in ("append", "extend", "update") and isinstance(st.value.func.value, ast.Name) and st.value.func.value.id == nm:
                val = st.value
            if val is not None:
                stmts.append(st)
                work += [x.id for x in ast.walk(val) if isinstance(x, ast.Name)]
    return names, stmts


def _bool_leaves(e, out):
    if isinstance(e, ast.BoolOp):
        for v in e.values:
            _bool_leaves(v, out)
    elif isinstance(e, ast.UnaryOp) and isinstance(e.op, ast.Not):
        _bool_leaves(e.operand, out)
    else:
        out.append(e)
    return out


def _bool_eval(e, val):
    if isinstance(e, ast.BoolOp):
        vs = [_bool_eval(v, val) for v in e.values]
        return all(vs) if isinstance(e.op, ast.And) else any(vs)
    if isinstance(e, ast.UnaryOp) and isinstance(e.op, ast.Not):
        return not _bool_eval(e.operand, val)
    return val(e)


def norm_leaf(l):
    """(canonical leaf, negated): `b <= a` and `a >= b` are read as `not a < b` (total order; NaN operands are not modelled)"""
    if isinstance(l, ast.Compare) and len(l.ops) == 1:
        a, b, op = l.left, l.comparators[0], type(l.ops[0])
        if op is ast.Gt:
            return ast.Compare(left=b, ops=[ast.Lt()], comparators=[a]), False
        if op is ast.LtE:
            return ast.Compare(left=b, ops=[ast.Lt()], comparators=[a]), True
        if op is ast.GtE:
            return ast.Compare(left=a, ops=[ast.Lt()], comparators=[b]), True
        if op is ast.NotEq:
            return ast.Compare(left=a, ops=[ast.Eq()], comparators=[b]), True
        if op is ast.IsNot:
            return ast.Compare(left=a, ops=[ast.Is()], comparators=[b]), True
    return l, False


def subst_bool_locals(fn, expr, depth=3):
    """replace Name leaves that are locals bound exactly once in fn (`resume = not (t < 0)`) by their defining expression"""
    import copy
    if depth == 0:
        return expr

    class R(ast.NodeTransformer):
        def visit_Name(self, n):
            if not isinstance(n.ctx, ast.Load):
                return n
            defs = [st for st in ast.walk(fn) if isinstance(st, ast.Assign) and len(st.targets) == 1 and isinstance(st.targets[0], ast.Name)
                    and st.targets[0].id == n.id]
            others = [x for x in ast.walk(fn) if isinstance(x, ast.Name) and x.id == n.id and isinstance(x.ctx, (ast.Store, ast.Del))]
            params = [a.arg for a in fn.args.args + fn.args.kwonlyargs] if isinstance(fn, ast.FunctionDef) else []
            if len(defs) == 1 and len(others) == 1 and n.id not in params and isinstance(defs[0].value, (ast.BoolOp, ast.UnaryOp, ast.Compare, ast.Name, ast.Constant)):
                return subst_bool_locals(fn, copy.deepcopy(defs[0].value), depth - 1)
            return n
    return R().visit(copy.deepcopy(expr))


def sat_atom_values(fn, stmt, atom_pattern, env=None):
    """Truth values of the atom (a leaf condition matching `atom_pattern`) for which the If-conditions enclosing `stmt` in `fn` can all
    hold, the other leaf conditions being free; once-bound Boolean locals are replaced by their definition.  None: stmt not found."""
    import itertools
    pc = path_condition(fn, stmt)
    if pc is None:
        return None
    conds = [(subst_bool_locals(fn, t), pol) for t, pol in pc]
    leaves = []
    for t, _ in conds:
        _bool_leaves(t, leaves)
    is_atom = lambda l: match(atom_pattern, norm_leaf(l)[0], env) is not None      # noqa: E731
    keys = sorted({ast.unparse(norm_leaf(l)[0]) for l in leaves if not is_atom(l)})
    out = set()
    for av in (False, True):
        for combo in itertools.product([False, True], repeat=min(len(keys), 12)):
            table = dict(zip(keys, combo))
            val = lambda l: (av if is_atom(l) else table.get(ast.unparse(norm_leaf(l)[0]), False)) != norm_leaf(l)[1]      # noqa: E731
            if all(_bool_eval(t, val) == pol for t, pol in conds):
                out.add(av)
                break
    return out


def sat_assignments(fn, stmt, atom_patterns, env=None):
    """Set of truth-value tuples (one entry per pattern in atom_patterns) under which the If-conditions enclosing `stmt` in `fn` can all
    hold, the remaining leaf conditions being free.  A leaf is matched against the patterns after normalisation (norm_leaf); once-bound
    Boolean locals are replaced by their definitions.  None: stmt not found."""
    import itertools
    pc = path_condition(fn, stmt)
    if pc is None:
        return None
    conds = [(subst_bool_locals(fn, t), pol) for t, pol in pc]
    leaves = []
    for t, _ in conds:
        _bool_leaves(t, leaves)

    def which(l):
        l0 = norm_leaf(l)[0]
        for i, p in enumerate(atom_patterns):
            pats = (p,) if isinstance(p, str) else p
            if any(match(q, l0, env) is not None for q in pats):
                return i
        return None
    keys = sorted({ast.unparse(norm_leaf(l)[0]) for l in leaves if which(l) is None})
    out = set()
    for av in itertools.product([False, True], repeat=len(atom_patterns)):
        for combo in itertools.product([False, True], repeat=min(len(keys), 12)):
            table = dict(zip(keys, combo))

            def val(l, av=av, table=table):
                i = which(l)
                base = av[i] if i is not None else table.get(ast.unparse(norm_leaf(l)[0]), False)
                return base != norm_leaf(l)[1]
            if all(_bool_eval(t, val) == pol for t, pol in conds):
                out.add(av)
                break
    return out


def forced_label(cond, atom_pattern, value, env=None):
    """the branch (`true` / `false`) a test with condition `cond` takes whenever the atom has truth value `value`, whatever the other
    leaves are; None if the atom alone does not decide it"""
    import itertools
    leaves = _bool_leaves(cond, [])
    is_atom = lambda l: match(atom_pattern, norm_leaf(l)[0], env) is not None      # noqa: E731
    keys = sorted({ast.unparse(norm_leaf(l)[0]) for l in leaves if not is_atom(l)})
    if not any(is_atom(l) for l in leaves):
        return None
    out = set()
    for combo in itertools.product([False, True], repeat=min(len(keys), 12)):
        table = dict(zip(keys, combo))
        val = lambda l: (value if is_atom(l) else table.get(ast.unparse(norm_leaf(l)[0]), False)) != norm_leaf(l)[1]      # noqa: E731
        out.add(bool(_bool_eval(cond, val)))
    return {True: "true", False: "false"}[out.pop()] if len(out) == 1 else None


def cond_equiv(c1, c2):
    """+1 if the two conditions have the same truth table over their (normalised) leaf conditions, -1 if one is the negation of the
    other, 0 otherwise"""
    import itertools
    leaves = _bool_leaves(c1, []) + _bool_leaves(c2, [])
    keys = sorted({ast.unparse(norm_leaf(l)[0]) for l in leaves})
    if len(keys) > 10:
        return 0
    same = opp = True
    for combo in itertools.product([False, True], repeat=len(keys)):
        table = dict(zip(keys, combo))
        val = lambda l: table[ast.unparse(norm_leaf(l)[0])] != norm_leaf(l)[1]      # noqa: E731
        a, b = _bool_eval(c1, val), _bool_eval(c2, val)
        same = same and (a == b)
        opp = opp and (a != b)
    return 1 if same else (-1 if opp else 0)


def whole(expr):
    """the array an expression reads as a whole: `a[:]` and `a` denote the same values"""
    while isinstance(expr, ast.Subscript) and isinstance(expr.slice, ast.Slice) and expr.slice.lower is None and expr.slice.upper is None \
            and expr.slice.step is None:
        expr = expr.value
    return expr


def negated(expr):
    """operand of a negation, whatever spells it (`-a`, `-a[:]`, `np.negative(a)`, `-1 * a`, `a * -1`), else None"""
    if isinstance(expr, ast.UnaryOp) and isinstance(expr.op, ast.USub):
        return whole(expr.operand)
    if isinstance(expr, ast.Call) and (ast.unparse(expr.func) in ("np.negative", "numpy.negative")) and len(expr.args) == 1 and not expr.keywords:
        return whole(expr.args[0])
    if isinstance(expr, ast.BinOp) and isinstance(expr.op, ast.Mult):
        for a, b in ((expr.left, expr.right), (expr.right, expr.left)):
            if isinstance(a, ast.UnaryOp) and isinstance(a.op, ast.USub) and isinstance(a.operand, ast.Constant) and a.operand.value == 1:
                return whole(b)
    return None


def copies_into(stmt):
    """(destination, source) when the statement overwrites every element of an array in place: `d[:] = s` or `np.copyto(d, s)`"""
    if isinstance(stmt, ast.Assign) and len(stmt.targets) == 1 and isinstance(stmt.targets[0], ast.Subscript) \
            and whole(stmt.targets[0]) is not stmt.targets[0]:
        return whole(stmt.targets[0]), stmt.value
    if isinstance(stmt, ast.Expr) and isinstance(stmt.value, ast.Call) and ast.unparse(stmt.value.func) in ("np.copyto", "numpy.copyto") \
            and len(stmt.value.args) == 2 and not stmt.value.keywords:
        return stmt.value.args[0], stmt.value.args[1]
    return None


def length_of(expr):
    """the sequence whose (first-axis) length an expression reads: `len(a)`, `a.shape[0]`, `np.size(a, 0)`; else None"""
    if isinstance(expr, ast.Call) and isinstance(expr.func, ast.Name) and expr.func.id == "len" and len(expr.args) == 1:
        return expr.args[0]
    if isinstance(expr, ast.Subscript) and isinstance(expr.value, ast.Attribute) and expr.value.attr == "shape" \
            and isinstance(expr.slice, ast.Constant) and expr.slice.value == 0:
        return expr.value.value
    return None


def rows_from(expr):
    """(array, start) for a slice that keeps the rows from `start` on, with all columns: `a[k:]`, `a[k:, :]`, `a[k:, ...]`; else None"""
    if not isinstance(expr, ast.Subscript):
        return None
    sl = expr.slice
    if isinstance(sl, ast.Tuple) and len(sl.elts) == 2:
        rest = sl.elts[1]
        full = (isinstance(rest, ast.Slice) and rest.lower is None and rest.upper is None and rest.step is None) or \
            (isinstance(rest, ast.Constant) and rest.value is Ellipsis)
        if not full:
            return None
        sl = sl.elts[0]
    if isinstance(sl, ast.Slice) and sl.lower is not None and sl.upper is None and sl.step is None:
        return expr.value, sl.lower
    return None


def is_empty_mapping(expr):
    """`{}`, `dict()`, `OrderedDict()` (insertion-ordered, empty)"""
    if isinstance(expr, ast.Dict) and not expr.keys:
        return True
    return isinstance(expr, ast.Call) and not expr.args and not expr.keywords and ast.unparse(expr.func).split(".")[-1] in ("dict", "OrderedDict")
