"""Symbolic equilibrium obligations: for a model, substitute explicit initialisers (in init_seq order) into every
state equation and every internal algebraic equation under 'inside limits, online' flags; the residual must be 0."""
import signal

import sympy as sp

from . import dsl


class Timeout(Exception):
    pass


def _alarm(sig, frm):
    raise Timeout()


def model_obligations(name, m, init_seq, budget=6):
    st = dsl.SymTab(m)
    # flags: limiter-type discrete inside; status online
    val = {}
    for dn, d in m.discrete.items():
        cls = type(d).__name__
        for fn_ in d.get_names():
            if fn_ not in st:
                continue
            suf = fn_.split("_")[-1]
            if cls in ("Limiter", "HardLimiter", "AntiWindup", "AntiWindupRate", "SortedLimiter", "RateLimiter", "DeadBand", "DeadBandRT"):
                v = {"zi": 1, "zl": 0, "zu": 0, "zur": 0, "zlr": 0, "ql": 0, "qu": 0, "zu0": 0, "zl0": 0}.get(suf)
                if v is not None:
                    if cls in ("DeadBand", "DeadBandRT") and suf == "zi":
                        v = 1
                    val[st.get(fn_)] = sp.Integer(v)
    for uname in ("u", "ue"):
        if uname in st:
            val[st.get(uname)] = sp.Integer(1)
    # services (explicit chain) -- ConstService / VarService with v_str
    svc = {}
    for sn, s_ in m.services.items():
        if s_.v_str is not None and getattr(s_, "v_numeric", None) is None and type(s_).__name__ in ("ConstService", "VarService"):
            try:
                svc[st.get(sn)] = dsl.parse_dsl(s_.v_str, st)
            except dsl.DSLError:
                pass
    # initial values in init_seq order
    init = {}
    flat = []
    for it in init_seq:
        flat += it if isinstance(it, list) else [it]
    iterative = {x for it in init_seq if isinstance(it, list) for x in it}
    V = m.cache.all_vars
    for vn in flat:
        if vn not in V or vn in iterative:
            continue
        v = V[vn]
        if vn not in m.cache.vars_int:
            continue
        if v.v_str is None or getattr(v, "v_str_add", False) or v.v_iter is not None:
            continue
        try:
            e = dsl.parse_dsl(v.v_str, st)
        except dsl.DSLError:
            continue
        init[st.get(vn)] = e.xreplace(val).xreplace(init)
    out = []
    for vn, v in m.cache.vars_int.items():
        if v.e_str is None:
            continue
        key = "%s.%s" % (name, vn)
        if st.get(vn) not in init:
            out.append((key, "skipped", "no explicit initialiser"))
            continue
        try:
            e = dsl.parse_dsl(v.e_str, st)
        except dsl.DSLError as ex:
            out.append((key, "skipped", "front-end: %s" % ex))
            continue
        e = e.xreplace(val).xreplace(init)
        t = sp.Symbol("dae_t")
        # dynamic regime: t >= 0
        e = e.replace(lambda x: isinstance(x, dsl.Indicator) and x.args[0].free_symbols == {t},
                      lambda x: sp.S.One if bool(x.args[0].subs(t, 1)) else sp.S.Zero)
        signal.signal(signal.SIGALRM, _alarm)
        signal.alarm(budget)
        try:
            r = sp.expand(e)
            if r != 0:
                for _ in range(4):
                    hit = r.free_symbols & set(svc)
                    if not hit:
                        break
                    r = sp.expand(r.xreplace({k: svc[k] for k in hit}).xreplace(val))
                    if r == 0:
                        break
            if r != 0:
                r = sp.cancel(sp.together(dsl.norm_floats(r)))
            signal.alarm(0)
        except Timeout:
            out.append((key, "timeout", ""))
            continue
        except Exception as ex:
            signal.alarm(0)
            out.append((key, "error", repr(ex)[:80]))
            continue
        if r == 0:
            out.append((key, "zero", ""))
        else:
            signal.alarm(budget)
            try:
                nz = dsl.numeric_nonzero(r)
                signal.alarm(0)
            except Timeout:
                nz = None
            except Exception:
                signal.alarm(0)
                nz = None
            out.append((key, "nonzero" if nz else "open", str(r)[:160]))
    return out


def _work(args):
    name, init_seq = args
    from . import elab
    m = elab.load_models()[name]
    return model_obligations(name, m, init_seq)


def all_obligations(models, gens, jobs=16):
    import multiprocessing as mp
    import os
    names = [n for n, m in models.items() if m.flags.tds and len(m.states) + len(m.algebs) > 0]
    args = [(n, gens[n].tables.get("init_seq", [])) for n in names]
    ctx = mp.get_context("fork")
    with ctx.Pool(int(os.environ.get("VERIF_JOBS", 0)) or jobs) as pool:
        res = pool.map(_work, args, chunksize=1)
    out = []
    for r in res:
        out += r
    return out
