"""Plain Python arithmetic expression (AST) -> sympy polynomial over its dotted names.
Used for straight-line numeric code such as integrator residuals and address arithmetic."""
import ast

import sympy as sp

from .pysrc import dotted


class PyExprError(Exception):
    pass


def to_sympy(node, rename=None, funcs=None):
    rename = dict(rename or {})
    funcs = funcs or {}
    # names in `rename` are the pinned tree's local names; alias locals are resolved in the program (engine/alpha.py)
    from . import alpha
    _key, _al = alpha.pattern_aliases(node)
    for k in list(rename):
        r = k.split(".")[0]
        if r in _al:
            rename.setdefault(_al[r] + k[len(r):], rename[k])

    def w(n):
        if isinstance(n, ast.Constant) and isinstance(n.value, (int, float)) and not isinstance(n.value, bool):
            return sp.nsimplify(n.value) if isinstance(n.value, float) else sp.Integer(n.value)
        if isinstance(n, (ast.Name, ast.Attribute)):
            d = dotted(n)
            if d is None:
                raise PyExprError(ast.dump(n))
            d = rename.get(d, d)
            return d if isinstance(d, sp.Basic) else sp.Symbol(d)
        if isinstance(n, ast.BinOp):
            a, b = w(n.left), w(n.right)
            if isinstance(n.op, ast.Add):
                return a + b
            if isinstance(n.op, ast.Sub):
                return a - b
            if isinstance(n.op, ast.Mult):
                return a * b
            if isinstance(n.op, ast.Div):
                return a / b
            if isinstance(n.op, ast.Pow):
                return a ** b
            raise PyExprError("op %s" % type(n.op).__name__)
        if isinstance(n, ast.UnaryOp):
            if isinstance(n.op, ast.USub):
                return -w(n.operand)
            if isinstance(n.op, ast.UAdd):
                return w(n.operand)
            raise PyExprError("unary")
        if isinstance(n, ast.Call):
            f = dotted(n.func)
            if f in funcs:
                return funcs[f](*[w(a) for a in n.args])
            raise PyExprError("call %s" % f)
        raise PyExprError(type(n).__name__)
    return w(node)
