"""Array-capable interpreter for the history components (Delay, Average, Derivative, Sampling).

Walks the method AST (if/elif chains, slice assignments, a NumPy subset) over a state whose arrays are small real NumPy
object arrays: time stamps are concrete representatives of an order type, signal values are sympy symbols.  The output is
therefore a symbolic expression in the input samples, compared with the component's definition.
Only the constructs these four classes use are supported; anything else raises Unsupported (=> UNDECIDED)."""
import ast

import numpy as np
import sympy as sp

from .ordertype import Unsupported
from .pysrc import dotted


class Ret(Exception):
    pass


def _np_funcs():
    def interp_n2(t, x, y):
        # linear interpolation between two samples (andes.utils.func.interp_n2)
        return y[:, 0] + (t - x[0]) * (y[:, 1] - y[:, 0]) / (x[1] - x[0])
    return {
        "np.append": lambda a, b: np.append(a, b), "np.hstack": lambda t: np.hstack(t), "np.delete": lambda a, i, axis=None: np.delete(a, i, axis=axis),
        "np.arange": lambda *a: np.arange(*a), "np.argmax": lambda a: int(np.argmax(a)), "np.sum": lambda a, axis=None: np.sum(a, axis=axis),
        "np.abs": lambda a: abs(a) if not isinstance(a, np.ndarray) else np.vectorize(lambda z: sp.Abs(z) if isinstance(z, sp.Basic) else abs(z), otypes=[object])(a),
        "np.where": lambda c: np.where(np.array(c, dtype=bool)), "len": len, "interp_n2": interp_n2,
        "bool": bool, "int": int, "float": float, "abs": abs, "min": min, "max": max, "range": range, "list": list, "tuple": tuple,
        "enumerate": enumerate, "zip": zip, "sum": sum, "any": any, "all": all, "round": round,
        "np.zeros_like": lambda a: np.zeros_like(a), "np.ones_like": lambda a: np.ones_like(a), "np.copy": lambda a: np.copy(a),
        "np.asarray": lambda a, **k: np.asarray(a), "np.equal": lambda a, b: np.equal(a, b), "np.less": lambda a, b: np.less(a, b),
        "np.greater": lambda a, b: np.greater(a, b), "np.logical_and": lambda a, b: np.logical_and(a, b),
        "np.logical_or": lambda a, b: np.logical_or(a, b), "np.logical_not": lambda a: np.logical_not(a),
        "np.searchsorted": lambda a, v, **k: int(np.searchsorted(a, v, **k)), "np.interp": None, "np.isclose": lambda a, b, **k: np.isclose(a, b, **k),
        "np.concatenate": lambda t, **k: np.concatenate(t, **k), "np.roll": lambda a, k_, **kw: np.roll(a, k_, **kw), "np.diff": lambda a, **k: np.diff(a, **k),
        "np.mean": lambda a, **k: np.mean(a, **k), "np.dot": lambda a, b: np.dot(a, b), "np.trapz": lambda y, x=None, **k: np.trapz(y, x, **k),
        "np.zeros": lambda *a, **k: np.zeros(*a), "np.array": lambda a, **k: np.array(a), "np.ones": lambda *a, **k: np.ones(*a),
    }


class AInterp:
    def __init__(self, repo, cls, path, obj):
        self.repo, self.cls, self.path = repo, cls, path
        self.o = obj            # dict attr -> value  (self.<attr>)
        self.funcs = _np_funcs()

    def ev(self, n, loc):
        if isinstance(n, ast.Constant):
            return n.value
        if isinstance(n, ast.Name):
            if n.id in loc:
                return loc[n.id]
            if n.id in ("None", "True", "False"):
                return {"None": None, "True": True, "False": False}[n.id]
            raise Unsupported("unbound %s" % n.id)
        if isinstance(n, ast.Attribute):
            d = dotted(n)
            if d and d.startswith("self."):
                key = d[5:]
                if key in self.o:
                    return self.o[key]
            base = self.ev(n.value, loc)
            if n.attr == "T":
                return base.T
            raise Unsupported("attribute %s" % d)
        if isinstance(n, ast.Subscript):
            base = self.ev(n.value, loc)
            return base[self.index(n.slice, loc)]
        if isinstance(n, ast.BinOp):
            a, b = self.ev(n.left, loc), self.ev(n.right, loc)
            op = type(n.op)
            if op is ast.Add:
                return a + b
            if op is ast.Sub:
                return a - b
            if op is ast.Mult:
                return a * b
            if op is ast.Div:
                return a / b
            raise Unsupported("binop")
        if isinstance(n, ast.UnaryOp):
            v = self.ev(n.operand, loc)
            if isinstance(n.op, ast.USub):
                return -v
            if isinstance(n.op, ast.Not):
                return not v
            raise Unsupported("unary")
        if isinstance(n, ast.Compare):
            l = self.ev(n.left, loc)
            r = self.ev(n.comparators[0], loc)
            op = type(n.ops[0])
            if isinstance(l, np.ndarray) and l.dtype == object and op in (ast.Lt, ast.LtE) and isinstance(r, (int, float)) and r < 1e-6 \
                    and all(isinstance(x, sp.Abs) or (isinstance(x, sp.Basic) and x.is_nonnegative and x.free_symbols) for x in l.ravel()):
                # generic-position assumption: a symbolic magnitude is not within a numerical dead zone of zero
                return np.zeros(l.shape, dtype=bool)
            if isinstance(l, np.ndarray) and l.size == 1 and not isinstance(r, np.ndarray):
                l = l.ravel()[0]
            if isinstance(r, np.ndarray) and r.size == 1 and not isinstance(l, np.ndarray):
                r = r.ravel()[0]
            sym = [x for x in (l, r) if isinstance(x, sp.Basic) and x.free_symbols]
            if sym:
                # generic-position assumption: a symbolic magnitude is not within a numerical dead zone of zero
                if op in (ast.Lt, ast.LtE) and isinstance(l, sp.Abs) and isinstance(r, (int, float)) and r < 1e-6:
                    return False
                raise Unsupported("comparison of a symbolic value: %s" % ast.unparse(n))
            table = {ast.Eq: lambda: l == r, ast.NotEq: lambda: l != r, ast.Lt: lambda: l < r, ast.LtE: lambda: l <= r,
                     ast.Gt: lambda: l > r, ast.GtE: lambda: l >= r, ast.Is: lambda: l is r, ast.IsNot: lambda: l is not r}
            if op not in table:
                raise Unsupported("cmp")
            return table[op]()
        if isinstance(n, ast.BoolOp):
            vals = [self.ev(v, loc) for v in n.values]
            return all(vals) if isinstance(n.op, ast.And) else any(vals)
        if isinstance(n, ast.Tuple):
            return tuple(self.ev(e, loc) for e in n.elts)
        if isinstance(n, ast.List):
            return [self.ev(e, loc) for e in n.elts]
        if isinstance(n, ast.Call):
            f = dotted(n.func)
            if f in self.funcs and self.funcs[f] is not None:
                args = [self.ev(a, loc) for a in n.args]
                kw = {k.arg: self.ev(k.value, loc) for k in n.keywords if k.arg}
                return self.funcs[f](*args, **kw)
            if isinstance(n.func, ast.Attribute) and n.func.attr in ("copy", "tolist", "ravel", "any", "all", "flatten", "item", "sum", "max", "min"):
                base = self.ev(n.func.value, loc)
                if isinstance(base, np.ndarray):
                    return getattr(base, n.func.attr)(*[self.ev(a, loc) for a in n.args])
            raise Unsupported("call %s" % f)
        if isinstance(n, ast.IfExp):
            return self.ev(n.body, loc) if self.ev(n.test, loc) else self.ev(n.orelse, loc)
        raise Unsupported(type(n).__name__)

    def index(self, s, loc):
        if isinstance(s, ast.Tuple):
            return tuple(self.index(e, loc) for e in s.elts)
        if isinstance(s, ast.Slice):
            return slice(self.ev(s.lower, loc) if s.lower else None, self.ev(s.upper, loc) if s.upper else None,
                         self.ev(s.step, loc) if s.step else None)
        return self.ev(s, loc)

    def store(self, t, val, loc):
        if isinstance(t, (ast.Tuple, ast.List)):
            for tt, vv in zip(t.elts, val):
                self.store(tt, vv, loc)
            return
        if isinstance(t, ast.Name):
            loc[t.id] = val
            return
        if isinstance(t, ast.Attribute) and (dotted(t) or "").startswith("self."):
            self.o[dotted(t)[5:]] = val
            return
        if isinstance(t, ast.Subscript):
            base = self.ev(t.value, loc)
            base[self.index(t.slice, loc)] = val
            return
        raise Unsupported("store")

    def run(self, stmts, loc):
        for st in stmts:
            if isinstance(st, ast.Expr):
                v = st.value
                if isinstance(v, ast.Constant):
                    continue
                if isinstance(v, ast.Call):
                    d = dotted(v.func) or ""
                    parts = d.split(".")
                    if len(parts) == 2 and parts[0] in self.repo.classes and v.args and dotted(v.args[0]) == "self":
                        ci, fn = self.repo.method(parts[0], parts[1])
                        a = [x.arg for x in fn.args.args][1:]
                        new = dict(zip(a, [self.ev(x, loc) for x in v.args[1:] if not isinstance(x, ast.Starred)]))
                        try:
                            self.run(fn.body, new)
                        except Ret:
                            pass
                        continue
                    if d.startswith("logger."):
                        continue
                raise Unsupported("expr stmt")
            elif isinstance(st, ast.Assign):
                val = self.ev(st.value, loc)
                for t in st.targets:
                    self.store(t, val, loc)
            elif isinstance(st, ast.AugAssign):
                cur = self.ev(st.target, loc)
                val = self.ev(ast.BinOp(left=ast.Constant(value=0), op=st.op, right=ast.Constant(value=0)), loc) if False else None
                rhs = self.ev(st.value, loc)
                op = type(st.op)
                new = cur + rhs if op is ast.Add else cur - rhs if op is ast.Sub else cur * rhs if op is ast.Mult else cur / rhs if op is ast.Div else None
                if new is None:
                    raise Unsupported("augassign")
                if isinstance(cur, np.ndarray) and isinstance(st.target, (ast.Name, ast.Attribute)):
                    cur[...] = new
                else:
                    self.store(st.target, new, loc)
            elif isinstance(st, ast.For):
                n_it = 0
                for item in self.ev(st.iter, loc):
                    n_it += 1
                    if n_it > 200:
                        raise Unsupported("long loop")
                    self.store(st.target, item, loc)
                    self.run(st.body, loc)
            elif isinstance(st, ast.If):
                if self.ev(st.test, loc):
                    self.run(st.body, loc)
                else:
                    self.run(st.orelse, loc)
            elif isinstance(st, ast.Return):
                raise Ret()
            elif isinstance(st, ast.Pass):
                pass
            else:
                raise Unsupported("stmt %s" % type(st).__name__)

    def call(self, meth, **kw):
        ci, fn = self.repo.method(self.cls, meth, self.path)
        try:
            self.run(fn.body, dict(kw))
        except Ret:
            pass
