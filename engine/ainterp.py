"""Array-capable interpreter for the history components (Delay, Average, Derivative, Sampling).

Walks the method AST (if/elif chains, slice assignments, a NumPy subset) over a state whose arrays are small real NumPy
object arrays: time stamps are concrete representatives of an order type, signal values are sympy symbols.  The output is
therefore a symbolic expression in the input samples, compared with the component's definition.
Only the constructs these four classes use are supported; anything else raises Unsupported (=> UNDECIDED)."""
import ast

import numpy as np
import sympy as sp

from .ordertype import Unsupported
from .pysrc import dotted


class Ret(Exception):
    pass


def _np_funcs():
    def interp_n2(t, x, y):
        # linear interpolation between two samples (andes.utils.func.interp_n2)
        return y[:, 0] + (t - x[0]) * (y[:, 1] - y[:, 0]) / (x[1] - x[0])
    return {
        "np.append": lambda a, b: np.append(a, b), "np.hstack": lambda t: np.hstack(t), "np.delete": lambda a, i, axis=None: np.delete(a, i, axis=axis),
        "np.arange": lambda *a: np.arange(*a), "np.argmax": lambda a: int(np.argmax(a)), "np.sum": lambda a, axis=None: np.sum(a, axis=axis),
        "np.abs": lambda a: abs(a) if not isinstance(a, np.ndarray) else np.vectorize(lambda z: sp.Abs(z) if isinstance(z, sp.Basic) else abs(z), otypes=[object])(a),
        "np.where": lambda c: np.where(np.array(c, dtype=bool)), "len": len, "interp_n2": interp_n2,
        "np.zeros": lambda *a, **k: np.zeros(*a), "np.array": lambda a, **k: np.array(a), "np.ones": lambda *a, **k: np.ones(*a),
    }


class AInterp:
    def __init__(self, repo, cls, path, obj):
        self.repo, self.cls, self.path = repo, cls, path
        self.o = obj            # dict attr -> value  (self.<attr>)
        self.funcs = _np_funcs()

    def ev(self, n, loc):
        if isinstance(n, ast.Constant):
            return n.value
        if isinstance(n, ast.Name):
            if n.id in loc:
                return loc[n.id]
            if n.id in ("None", "True", "False"):
                return {"None": None, "True": True, "False": False}[n.id]
            raise Unsupported("unbound %s" % n.id)
        if isinstance(n, ast.Attribute):
            d = dotted(n)
            if d and d.startswith("self."):
                key = d[5:]
                if key in self.o:
                    return self.o[key]
            base = self.ev(n.value, loc)
            if n.attr == "T":
                return base.T
            raise Unsupported("attribute %s" % d)
        if isinstance(n, ast.Subscript):
            base = self.ev(n.value, loc)
            return base[self.index(n.slice, loc)]
        if isinstance(n, ast.BinOp):
            a, b = self.ev(n.left, loc), self.ev(n.right, loc)
            op = type(n.op)
            if op is ast.Add:
                return a + b
            if op is ast.Sub:
                return a - b
            if op is ast.Mult:
                return a * b
            if op is ast.Div:
                return a / b
            raise Unsupported("binop")
        if isinstance(n, ast.UnaryOp):
            v = self.ev(n.operand, loc)
            if isinstance(n.op, ast.USub):
                return -v
            if isinstance(n.op, ast.Not):
                return not v
            raise Unsupported("unary")
        if isinstance(n, ast.Compare):
            l = self.ev(n.left, loc)
            r = self.ev(n.comparators[0], loc)
            op = type(n.ops[0])
            if isinstance(l, np.ndarray) and l.dtype == object and op in (ast.Lt, ast.LtE) and isinstance(r, (int, float)) and r < 1e-6 \
                    and all(isinstance(x, sp.Abs) or (isinstance(x, sp.Basic) and x.is_nonnegative and x.free_symbols) for x in l.ravel()):
                # generic-position assumption: a symbolic magnitude is not within a numerical dead zone of zero
                return np.zeros(l.shape, dtype=bool)
            if isinstance(l, np.ndarray) and l.size == 1 and not isinstance(r, np.ndarray):
                l = l.ravel()[0]
            if isinstance(r, np.ndarray) and r.size == 1 and not isinstance(l, np.ndarray):
                r = r.ravel()[0]
            sym = [x for x in (l, r) if isinstance(x, sp.Basic) and x.free_symbols]
            if sym:
                # generic-position assumption: a symbolic magnitude is not within a numerical dead zone of zero
                if op in (ast.Lt, ast.LtE) and isinstance(l, sp.Abs) and isinstance(r, (int, float)) and r < 1e-6:
                    return False
                raise Unsupported("comparison of a symbolic value: %s" % ast.unparse(n))
            table = {ast.Eq: lambda: l == r, ast.NotEq: lambda: l != r, ast.Lt: lambda: l < r, ast.LtE: lambda: l <= r,
                     ast.Gt: lambda: l > r, ast.GtE: lambda: l >= r, ast.Is: lambda: l is r, ast.IsNot: lambda: l is not r}
            if op not in table:
                raise Unsupported("cmp")
            return table[op]()
        if isinstance(n, ast.BoolOp):
            vals = [self.ev(v, loc) for v in n.values]
            return all(vals) if isinstance(n.op, ast.And) else any(vals)
        if isinstance(n, ast.Tuple):
            return tuple(self.ev(e, loc) for e in n.elts)
        if isinstance(n, ast.List):
            return [self.ev(e, loc) for e in n.elts]
        if isinstance(n, ast.Call):
            f = dotted(n.func)
            if f in self.funcs:
                args = [self.ev(a, loc) for a in n.args]
                kw = {k.arg: self.ev(k.value, loc) for k in n.keywords if k.arg}
                return self.funcs[f](*args, **kw)
            raise Unsupported("call %s" % f)
        raise Unsupported(type(n).__name__)

    def index(self, s, loc):
        if isinstance(s, ast.Tuple):
            return tuple(self.index(e, loc) for e in s.elts)
        if isinstance(s, ast.Slice):
            return slice(self.ev(s.lower, loc) if s.lower else None, self.ev(s.upper, loc) if s.upper else None,
                         self.ev(s.step, loc) if s.step else None)
        return self.ev(s, loc)

    def store(self, t, val, loc):
        if isinstance(t, ast.Name):
            loc[t.id] = val
            return
        if isinstance(t, ast.Attribute) and (dotted(t) or "").startswith("self."):
            self.o[dotted(t)[5:]] = val
            return
        if isinstance(t, ast.Subscript):
            base = self.ev(t.value, loc)
            base[self.index(t.slice, loc)] = val
            return
        raise Unsupported("store")

    def run(self, stmts, loc):
        for st in stmts:
            if isinstance(st, ast.Expr):
                v = st.value
                if isinstance(v, ast.Constant):
                    continue
                if isinstance(v, ast.Call):
                    d = dotted(v.func) or ""
                    parts = d.split(".")
                    if len(parts) == 2 and parts[0] in self.repo.classes and v.args and dotted(v.args[0]) == "self":
                        ci, fn = self.repo.method(parts[0], parts[1])
                        a = [x.arg for x in fn.args.args][1:]
                        new = dict(zip(a, [self.ev(x, loc) for x in v.args[1:] if not isinstance(x, ast.Starred)]))
                        try:
                            self.run(fn.body, new)
                        except Ret:
                            pass
                        continue
                    if d.startswith("logger."):
                        continue
                raise Unsupported("expr stmt")
            elif isinstance(st, ast.Assign):
                val = self.ev(st.value, loc)
                for t in st.targets:
                    self.store(t, val, loc)
            elif isinstance(st, ast.If):
                if self.ev(st.test, loc):
                    self.run(st.body, loc)
                else:
                    self.run(st.orelse, loc)
            elif isinstance(st, ast.Return):
                raise Ret()
            elif isinstance(st, ast.Pass):
                pass
            else:
                raise Unsupported("stmt %s" % type(st).__name__)

    def call(self, meth, **kw):
        ci, fn = self.repo.method(self.cls, meth, self.path)
        try:
            self.run(fn.body, dict(kw))
        except Ret:
            pass
