"""Front-end for the *generated* pycode/<Model>.py sources (text only)."""
import ast
import os
from collections import OrderedDict

from .report import AnalysisError


class GenFunc:
    def __init__(self, node):
        self.name = node.name
        self.params = [a.arg for a in node.args.args]
        self.node = node
        rets = [n for n in node.body if isinstance(n, ast.Return)]
        self.ret = rets[0].value if len(rets) == 1 and len(node.body) == 1 else None

    def elements(self):
        """list of element AST nodes of the returned tuple (or [ret] for a scalar)."""
        r = self.ret
        if isinstance(r, ast.Tuple):
            return list(r.elts)
        return [r]

    def matrix(self):
        """rows of `array([[..],[..]])` returns."""
        r = self.ret
        if isinstance(r, ast.Call) and ast.unparse(r.func) == "array" and isinstance(r.args[0], ast.List):
            return [list(row.elts) if isinstance(row, ast.List) else [row] for row in r.args[0].elts]
        return None


def _lit(node):
    """literal evaluator that understands OrderedDict([...]) and array([...])."""
    if isinstance(node, ast.Call):
        f = ast.unparse(node.func)
        if f == "OrderedDict":
            if not node.args:
                return OrderedDict()
            return OrderedDict(_lit(node.args[0]))
        if f == "array":
            return _lit(node.args[0])
        raise ValueError("call %s in literal" % f)
    if isinstance(node, (ast.List, ast.Tuple)):
        v = [_lit(e) for e in node.elts]
        return v if isinstance(node, ast.List) else tuple(v)
    if isinstance(node, ast.Dict):
        return {_lit(k): _lit(v) for k, v in zip(node.keys, node.values)}
    return ast.literal_eval(node)


class GenModule:
    def __init__(self, path):
        self.path = path
        with open(path) as f:
            self.text = f.read()
        try:
            tree = ast.parse(self.text)
        except SyntaxError as e:
            raise AnalysisError("generated file %s does not parse: %s" % (path, e))
        self.funcs = OrderedDict()
        self.tables = {}
        self.imports = set()
        for n in tree.body:
            if isinstance(n, ast.FunctionDef):
                self.funcs[n.name] = GenFunc(n)
            elif isinstance(n, ast.Assign) and len(n.targets) == 1 and isinstance(n.targets[0], ast.Name):
                try:
                    self.tables[n.targets[0].id] = _lit(n.value)
                except Exception as e:
                    raise AnalysisError("table %s in %s not a literal: %s" % (n.targets[0].id, path, e))
            elif isinstance(n, ast.ImportFrom):
                for a in n.names:
                    self.imports.add(a.name)


def load_dir(d, names):
    out = {}
    for n in names:
        p = os.path.join(d, n + ".py")
        if not os.path.exists(p):
            raise AnalysisError("generator produced no file for model %s" % n)
        out[n] = GenModule(p)
    return out
