"""Tiny evaluator for small pure scalar functions of the repository (string -> number coercion and the like).

Walks the function's AST over ordinary Python values; supports assignments to names and to `self.__dict__[k]`, if/elif/else,
try/except with named built-in exception types, return, pass, calls of a few safe builtins, and calls of other small methods of the
same class (`self._helper(x)`, `Class._helper(x)`), which are resolved through the class table and evaluated the same way -- so a
helper split off from the function is invisible.  Anything else raises Unsupported (=> UNDECIDED)."""
import ast

from .ordertype import Unsupported
from .pysrc import dotted

SAFE = {"hasattr": hasattr, "getattr": getattr, "dict": dict, "zip": zip, "tuple": tuple, "set": set, "sorted": sorted, "max": max,
        "min": min, "any": any, "all": all, "print": lambda *a, **k: None, "list": list, "range": range, "sum": sum, "int": int, "float": float, "str": str, "bool": bool, "len": len, "isinstance": isinstance, "abs": abs, "repr": repr, "type": type}
EXC = {"NotImplementedError": NotImplementedError, "IndexError": IndexError, "RuntimeError": RuntimeError, "ValueError": ValueError, "TypeError": TypeError, "KeyError": KeyError, "AttributeError": AttributeError, "Exception": Exception,
       "OverflowError": OverflowError}
TYPES = {"str": str, "int": int, "float": float, "bool": bool, "list": list, "tuple": tuple, "dict": dict}


class LoopBound(Unsupported):
    """a while loop of the evaluated code ran 10 000 iterations on a stand-in input of a handful of elements"""


class _Break(Exception):
    pass


class _Continue(Exception):
    pass


class _Return(Exception):
    def __init__(self, v):
        self.v = v


class Self:
    def __init__(self):
        self.d = {}


class FuncRef:
    """a module-level function of the repository as a value (e.g. `target=run_case`)"""
    def __init__(self, ex, fn):
        self.ex, self.fn = ex, fn

    def __call__(self, *args, **kwargs):
        return TinyExec(self.ex.repo, self.ex.cls, self.ex.path, self.ex.depth + 1, self.ex.stubs).call_function(self.fn, list(args), kwargs)


class Fake:
    """marker base class: objects supplied by a rule whose attributes and methods the evaluated code may use"""


class TinyExec:
    def __init__(self, repo, cls, path, depth=0, stubs=None):
        self.repo, self.cls, self.path, self.depth = repo, cls, path, depth
        self.stubs = stubs or {}

    def _modfunc(self, name):
        return self.repo.funcs.get(self.path, {}).get(name) if self.path else None

    def call_function(self, fn, args, kwargs, selfobj=None):
        """call a module-level function node with Python values (positional, keyword, keyword-only, **kwargs supported)"""
        a = fn.args
        if a.vararg or a.posonlyargs:
            raise Unsupported("signature of %s" % fn.name)
        names = [x.arg for x in a.args]
        env = {}
        if len(args) > len(names):
            raise Unsupported("too many positional arguments for %s" % fn.name)
        for p, v in zip(names, args):
            env[p] = v
        extra = {}
        kwnames = names + [x.arg for x in a.kwonlyargs]
        for k, v in kwargs.items():
            if k in kwnames:
                env[k] = v
            elif a.kwarg:
                extra[k] = v
            else:
                raise Unsupported("unexpected keyword %s for %s" % (k, fn.name))
        defaults = dict(zip(names[len(names) - len(a.defaults):], a.defaults))
        defaults.update({x.arg: d for x, d in zip(a.kwonlyargs, a.kw_defaults) if d is not None})
        for p in kwnames:
            if p not in env:
                if p in defaults:
                    env[p] = self.ev(defaults[p], {}, selfobj)
                else:
                    raise Unsupported("missing argument %s" % p)
        if a.kwarg:
            env[a.kwarg.arg] = extra
        try:
            self.run(fn.body, env, selfobj)
        except _Return as r:
            return r.v
        return None

    def call(self, meth, selfobj, *args, **kwargs):
        ci, fn = self.repo.method(self.cls, meth, self.path)
        deco = {dotted(d) for d in fn.decorator_list}
        if "staticmethod" in deco:
            return self.call_function(fn, list(args), kwargs, selfobj)
        return self.call_function(fn, [selfobj] + list(args), kwargs, selfobj)

    def run(self, stmts, env, so):
        for st in stmts:
            if isinstance(st, ast.Expr):
                if not isinstance(st.value, ast.Constant):
                    self.ev(st.value, env, so)
            elif isinstance(st, ast.Pass):
                pass
            elif isinstance(st, ast.Assign):
                v = self.ev(st.value, env, so)
                for t in st.targets:
                    if isinstance(t, ast.Name):
                        env[t.id] = v
                    elif isinstance(t, ast.Subscript) and dotted(t.value) == "self.__dict__":
                        so.d[self.ev(t.slice, env, so)] = v
                    elif isinstance(t, ast.Subscript) and isinstance(t.value, ast.Name) and isinstance(env.get(t.value.id), (dict, list)):
                        env[t.value.id][self.ev(t.slice, env, so)] = v
                    elif isinstance(t, ast.Subscript) and type(self._try(t.value, env, so)).__module__ == "numpy":
                        base_ = self._try(t.value, env, so)
                        if isinstance(t.slice, ast.Slice):
                            lo, hi, stp = [self.ev(x, env, so) if x is not None else None for x in (t.slice.lower, t.slice.upper, t.slice.step)]
                            base_[lo:hi:stp] = v
                        else:
                            base_[self.ev(t.slice, env, so)] = v
                    elif isinstance(t, ast.Subscript) and isinstance(self._try(t.value, env, so), (dict, list)) and not isinstance(t.slice, ast.Slice):
                        self._try(t.value, env, so)[self.ev(t.slice, env, so)] = v
                    elif isinstance(t, ast.Attribute) and isinstance(self._try(t.value, env, so), Fake):
                        setattr(self._try(t.value, env, so), t.attr, v)
                    elif isinstance(t, ast.Tuple) and all(isinstance(e, ast.Name) for e in t.elts):
                        vv = tuple(v)
                        if len(vv) != len(t.elts):
                            raise Unsupported("unpack arity")
                        for e, x_ in zip(t.elts, vv):
                            env[e.id] = x_
                    else:
                        raise Unsupported("assignment target %s" % ast.unparse(t))
            elif isinstance(st, ast.Return):
                raise _Return(self.ev(st.value, env, so) if st.value is not None else None)
            elif isinstance(st, ast.If):
                self.run(st.body if self.ev(st.test, env, so) else st.orelse, env, so)
            elif isinstance(st, ast.AugAssign):
                cur = self.ev(st.target, env, so)
                rhs = self.ev(st.value, env, so)
                op = type(st.op)
                new = cur + rhs if op is ast.Add else cur - rhs if op is ast.Sub else cur * rhs if op is ast.Mult else None
                if new is None:
                    raise Unsupported("augassign operator")
                if isinstance(st.target, ast.Name):
                    env[st.target.id] = new
                elif isinstance(st.target, ast.Attribute) and isinstance(self._try(st.target.value, env, so), Fake):
                    setattr(self._try(st.target.value, env, so), st.target.attr, new)
                elif isinstance(st.target, ast.Subscript) and isinstance(self._try(st.target.value, env, so), (dict, list)):
                    self._try(st.target.value, env, so)[self.ev(st.target.slice, env, so)] = new
                else:
                    raise Unsupported("augassign target")
            elif isinstance(st, ast.Delete):
                for t in st.targets:
                    if isinstance(t, ast.Subscript) and isinstance(self._try(t.value, env, so), (dict, list)):
                        base = self._try(t.value, env, so)
                        if isinstance(t.slice, ast.Slice):
                            lo, hi, stp = [self.ev(x, env, so) if x is not None else None for x in (t.slice.lower, t.slice.upper, t.slice.step)]
                            del base[lo:hi:stp]
                        else:
                            del base[self.ev(t.slice, env, so)]
                    elif isinstance(t, ast.Name) and t.id in env:
                        del env[t.id]
                    else:
                        raise Unsupported("del target")
            elif isinstance(st, ast.For):
                for item in self.ev(st.iter, env, so):
                    if isinstance(st.target, ast.Name):
                        env[st.target.id] = item
                    elif isinstance(st.target, ast.Tuple) and all(isinstance(e, ast.Name) for e in st.target.elts):
                        item = tuple(item)
                        if len(item) != len(st.target.elts):
                            raise Unsupported("for target arity")
                        for e, v_ in zip(st.target.elts, item):
                            env[e.id] = v_
                    else:
                        raise Unsupported("for target")
                    try:
                        self.run(st.body, env, so)
                    except _Continue:
                        continue
                    except _Break:
                        break
                else:
                    self.run(st.orelse, env, so)
            elif isinstance(st, ast.Raise):
                if st.exc is None:
                    if env.get("__exc__") is not None:
                        raise env["__exc__"]
                    raise Unsupported("bare raise")
                exc = self.ev(st.exc, env, so)
                if isinstance(exc, type) and issubclass(exc, BaseException):
                    exc = exc()
                if not isinstance(exc, BaseException):
                    raise Unsupported("raise of a non-exception")
                raise exc
            elif isinstance(st, ast.While):
                n_it = 0
                while self.ev(st.test, env, so):
                    n_it += 1
                    if n_it > 10000:
                        raise LoopBound("loop bound")
                    try:
                        self.run(st.body, env, so)
                    except _Continue:
                        continue
                    except _Break:
                        break
                else:
                    self.run(st.orelse, env, so)
            elif isinstance(st, ast.Break):
                raise _Break()
            elif isinstance(st, ast.Continue):
                raise _Continue()
            elif isinstance(st, (ast.Import, ast.ImportFrom)):
                raise Unsupported("import inside evaluated code")
            elif isinstance(st, ast.Try):
                try:
                    self.run(st.body, env, so)
                except (_Return, _Break, _Continue):
                    raise
                except Unsupported:
                    raise
                except Exception as e:      # noqa: an exception of the interpreted code
                    for h in st.handlers:
                        names = []
                        if h.type is None:
                            names = ["Exception"]
                        elif isinstance(h.type, ast.Tuple):
                            names = [dotted(x) for x in h.type.elts]
                        else:
                            names = [dotted(h.type)]
                        if any(n in EXC and isinstance(e, EXC[n]) for n in names):
                            if h.name:
                                env[h.name] = e
                            env["__exc__"] = e
                            self.run(h.body, env, so)
                            break
                    else:
                        raise
                else:
                    self.run(st.orelse, env, so)
                finally:
                    if st.finalbody:
                        self.run(st.finalbody, env, so)
            else:
                raise Unsupported("statement %s" % type(st).__name__)

    def _try(self, n, env, so):
        try:
            return self.ev(n, env, so)
        except Unsupported:
            return None

    def ev(self, n, env, so):
        if isinstance(n, ast.Constant):
            return n.value
        if isinstance(n, ast.Name):
            if n.id in env:
                return env[n.id]
            if n.id in TYPES:
                return TYPES[n.id]
            if n.id in EXC:
                return EXC[n.id]
            if n.id in ("True", "False", "None"):
                return {"True": True, "False": False, "None": None}[n.id]
            if n.id in self.stubs:
                return self.stubs[n.id]
            if self._modfunc(n.id) is not None:
                return FuncRef(self, self._modfunc(n.id))
            if n.id in getattr(self.repo, "classes", {}):
                return ("class", n.id)
            raise Unsupported("unbound %s" % n.id)
        if isinstance(n, ast.Tuple):
            return tuple(self.ev(e, env, so) for e in n.elts)
        if isinstance(n, ast.Slice):
            return slice(*[self.ev(x, env, so) if x is not None else None for x in (n.lower, n.upper, n.step)])
        if isinstance(n, ast.JoinedStr):
            out = ""
            for part in n.values:
                if isinstance(part, ast.Constant):
                    out += str(part.value)
                else:
                    try:
                        v_ = self.ev(part.value, env, so)
                        spec = self.ev(part.format_spec, env, so) if part.format_spec is not None else ""
                        out += format(v_, spec) if part.conversion in (-1, None) else (repr(v_) if part.conversion == 114 else str(v_))
                    except Exception:      # noqa: a message we cannot render is irrelevant to the evaluated decision
                        out += "?"
            return out
        if isinstance(n, ast.Attribute):
            if (dotted(n) or "") in self.stubs:
                return self.stubs[dotted(n)]
            base = self.ev(n.value, env, so)
            if hasattr(base, n.attr) and (not callable(getattr(base, n.attr)) or isinstance(base, Fake)):
                return getattr(base, n.attr)
            raise Unsupported("attribute %s" % n.attr)
        if isinstance(n, (ast.ListComp, ast.SetComp, ast.GeneratorExp, ast.DictComp)):
            out = []

            def bind(target, item, e2):
                if isinstance(target, ast.Name):
                    e2[target.id] = item
                elif isinstance(target, ast.Tuple) and all(isinstance(e_, ast.Name) for e_ in target.elts):
                    item = tuple(item)
                    if len(item) != len(target.elts):
                        raise Unsupported("comprehension target arity")
                    for e_, v_ in zip(target.elts, item):
                        e2[e_.id] = v_
                else:
                    raise Unsupported("comprehension target")

            def gen(k, e1):
                if k == len(n.generators):
                    if isinstance(n, ast.DictComp):
                        out.append((self.ev(n.key, e1, so), self.ev(n.value, e1, so)))
                    else:
                        out.append(self.ev(n.elt, e1, so))
                    return
                g = n.generators[k]
                for item in self.ev(g.iter, e1, so):
                    e2 = dict(e1)
                    bind(g.target, item, e2)
                    if all(self.ev(c, e2, so) for c in g.ifs):
                        gen(k + 1, e2)
            gen(0, dict(env))
            if isinstance(n, ast.DictComp):
                return dict(out)
            return set(out) if isinstance(n, ast.SetComp) else out
        if isinstance(n, ast.Subscript):
            base = self.ev(n.value, env, so)
            if isinstance(base, (list, tuple, dict, str)) and not isinstance(n.slice, ast.Slice):
                return base[self.ev(n.slice, env, so)]
            if isinstance(base, (list, tuple, str)) and isinstance(n.slice, ast.Slice):
                lo, hi, stp = [self.ev(x, env, so) if x is not None else None for x in (n.slice.lower, n.slice.upper, n.slice.step)]
                return base[lo:hi:stp]
            if type(base).__module__ == "numpy":
                if isinstance(n.slice, ast.Slice):
                    lo, hi, stp = [self.ev(x, env, so) if x is not None else None for x in (n.slice.lower, n.slice.upper, n.slice.step)]
                    return base[lo:hi:stp]
                return base[self.ev(n.slice, env, so)]
            raise Unsupported("subscript")
        if isinstance(n, ast.Dict) and all(k is not None for k in n.keys):
            return {self.ev(k, env, so): self.ev(v, env, so) for k, v in zip(n.keys, n.values)}
        if isinstance(n, ast.List):
            return [self.ev(e, env, so) for e in n.elts]
        if isinstance(n, ast.BinOp) and isinstance(n.op, (ast.Div, ast.Pow)):
            a_, b_ = self.ev(n.left, env, so), self.ev(n.right, env, so)
            return a_ / b_ if isinstance(n.op, ast.Div) else a_ ** b_
        if isinstance(n, ast.BinOp) and isinstance(n.op, (ast.Add, ast.Sub, ast.Mult, ast.Mod)):
            a_, b_ = self.ev(n.left, env, so), self.ev(n.right, env, so)
            if isinstance(n.op, ast.Mod):
                if isinstance(a_, str):
                    return ""
                return a_ % b_
            return a_ + b_ if isinstance(n.op, ast.Add) else a_ - b_ if isinstance(n.op, ast.Sub) else a_ * b_
        if isinstance(n, ast.UnaryOp) and isinstance(n.op, ast.Not):
            return not self.ev(n.operand, env, so)
        if isinstance(n, ast.UnaryOp) and isinstance(n.op, ast.USub):
            return -self.ev(n.operand, env, so)
        if isinstance(n, ast.BoolOp):
            res = isinstance(n.op, ast.And)
            for v in n.values:
                res = self.ev(v, env, so)
                if isinstance(n.op, ast.And) and not res:
                    return res
                if isinstance(n.op, ast.Or) and res:
                    return res
            return res
        if isinstance(n, ast.Compare) and len(n.ops) == 1:
            a, b = self.ev(n.left, env, so), self.ev(n.comparators[0], env, so)
            op = type(n.ops[0])
            return {ast.Eq: lambda: a == b, ast.NotEq: lambda: a != b, ast.Is: lambda: a is b, ast.IsNot: lambda: a is not b,
                    ast.Lt: lambda: a < b, ast.LtE: lambda: a <= b, ast.Gt: lambda: a > b, ast.GtE: lambda: a >= b,
                    ast.In: lambda: a in b, ast.NotIn: lambda: a not in b}[op]()
        if isinstance(n, ast.IfExp):
            return self.ev(n.body, env, so) if self.ev(n.test, env, so) else self.ev(n.orelse, env, so)
        if isinstance(n, ast.Call):
            d = dotted(n.func) or ""
            if any(isinstance(a, ast.Starred) for a in n.args):
                raise Unsupported("starred argument")
            args = [self.ev(a, env, so) for a in n.args]
            kwargs = {}
            for k in n.keywords:
                if k.arg is None:
                    kwargs.update(self.ev(k.value, env, so))
                else:
                    kwargs[k.arg] = self.ev(k.value, env, so)
            if d in self.stubs:
                return self.stubs[d](*args, **kwargs)
            if isinstance(n.func, ast.Name) and d in env and callable(env[d]):
                return env[d](*args, **kwargs)
            if d in SAFE:
                return SAFE[d](*args, **kwargs)
            if d in EXC:
                return EXC[d](*args)
            if d == "enumerate":
                return list(enumerate(*args))
            if isinstance(n.func, ast.Name) and self._modfunc(d) is not None and d not in env:
                if self.depth > 4:
                    raise Unsupported("call depth")
                return TinyExec(self.repo, self.cls, self.path, self.depth + 1, self.stubs).call_function(self._modfunc(d), args, kwargs)
            if isinstance(n.func, ast.Attribute):
                base0 = self.ev(n.func.value, env, so) if not isinstance(n.func.value, ast.Name) or n.func.value.id in env else None
                if type(base0).__module__ == "numpy" and n.func.attr in ("any", "all", "sum", "max", "min", "copy", "ravel", "tolist", "astype", "flatten",
                                                                         "nonzero", "argmax", "argmin", "mean", "reshape", "item", "fill", "round", "conj"):
                    return getattr(base0, n.func.attr)(*args, **kwargs)
                if isinstance(base0, Fake) and callable(getattr(base0, n.func.attr, None)):
                    return getattr(base0, n.func.attr)(*args, **kwargs)
                if isinstance(base0, list) and n.func.attr in ("append", "extend", "index", "count", "pop", "insert", "remove", "copy"):
                    return getattr(base0, n.func.attr)(*args)
                if isinstance(base0, dict) and n.func.attr in ("get", "keys", "values", "items", "pop", "update", "setdefault", "copy"):
                    return getattr(base0, n.func.attr)(*args)
            parts = d.split(".")
            if len(parts) == 2 and parts[0] in ("self", "cls", self.cls) and self.repo.has_method(self.cls, parts[1], self.path):
                if self.depth > 4:
                    raise Unsupported("call depth")
                return TinyExec(self.repo, self.cls, self.path, self.depth + 1, self.stubs).call(parts[1], so, *args)
            if isinstance(n.func, ast.Attribute) and n.func.attr in ("strip", "lower", "upper", "isdigit", "lstrip", "rstrip", "startswith",
                                                                    "endswith", "replace", "isnumeric", "join", "format", "isdecimal", "isalpha", "isalnum", "isspace", "split", "rsplit",
                                                                    "partition", "rpartition", "casefold", "title", "capitalize", "count", "find", "removeprefix",
                                                                    "removesuffix", "zfill", "splitlines"):
                base = self.ev(n.func.value, env, so)
                if isinstance(base, str):
                    return getattr(base, n.func.attr)(*args)
            raise Unsupported("call %s" % d)
        raise Unsupported(type(n).__name__)
