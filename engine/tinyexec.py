"""Tiny evaluator for small pure scalar functions of the repository (string -> number coercion and the like).

Walks the function's AST over ordinary Python values; supports assignments to names and to `self.__dict__[k]`, if/elif/else,
try/except with named built-in exception types, return, pass, calls of a few safe builtins, and calls of other small methods of the
same class (`self._helper(x)`, `Class._helper(x)`), which are resolved through the class table and evaluated the same way -- so a
helper split off from the function is invisible.  Anything else raises Unsupported (=> UNDECIDED)."""
import ast

from .ordertype import Unsupported
from .pysrc import dotted

SAFE = {"print": lambda *a, **k: None, "list": list, "range": range, "sum": sum, "int": int, "float": float, "str": str, "bool": bool, "len": len, "isinstance": isinstance, "abs": abs, "repr": repr, "type": type}
EXC = {"ValueError": ValueError, "TypeError": TypeError, "KeyError": KeyError, "AttributeError": AttributeError, "Exception": Exception,
       "OverflowError": OverflowError}
TYPES = {"str": str, "int": int, "float": float, "bool": bool, "list": list, "tuple": tuple, "dict": dict}


class _Return(Exception):
    def __init__(self, v):
        self.v = v


class Self:
    def __init__(self):
        self.d = {}


class TinyExec:
    def __init__(self, repo, cls, path, depth=0):
        self.repo, self.cls, self.path, self.depth = repo, cls, path, depth

    def call(self, meth, selfobj, *args, **kwargs):
        ci, fn = self.repo.method(self.cls, meth, self.path)
        deco = {dotted(d) for d in fn.decorator_list}
        params = [a.arg for a in fn.args.args]
        env = {}
        if "staticmethod" not in deco:
            env[params[0]] = selfobj
            params = params[1:]
        for p, a in zip(params, args):
            env[p] = a
        env.update(kwargs)
        defaults = dict(zip([a.arg for a in fn.args.args][len(fn.args.args) - len(fn.args.defaults):], fn.args.defaults))
        for p in params:
            if p not in env:
                if p in defaults:
                    env[p] = self.ev(defaults[p], {}, selfobj)
                else:
                    raise Unsupported("missing argument %s" % p)
        try:
            self.run(fn.body, env, selfobj)
        except _Return as r:
            return r.v
        return None

    def run(self, stmts, env, so):
        for st in stmts:
            if isinstance(st, ast.Expr):
                if not isinstance(st.value, ast.Constant):
                    self.ev(st.value, env, so)
            elif isinstance(st, ast.Pass):
                pass
            elif isinstance(st, ast.Assign):
                v = self.ev(st.value, env, so)
                for t in st.targets:
                    if isinstance(t, ast.Name):
                        env[t.id] = v
                    elif isinstance(t, ast.Subscript) and dotted(t.value) == "self.__dict__":
                        so.d[self.ev(t.slice, env, so)] = v
                    else:
                        raise Unsupported("assignment target %s" % ast.unparse(t))
            elif isinstance(st, ast.Return):
                raise _Return(self.ev(st.value, env, so) if st.value is not None else None)
            elif isinstance(st, ast.If):
                self.run(st.body if self.ev(st.test, env, so) else st.orelse, env, so)
            elif isinstance(st, ast.AugAssign):
                cur = self.ev(st.target, env, so)
                rhs = self.ev(st.value, env, so)
                op = type(st.op)
                new = cur + rhs if op is ast.Add else cur - rhs if op is ast.Sub else cur * rhs if op is ast.Mult else None
                if new is None or not isinstance(st.target, ast.Name):
                    raise Unsupported("augassign")
                env[st.target.id] = new
            elif isinstance(st, ast.For):
                for item in self.ev(st.iter, env, so):
                    if not isinstance(st.target, ast.Name):
                        raise Unsupported("for target")
                    env[st.target.id] = item
                    self.run(st.body, env, so)
            elif isinstance(st, ast.Try):
                try:
                    self.run(st.body, env, so)
                except _Return:
                    raise
                except Unsupported:
                    raise
                except Exception as e:      # noqa: an exception of the interpreted code
                    for h in st.handlers:
                        names = []
                        if h.type is None:
                            names = ["Exception"]
                        elif isinstance(h.type, ast.Tuple):
                            names = [dotted(x) for x in h.type.elts]
                        else:
                            names = [dotted(h.type)]
                        if any(n in EXC and isinstance(e, EXC[n]) for n in names):
                            self.run(h.body, env, so)
                            break
                    else:
                        raise
                else:
                    self.run(st.orelse, env, so)
                finally:
                    if st.finalbody:
                        self.run(st.finalbody, env, so)
            else:
                raise Unsupported("statement %s" % type(st).__name__)

    def ev(self, n, env, so):
        if isinstance(n, ast.Constant):
            return n.value
        if isinstance(n, ast.Name):
            if n.id in env:
                return env[n.id]
            if n.id in TYPES:
                return TYPES[n.id]
            if n.id in ("True", "False", "None"):
                return {"True": True, "False": False, "None": None}[n.id]
            raise Unsupported("unbound %s" % n.id)
        if isinstance(n, ast.Tuple):
            return tuple(self.ev(e, env, so) for e in n.elts)
        if isinstance(n, ast.JoinedStr):
            return ""
        if isinstance(n, ast.Attribute):
            base = self.ev(n.value, env, so)
            if hasattr(base, n.attr) and not callable(getattr(base, n.attr)):
                return getattr(base, n.attr)
            raise Unsupported("attribute %s" % n.attr)
        if isinstance(n, ast.BinOp) and isinstance(n.op, (ast.Add, ast.Sub, ast.Mult)):
            a_, b_ = self.ev(n.left, env, so), self.ev(n.right, env, so)
            return a_ + b_ if isinstance(n.op, ast.Add) else a_ - b_ if isinstance(n.op, ast.Sub) else a_ * b_
        if isinstance(n, ast.UnaryOp) and isinstance(n.op, ast.Not):
            return not self.ev(n.operand, env, so)
        if isinstance(n, ast.UnaryOp) and isinstance(n.op, ast.USub):
            return -self.ev(n.operand, env, so)
        if isinstance(n, ast.BoolOp):
            res = isinstance(n.op, ast.And)
            for v in n.values:
                res = self.ev(v, env, so)
                if isinstance(n.op, ast.And) and not res:
                    return res
                if isinstance(n.op, ast.Or) and res:
                    return res
            return res
        if isinstance(n, ast.Compare) and len(n.ops) == 1:
            a, b = self.ev(n.left, env, so), self.ev(n.comparators[0], env, so)
            op = type(n.ops[0])
            return {ast.Eq: lambda: a == b, ast.NotEq: lambda: a != b, ast.Is: lambda: a is b, ast.IsNot: lambda: a is not b,
                    ast.Lt: lambda: a < b, ast.LtE: lambda: a <= b, ast.Gt: lambda: a > b, ast.GtE: lambda: a >= b,
                    ast.In: lambda: a in b, ast.NotIn: lambda: a not in b}[op]()
        if isinstance(n, ast.IfExp):
            return self.ev(n.body, env, so) if self.ev(n.test, env, so) else self.ev(n.orelse, env, so)
        if isinstance(n, ast.Call):
            d = dotted(n.func) or ""
            args = [self.ev(a, env, so) for a in n.args]
            if d in SAFE:
                return SAFE[d](*args)
            parts = d.split(".")
            if len(parts) == 2 and parts[0] in ("self", "cls", self.cls) and self.repo.has_method(self.cls, parts[1], self.path):
                if self.depth > 4:
                    raise Unsupported("call depth")
                return TinyExec(self.repo, self.cls, self.path, self.depth + 1).call(parts[1], so, *args)
            if isinstance(n.func, ast.Attribute) and n.func.attr in ("strip", "lower", "upper", "isdigit", "lstrip", "rstrip", "startswith",
                                                                    "endswith", "replace", "isnumeric"):
                base = self.ev(n.func.value, env, so)
                if isinstance(base, str):
                    return getattr(base, n.func.attr)(*args)
            raise Unsupported("call %s" % d)
        raise Unsupported(type(n).__name__)
