"""Resolved view of the Python sources under /repo/andes: modules, classes, MRO,
functions, CFGs, small helpers used by the rules."""
import ast
import os

from . import alpha
from .cfg import CFG, walk_noscope
from .report import REPO, AnalysisError, where

PKG = os.path.join(REPO, "andes")


def dotted(e):
    """'self.system.dae.f' for Attribute/Name chains; calls rendered as name(); else None."""
    if isinstance(e, ast.Name):
        return e.id
    if isinstance(e, ast.Attribute):
        b = dotted(e.value)
        return None if b is None else b + "." + e.attr
    if isinstance(e, ast.Call):
        b = dotted(e.func)
        return None if b is None else b + "()"
    if isinstance(e, ast.Subscript):
        b = dotted(e.value)
        return None if b is None else b + "[]"
    return None


def call_name(c):
    return dotted(c.func) if isinstance(c, ast.Call) else None


def calls_in(node):
    """all Call nodes evaluated inside node (not nested scopes)."""
    return [n for n in walk_noscope(node) if isinstance(n, ast.Call)]


def src(node):
    try:
        return ast.unparse(node)
    except Exception:
        return "<?>"


def norm(node):
    """normalised statement text (formatting-insensitive key)."""
    return " ".join(src(node).split())


class ClassInfo:
    def __init__(self, name, path, node):
        self.name = name
        self.path = path
        self.node = node
        self.bases = [dotted(b).split(".")[-1] for b in node.bases if dotted(b)]
        self.methods = {n.name: n for n in node.body if isinstance(n, (ast.FunctionDef, ast.AsyncFunctionDef))}


class Repo:
    def __init__(self, root=PKG):
        self.root = root
        self.modules = {}     # relpath (to REPO) -> ast.Module
        self.sources = {}
        self.classes = {}     # name -> [ClassInfo]
        self.funcs = {}       # relpath -> {name: FunctionDef} (module level)
        self._cfg = {}
        for dp, dn, fn in os.walk(root):
            dn[:] = [d for d in dn if d != "__pycache__"]
            for f in sorted(fn):
                if not f.endswith(".py"):
                    continue
                p = os.path.join(dp, f)
                rel = os.path.relpath(p, REPO)
                try:
                    with open(p, encoding="utf-8") as fh:
                        text = fh.read()
                    tree = ast.parse(text, filename=p)
                except SyntaxError as e:
                    raise AnalysisError("cannot parse %s: %s" % (rel, e))
                if os.environ.get("VERIF_NO_ALPHA") != "1":
                    alpha.normalise_module(tree, rel)
                self.modules[rel] = tree
                self.sources[rel] = text
                self.funcs[rel] = {}
                for n in tree.body:
                    if isinstance(n, ast.ClassDef):
                        self.classes.setdefault(n.name, []).append(ClassInfo(n.name, rel, n))
                    elif isinstance(n, (ast.FunctionDef, ast.AsyncFunctionDef)):
                        self.funcs[rel][n.name] = n

    # ---- lookup --------------------------------------------------------
    def module(self, rel):
        if rel not in self.modules:
            raise AnalysisError("anchor module vanished: %s" % rel)
        return self.modules[rel]

    def cls(self, name, path=None):
        cands = self.classes.get(name, [])
        if path:
            cands = [c for c in cands if c.path == path]
        if not cands:
            raise AnalysisError("anchor class vanished: %s%s" % (name, " in " + path if path else ""))
        return cands[0]

    def mro(self, name, path=None):
        """linearised bases by name (C3-like DFS, good enough for single-inheritance-heavy code)."""
        out = []
        try:
            c = self.cls(name, path)
        except AnalysisError:
            return out

        def rec(ci):
            if ci in out:
                return
            out.append(ci)
            for b in ci.bases:
                if b in self.classes:
                    rec(self.classes[b][0])
        rec(c)
        return out

    def method(self, cls, name, path=None, inherited=True):
        """(ClassInfo, FunctionDef) of method resolved through MRO; AnalysisError if absent."""
        for ci in (self.mro(cls, path) if inherited else [self.cls(cls, path)]):
            if name in ci.methods:
                return ci, ci.methods[name]
        raise AnalysisError("anchor method vanished: %s.%s" % (cls, name))

    def has_method(self, cls, name, path=None):
        try:
            self.method(cls, name, path)
            return True
        except AnalysisError:
            return False

    def func(self, rel, name):
        f = self.funcs.get(rel, {}).get(name)
        if f is None:
            raise AnalysisError("anchor function vanished: %s::%s" % (rel, name))
        return f

    def cfg(self, fn):
        k = id(fn)
        if k not in self._cfg:
            self._cfg[k] = CFG(fn)
        return self._cfg[k]

    def subclasses(self, base):
        """names of all classes having `base` in their MRO (by name)."""
        out = []
        for name, lst in self.classes.items():
            for ci in lst:
                if any(c.name == base for c in self.mro(name, ci.path)[1:]) or name == base:
                    out.append(ci)
        return out

    def W(self, ci_or_path, node=None):
        p = ci_or_path.path if isinstance(ci_or_path, ClassInfo) else ci_or_path
        return where(p, node)


# ---- small dataflow helpers ---------------------------------------------

def assigned_targets(stmt):
    """dotted names written by a statement (Assign/AugAssign/AnnAssign, tuple targets, subscripts -> base[])."""
    out = []
    tg = []
    if isinstance(stmt, ast.Assign):
        tg = stmt.targets
    elif isinstance(stmt, (ast.AugAssign, ast.AnnAssign)):
        tg = [stmt.target]
    for t in tg:
        for e in (t.elts if isinstance(t, (ast.Tuple, ast.List)) else [t]):
            d = dotted(e)
            if d:
                out.append(d)
    return out


def names_in(node):
    return {n.id for n in walk_noscope(node) if isinstance(n, ast.Name)}


def attrs_in(node):
    """all dotted attribute chains read in node."""
    out = set()
    for n in walk_noscope(node):
        if isinstance(n, (ast.Attribute, ast.Name)):
            d = dotted(n)
            if d:
                out.add(d)
    return out


def const_str(e, env=None):
    """fold string expressions: literals, +, implicit concat, f-strings over env, % not supported."""
    env = env or {}
    if isinstance(e, ast.Constant) and isinstance(e.value, str):
        return e.value
    if isinstance(e, ast.BinOp) and isinstance(e.op, ast.Add):
        a, b = const_str(e.left, env), const_str(e.right, env)
        return None if a is None or b is None else a + b
    if isinstance(e, ast.JoinedStr):
        parts = []
        for v in e.values:
            if isinstance(v, ast.Constant):
                parts.append(str(v.value))
            elif isinstance(v, ast.FormattedValue):
                d = dotted(v.value)
                if d in env:
                    parts.append(str(env[d]))
                else:
                    return None
        return "".join(parts)
    if isinstance(e, ast.Name) and e.id in env:
        return env[e.id]
    return None


def literal(e):
    try:
        return ast.literal_eval(e)
    except Exception:
        return None


# ---- function facts: thin query layer over (AST, CFG) used by the rules --------------

class F:
    """queries over one function: call sites, assignments, ordering facts on the CFG."""

    def __init__(self, repo, ci, fn):
        self.repo, self.ci, self.fn = repo, ci, fn
        self.g = repo.cfg(fn)
        self.path = ci.path if isinstance(ci, ClassInfo) else ci
        self.qual = ("%s.%s" % (ci.name, fn.name)) if isinstance(ci, ClassInfo) else fn.name

    @classmethod
    def method(cls, repo, cname, mname, path=None):
        ci, fn = repo.method(cname, mname, path)
        return cls(repo, ci, fn)

    @classmethod
    def function(cls, repo, path, name):
        return cls(repo, path, repo.func(path, name))

    def W(self, node=None):
        if isinstance(node, int) and node in self.g.g:
            node = self.g.line(node)
        return where(self.path, node if node is not None else self.fn)

    def text(self):
        return norm(self.fn)

    # -- node selectors (return CFG node ids) --
    def calls(self, name, exact=False):
        name = alpha.resolve_dotted(name, self.fn)

        def pred(n):
            if not isinstance(n, ast.Call):
                return False
            d = dotted(n.func)
            if d is None:
                return False
            return d == name if exact else (d == name or d.endswith("." + name))
        return self.g.find(pred)

    def call_nodes(self, name, exact=False):
        name = alpha.resolve_dotted(name, self.fn)
        out = []
        for c in calls_in(self.fn):
            d = dotted(c.func)
            if d and (d == name or (not exact and d.endswith("." + name))):
                out.append(c)
        return out

    def assigns(self, target, prefix=False, aug=None):
        """CFG nodes that assign to dotted `target` (Assign/AugAssign/AnnAssign; subscript stores
        count as writes to `target[]`)."""
        target = alpha.resolve_dotted(target, self.fn)
        out = []
        for n, d in self.g.g.nodes(data=True):
            a = d["ast"]
            if d["kind"] != "stmt" or not isinstance(a, (ast.Assign, ast.AugAssign, ast.AnnAssign)):
                continue
            if aug is True and not isinstance(a, ast.AugAssign):
                continue
            if aug is False and isinstance(a, ast.AugAssign):
                continue
            for t in assigned_targets(a):
                if t == target or (prefix and t.startswith(target)):
                    out.append(n)
                    break
        return out

    def tests(self, text_pred):
        """test nodes (if/while) whose condition satisfies text_pred: a predicate on the source text, or a pattern string /
        tuple of pattern strings matched structurally (alias-resolved, see engine/alpha.py)."""
        from . import astq
        out = []
        for n, d in self.g.g.nodes(data=True):
            if d["kind"] in ("test", "loop") and d["expr"]:
                if callable(text_pred):
                    hit = text_pred(src(d["expr"][0]))
                else:
                    pats = (text_pred,) if isinstance(text_pred, str) else text_pred
                    hit = any(astq.match(p_, d["expr"][0]) is not None for p_ in pats)
                if hit:
                    out.append(n)
        return out

    def stmts(self, pred):
        return [n for n, d in self.g.g.nodes(data=True) if d["ast"] is not None and d["kind"] != "join"
                and pred(d["ast"], d)]

    def returns(self, value_pred=None):
        out = []
        for n, d in self.g.g.nodes(data=True):
            a = d["ast"]
            if isinstance(a, ast.Return) and d["kind"] == "stmt":
                if value_pred is None or value_pred(a.value):
                    out.append(n)
        return out

    # -- ordering facts --
    def before(self, a_nodes, b_nodes):
        """every path entry -> b passes some a. Returns (ok, witness)."""
        if not a_nodes:
            return False, "required predecessor construct not found"
        for b in b_nodes:
            ok, p = self.g.must_pass(self.g.entry, b, [a for a in a_nodes if a != b])
            if not ok:
                return False, "path " + self.g.fmt_path(p)
        return True, ""

    def after(self, a_nodes, b_nodes):
        """every path a -> normal exit passes some b."""
        if not b_nodes:
            return False, "required successor construct not found"
        for a in a_nodes:
            ok, p = self.g.must_pass(a, self.g.exit, [b for b in b_nodes if b != a])
            if not ok:
                return False, "path " + self.g.fmt_path(p)
        return True, ""

    def between(self, a_nodes, c_nodes, b_nodes):
        """every path a -> c passes some b."""
        for a in a_nodes:
            for c in c_nodes:
                ok, p = self.g.must_pass(a, c, b_nodes)
                if not ok:
                    return False, "path " + self.g.fmt_path(p)
        return True, ""

    def need(self, nodes, what):
        if not nodes:
            raise AnalysisError("anchor vanished in %s: %s" % (self.qual, what))
        return nodes
