"""Equation DSL front-end and normal-form kernel.

Two independent front-ends build sympy expressions:
  parse_dsl : an e_str / v_str / v_iter string  (own walker over ast.parse(...); the
              repository's sympify path is NOT used)
  parse_np  : an expression of *generated* NumPy source (select, less_equal, real, ...)
and `equal()` compares two expressions by a ladder of normal forms.

A "differ" verdict needs both (i) a non-zero normal form of the difference and
(ii) a non-zero value of the difference at random rational points (polynomial
identity testing, guards against an incomplete simplifier); otherwise the
obligation is UNDECIDED.  Nothing of the repository is executed here.
"""
import ast
import random

import sympy as sp
from sympy.functions.elementary.piecewise import Piecewise as SPPiecewise   # the unpatched class
from sympy.logic.boolalg import Boolean, BooleanAtom, BooleanFunction
from sympy.core.relational import Relational


class DSLError(Exception):
    pass


class Indicator(sp.Function):
    """0/1 value of a condition; piecewise constant => derivative 0 a.e."""
    nargs = 1
    is_real = True
    is_commutative = True

    def _eval_derivative(self, s):
        return sp.S.Zero

    def fdiff(self, argindex=1):
        return sp.S.Zero


class safe_div(sp.Function):
    nargs = 2
    is_real = True


class radians(sp.Function):
    nargs = 1
    is_real = True


def is_bool(e):
    return isinstance(e, (Relational, BooleanFunction, BooleanAtom))


class SymTab:
    """name -> Symbol with the assumptions the DSL gives them: DAE variables and config
    fields are real, parameters/services real unless the service is declared complex;
    dae_t, sys_f, sys_mva carry no assumption."""

    def __init__(self, model=None, extra_real=(), extra_complex=()):
        self.t = {}
        if model is not None:
            for n in model.cache.all_params_names:
                real = True
                if n in model.services and model.services[n].vtype == complex:
                    real = False
                self.t[n] = sp.Symbol(n, real=real)
            for n in model.cache.all_vars_names:
                self.t[n] = sp.Symbol(n, real=True)
            for n in model.config.as_dict():
                self.t[n] = sp.Symbol(n, real=True)
        for n in extra_real:
            self.t[n] = sp.Symbol(n, real=True)
        for n in extra_complex:
            self.t[n] = sp.Symbol(n)
        for n in ("dae_t", "sys_f", "sys_mva"):
            self.t[n] = sp.Symbol(n)

    def get(self, name):
        if name not in self.t:
            raise DSLError("unknown symbol %r" % name)
        return self.t[name]

    def __contains__(self, n):
        return n in self.t


_DSL_FUNCS = {
    "sin": sp.sin, "cos": sp.cos, "tan": sp.tan, "exp": sp.exp, "log": sp.log, "sqrt": sp.sqrt,
    "abs": sp.Abs, "Abs": sp.Abs, "re": sp.re, "im": sp.im, "conj": sp.conjugate, "arg": sp.arg,
    "atan": sp.atan, "atan2": sp.atan2, "asin": sp.asin, "acos": sp.acos, "sign": sp.sign,
    "Indicator": Indicator, "safe_div": safe_div, "radians": radians,
    "rad": lambda x: x * sp.pi / 180, "deg": lambda x: x * 180 / sp.pi,
    "Le": sp.Le, "Lt": sp.Lt, "Ge": sp.Ge, "Gt": sp.Gt, "Eq": sp.Eq, "Ne": sp.Ne,
    "And": sp.And, "Or": sp.Or, "Not": sp.Not, "Max": sp.Max, "Min": sp.Min,
}
_CONSTS = {"pi": sp.pi, "E": sp.E, "I": sp.I, "nan": sp.nan, "oo": sp.oo, "True": sp.true, "False": sp.false}

_CMP = {ast.Lt: sp.Lt, ast.LtE: sp.Le, ast.Gt: sp.Gt, ast.GtE: sp.Ge, ast.Eq: sp.Eq, ast.NotEq: sp.Ne}


def _num(v):
    if isinstance(v, bool):
        return sp.true if v else sp.false
    if isinstance(v, int):
        return sp.Integer(v)
    if isinstance(v, float):
        return sp.Float(v)
    if isinstance(v, complex):
        return sp.Float(v.real) + sp.Float(v.imag) * sp.I if v.real else sp.Float(v.imag) * sp.I
    raise DSLError("constant %r" % (v,))


def _binop(op, a, b):
    if isinstance(op, ast.Add):
        return a + b
    if isinstance(op, ast.Sub):
        return a - b
    if isinstance(op, ast.Mult):
        return a * b
    if isinstance(op, ast.Div):
        return a / b
    if isinstance(op, ast.Pow):
        return a ** b
    if isinstance(op, ast.BitAnd):
        return sp.And(a, b)
    if isinstance(op, ast.BitOr):
        return sp.Or(a, b)
    raise DSLError("operator %s" % type(op).__name__)


def parse_dsl(text, symtab):
    """equation string -> sympy expression (own walker)."""
    if text is None:
        return sp.S.Zero
    if not isinstance(text, str):
        text = str(text)
    try:
        tree = ast.parse(text.strip().replace("\n", " "), mode="eval")
    except SyntaxError as e:
        raise DSLError("syntax: %s" % e)

    def w(n):
        if isinstance(n, ast.Constant):
            return _num(n.value)
        if isinstance(n, ast.Name):
            if n.id in symtab:
                return symtab.get(n.id)
            if n.id in _CONSTS:
                return _CONSTS[n.id]
            raise DSLError("unknown symbol %r" % n.id)
        if isinstance(n, ast.BinOp):
            return _binop(n.op, w(n.left), w(n.right))
        if isinstance(n, ast.UnaryOp):
            v = w(n.operand)
            if isinstance(n.op, ast.USub):
                return -v
            if isinstance(n.op, ast.UAdd):
                return v
            if isinstance(n.op, ast.Invert):
                return sp.Not(v)
            raise DSLError("unary %s" % type(n.op).__name__)
        if isinstance(n, ast.Compare):
            if len(n.ops) != 1:
                raise DSLError("chained comparison")
            return _CMP[type(n.ops[0])](w(n.left), w(n.comparators[0]))
        if isinstance(n, ast.Call):
            if not isinstance(n.func, ast.Name):
                raise DSLError("call of non-name")
            f = n.func.id
            if f == "Piecewise":
                pairs = []
                for a in n.args:
                    if not (isinstance(a, ast.Tuple) and len(a.elts) == 2):
                        raise DSLError("Piecewise arg")
                    pairs.append((w(a.elts[0]), w(a.elts[1])))
                return SPPiecewise(*pairs)
            if f not in _DSL_FUNCS:
                raise DSLError("unknown function %r" % f)
            return _DSL_FUNCS[f](*[w(a) for a in n.args])
        if isinstance(n, ast.Tuple):
            return tuple(w(e) for e in n.elts)
        raise DSLError("node %s" % type(n).__name__)

    return w(tree.body)


# ---- generated NumPy code front-end ----------------------------------------------

_NP_FUNCS = {
    "sin": sp.sin, "cos": sp.cos, "tan": sp.tan, "exp": sp.exp, "log": sp.log, "sqrt": sp.sqrt,
    "abs": sp.Abs, "real": sp.re, "imag": sp.im, "conj": sp.conjugate, "angle": sp.arg,
    "arctan": sp.atan, "arctan2": sp.atan2, "arcsin": sp.asin, "arccos": sp.acos, "sign": sp.sign,
    "safe_div": safe_div, "radians": radians,
    "amax": sp.Max, "amin": sp.Min, "maximum": sp.Max, "minimum": sp.Min,
}
_NP_REL = {"less": sp.Lt, "less_equal": sp.Le, "greater": sp.Gt, "greater_equal": sp.Ge,
           "equal": sp.Eq, "not_equal": sp.Ne}
_NP_PLACE = {"__zeros": sp.S.Zero, "__ones": sp.S.One, "__trues": sp.true, "__falses": sp.false}
_NP_CONST = {"pi": sp.pi, "nan": sp.nan, "inf": sp.oo, "True": sp.true, "False": sp.false, "e": sp.E, "E": sp.E}


def parse_np(node, symtab, params=None):
    """ast expression of generated code -> sympy expression.  A relational used as an
    arithmetic operand is the erased Indicator(...)."""

    def arith(v):
        return Indicator(v) if is_bool(v) else v

    def w(n, boolean=False):
        if isinstance(n, ast.Constant):
            return _num(n.value)
        if isinstance(n, ast.Name):
            if n.id in _NP_PLACE:
                return _NP_PLACE[n.id]
            if params is not None and n.id not in params:
                if n.id in _NP_CONST:
                    return _NP_CONST[n.id]
                raise DSLError("free name %r is not a parameter of the generated function" % n.id)
            if n.id in symtab:
                return symtab.get(n.id)
            if n.id in _NP_CONST:
                return _NP_CONST[n.id]
            raise DSLError("unknown name %r" % n.id)
        if isinstance(n, ast.BinOp):
            a, b = arith(w(n.left)), arith(w(n.right))
            return _binop(n.op, a, b)
        if isinstance(n, ast.UnaryOp):
            v = arith(w(n.operand))
            if isinstance(n.op, ast.USub):
                return -v
            if isinstance(n.op, ast.UAdd):
                return v
            raise DSLError("unary")
        if isinstance(n, ast.Compare):
            if len(n.ops) != 1:
                raise DSLError("chained comparison")
            return _CMP[type(n.ops[0])](w(n.left), w(n.comparators[0]))
        if isinstance(n, ast.Call):
            f = ast.unparse(n.func)
            if f in ("select", "numpy.select"):
                conds, vals = n.args[0], n.args[1]
                if not (isinstance(conds, ast.List) and isinstance(vals, ast.List)
                        and len(conds.elts) == len(vals.elts)):
                    raise DSLError("select shape")
                default = None
                for k in n.keywords:
                    if k.arg == "default":
                        default = w(k.value)
                pairs = [(arith(w(v)), w(c, True)) for c, v in zip(conds.elts, vals.elts)]
                if default is not None and default is not sp.nan:
                    pairs.append((default, sp.true))
                return SPPiecewise(*pairs)
            if f in _NP_REL:
                return _NP_REL[f](w(n.args[0]), w(n.args[1]))
            if f == "logical_and.reduce":
                return sp.And(*[w(e, True) for e in n.args[0].elts])
            if f == "logical_or.reduce":
                return sp.Or(*[w(e, True) for e in n.args[0].elts])
            if f == "logical_and":
                return sp.And(*[w(e, True) for e in n.args])
            if f == "logical_or":
                return sp.Or(*[w(e, True) for e in n.args])
            if f == "logical_not":
                return sp.Not(w(n.args[0], True))
            if f == "array":
                return w(n.args[0])
            if f in _NP_FUNCS:
                return _NP_FUNCS[f](*[arith(w(a)) for a in n.args])
            raise DSLError("unknown generated function %r" % f)
        if isinstance(n, (ast.Tuple, ast.List)):
            return [w(e) for e in n.elts]
        raise DSLError("node %s" % type(n).__name__)

    return w(node)


# ---- normal forms ------------------------------------------------------------------

def norm_floats(e):
    """floats that are integers -> Integer (x**(-1.0) == 1/x)."""
    if not isinstance(e, sp.Basic):
        return e
    rep = {}
    for f in e.atoms(sp.Float):
        try:
            fv = float(f)
        except Exception:
            continue
        if fv == int(fv) and abs(fv) < 2 ** 53:
            rep[f] = sp.Integer(int(fv))
    return e.xreplace(rep) if rep else e


def reduce_idempotent(e, flags):
    """z**k -> z for 0/1-valued symbols."""
    if not flags or not isinstance(e, sp.Basic):
        return e
    e = sp.expand(e)
    return e.replace(lambda x: x.is_Pow and x.base in flags and x.exp.is_Integer and x.exp > 0,
                     lambda x: x.base)


def _indicator_to_pw(e):
    return e.replace(lambda x: isinstance(x, Indicator),
                     lambda x: SPPiecewise((1, x.args[0]), (0, True)))


def numeric_nonzero(d, trials=6, seed=1, flags=None):
    """True if d evaluates to a clearly non-zero value at some random point; False if ~0 at all
    points; None if it could not be evaluated."""
    rnd = random.Random(seed)
    syms = sorted(d.free_symbols, key=lambda s: s.name)
    d2 = _indicator_to_pw(d)
    d2 = d2.replace(lambda x: isinstance(x, safe_div), lambda x: x.args[0] / x.args[1])
    d2 = d2.replace(lambda x: isinstance(x, radians), lambda x: x.args[0] * sp.pi / 180)
    evaluated = 0
    for _ in range(trials):
        sub = {}
        for s in syms:
            if flags and s in flags:
                sub[s] = sp.Integer(rnd.randint(0, 1))
                continue
            v = sp.Rational(rnd.randint(3, 40), rnd.randint(7, 23))
            if not s.is_real and s.name not in ("dae_t", "sys_f", "sys_mva"):
                v = v + sp.I * sp.Rational(rnd.randint(3, 40), rnd.randint(7, 23))
            sub[s] = v
        try:
            val = complex(sp.N(d2.xreplace(sub), 30))
        except Exception:
            continue
        if val != val:      # nan
            continue
        evaluated += 1
        if abs(val) > 1e-9:
            return True
    return False if evaluated >= 2 else None


def equal(a, b, flags=None, deep=True):
    """-> (verdict, stage); verdict in equal | differ | undecided."""
    if isinstance(a, (list, tuple)) or isinstance(b, (list, tuple)):
        raise DSLError("equal() on sequences")
    a, b = sp.sympify(a), sp.sympify(b)
    if a == b:
        return "equal", "structural"
    if is_bool(a) or is_bool(b):
        if is_bool(a) and is_bool(b):
            try:
                if sp.simplify_logic(sp.Xor(a, b)) is sp.false:
                    return "equal", "logic"
            except Exception:
                pass
        return "undecided", "boolean"
    a1, b1 = norm_floats(a), norm_floats(b)
    if a1 == b1:
        return "equal", "float-normal"
    d = a1 - b1
    if d == 0:
        return "equal", "difference"
    try:
        de = sp.expand(d)
        if flags:
            de = reduce_idempotent(de, flags)
        if de == 0:
            return "equal", "expand"
    except Exception:
        de = d
    stage = "expand"
    # a clearly non-zero value of the difference at a random rational point proves the two expressions are different
    # functions; only when no such point is found is the (expensive) simplifier asked to prove equality
    nz0 = numeric_nonzero(de, trials=3, flags=flags)
    if nz0 is True:
        return "differ", stage + "+numeric"
    if deep:
        for name, fn in (("cancel", sp.cancel), ("simplify", sp.simplify)):
            try:
                dd = fn(de)
                if flags:
                    dd = reduce_idempotent(dd, flags)
                if dd == 0:
                    return "equal", name
                stage = name
            except Exception:
                pass
    nz = numeric_nonzero(de, flags=flags)
    if nz is True:
        return "differ", stage + "+numeric"
    return "undecided", stage + ("+numeric-zero" if nz is False else "+numeric-unavailable")
