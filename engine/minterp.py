"""Statement-level scalar interpreter for the repository's discrete-component methods.

One array element is represented by one Python scalar; code that touches its inputs only
through comparisons and 0/1 flag arithmetic behaves the same on every input of one order type,
so running it on one representative per order type is an exhaustive abstract interpretation.

State is a dict of dotted names ('self.zu', 'self.u.v', 'self.state.e', local names).
"""
import ast

from .ordertype import Interp, Unsupported, _NPF
from .pysrc import dotted


class Where:
    """index produced by np.where(mask): selects the element iff mask is true."""

    def __init__(self, sel):
        self.sel = bool(sel)


class Always:
    """index that always selects the (single) element (slices, argsort prefixes)."""
    sel = True


class Return(Exception):
    def __init__(self, value=None):
        self.value = value


class MethodInterp:
    def __init__(self, repo, cls, path, state, skip_calls=(), true_calls=(), call_values=None):
        self.repo = repo
        self.cls = cls
        self.path = path
        self.s = dict(state)
        self.skip = set(skip_calls)       # method names treated as no-ops
        self.true_calls = set(true_calls)  # method names that return True
        self.call_values = dict(call_values or {})   # method name -> value it returns (not interpreted)
        self.depth = 0

    # ---- expressions
    def ev(self, n, loc):
        env = dict(self.s)
        env.update(loc)
        funcs = {
            "np.where": lambda m, *a: Where(m) if not a else (a[0] if m else a[1]),
            "np.argsort": lambda a: Always(),
            "np.zeros_like": lambda a, **k: 0, "np.ones_like": lambda a, **k: 1,
            "np.all": lambda a: bool(a), "np.any": lambda a: bool(a),
            "np.count_nonzero": lambda a: int(bool(a)), "int": int, "len": lambda a: 1,
            "list": lambda *a: [], "np.array": lambda a, **k: a, "sum": lambda a: int(bool(a)),
        }
        it = Interp(env, funcs)
        # method calls on self inside expressions
        if isinstance(n, ast.Call):
            d = dotted(n.func) or ""
            if d.startswith("self.") and d.count(".") == 1:
                m = d[5:]
                if m in self.true_calls:
                    return True
                if m in self.call_values:
                    return self.call_values[m]
                if m in self.skip:
                    return None
        if isinstance(n, ast.Subscript):
            base = self.ev(n.value, loc)
            idx = n.slice
            if isinstance(idx, ast.Slice):
                return base
            iv = self.ev(idx, loc) if not isinstance(idx, ast.Tuple) else Always()
            return base
        if isinstance(n, ast.Tuple):
            return tuple(self.ev(e, loc) for e in n.elts)
        if isinstance(n, ast.List):
            return [self.ev(e, loc) for e in n.elts]
        return it.ev(n)

    # ---- statements
    def assign(self, target, value, loc, aug=None):
        if isinstance(target, (ast.Tuple, ast.List)):
            vals = list(value)
            if len(vals) != len(target.elts):
                raise Unsupported("unpack arity")
            for t, v in zip(target.elts, vals):
                self.assign(t, v, loc, aug)
            return
        if isinstance(target, ast.Subscript):
            d = dotted(target.value)
            if d is None:
                raise Unsupported("assign to %s" % ast.dump(target)[:60])
            sl = target.slice
            sel = True
            if not isinstance(sl, ast.Slice):
                iv = self.ev(sl, loc)
                sel = getattr(iv, "sel", True)
            if not sel:
                return
            cur = loc.get(d, self.s.get(d))
            new = self._aug(cur, value, aug)
            if d in loc or not d.startswith("self."):
                loc[d] = new
            else:
                self.s[d] = new
            return
        d = dotted(target)
        if d is None:
            raise Unsupported("assign target")
        cur = loc.get(d, self.s.get(d))
        new = self._aug(cur, value, aug)
        if d.startswith("self."):
            self.s[d] = new
        else:
            loc[d] = new

    @staticmethod
    def _aug(cur, value, aug):
        if aug is None:
            # flag arrays hold numbers: booleans stored into them become 0/1
            return value
        if isinstance(aug, ast.Add):
            return cur + value
        if isinstance(aug, ast.Sub):
            return cur - value
        if isinstance(aug, ast.Mult):
            return cur * value
        raise Unsupported("augassign")

    def run_body(self, body, loc):
        for st in body:
            self.stmt(st, loc)

    def stmt(self, st, loc):
        if isinstance(st, ast.Expr):
            v = st.value
            if isinstance(v, ast.Constant):
                return
            if isinstance(v, ast.Call):
                d = dotted(v.func) or ""
                # super().m(...) / Base.m(self, ...)
                if isinstance(v.func, ast.Attribute) and isinstance(v.func.value, ast.Call) and dotted(v.func.value.func) == "super":
                    self.call_parent(v.func.attr, v, loc, after=self._cur_cls)
                    return
                parts = d.split(".")
                if len(parts) == 2 and parts[0] in self.repo.classes and v.args and dotted(v.args[0]) == "self":
                    self.call_in(parts[0], parts[1], v, loc)
                    return
                if d.startswith("self.") and d.count(".") == 1:
                    m = d[5:]
                    if m in self.skip or m in self.true_calls:
                        return
                    self.call_in(self.cls, m, v, loc)
                    return
                if d.endswith(".append") and d.startswith("self."):
                    tgt = d[:-7]
                    self.s.setdefault(tgt, [])
                    self.s[tgt] = list(self.s[tgt]) + [self.ev(v.args[0], loc)]
                    return
                if d.startswith("logger.") or d in ("print",):
                    return
                raise Unsupported("call statement %s" % d)
            raise Unsupported("expr statement")
        if isinstance(st, ast.Assign):
            val = self.ev(st.value, loc)
            for t in st.targets:
                self.assign(t, val, loc)
            return
        if isinstance(st, ast.AugAssign):
            self.assign(st.target, self.ev(st.value, loc), loc, aug=st.op)
            return
        if isinstance(st, ast.If):
            if self.ev(st.test, loc):
                self.run_body(st.body, loc)
            else:
                self.run_body(st.orelse, loc)
            return
        if isinstance(st, ast.Return):
            raise Return(self.ev(st.value, loc) if st.value is not None else None)
        if isinstance(st, ast.Pass):
            return
        raise Unsupported("statement %s" % type(st).__name__)

    # ---- calls
    def _bind(self, fn, call, loc):
        new = {}
        params = [a.arg for a in fn.args.args][1:]
        defaults = fn.args.defaults
        for p, d in zip(params[len(params) - len(defaults):], defaults):
            new[p] = ast.literal_eval(d) if isinstance(d, ast.Constant) else None
        for a in fn.args.kwonlyargs:
            pass
        for p, d in zip([a.arg for a in fn.args.kwonlyargs], fn.args.kw_defaults):
            new[p] = ast.literal_eval(d) if isinstance(d, ast.Constant) else None
        if call is not None:
            args = [a for a in call.args if not isinstance(a, ast.Starred) and dotted(a) != "self"]
            for p, a in zip(params, args):
                new[p] = self.ev(a, loc)
            for k in call.keywords:
                if k.arg:
                    new[k.arg] = self.ev(k.value, loc)
                else:
                    # **kwargs forwarding
                    new.update(loc.get("__kwargs__", {}))
        return new

    def call_in(self, cls, meth, call=None, loc=None, kwargs=None):
        ci, fn = self.repo.method(cls, meth, None)
        return self._exec(ci, fn, call, loc or {}, kwargs)

    def call_parent(self, meth, call, loc, after):
        mro = self.repo.mro(self.cls, self.path)
        names = [c.name for c in mro]
        start = names.index(after) + 1 if after in names else 1
        for ci in mro[start:]:
            if meth in ci.methods:
                return self._exec(ci, ci.methods[meth], call, loc, None)
        raise Unsupported("super().%s not found" % meth)

    def _exec(self, ci, fn, call, loc, kwargs):
        self.depth += 1
        if self.depth > 6:
            raise Unsupported("call depth")
        new = self._bind(fn, call, loc)
        if kwargs:
            new.update(kwargs)
            new["__kwargs__"] = dict(kwargs)
        elif "__kwargs__" in loc:
            new["__kwargs__"] = loc["__kwargs__"]
            for k, v in loc["__kwargs__"].items():
                if k in [a.arg for a in fn.args.args] + [a.arg for a in fn.args.kwonlyargs]:
                    new[k] = v
        prev = getattr(self, "_cur_cls", None)
        self._cur_cls = ci.name
        try:
            self.run_body(fn.body, new)
            ret = None
        except Return as r:
            ret = r.value
        finally:
            self._cur_cls = prev
            self.depth -= 1
        return ret
