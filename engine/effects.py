"""Effect analysis over a name- and receiver-resolved call graph.

Question answered: "can calling this function change the numeric CONTENT of the solver's arrays?" (dae.x/y/f/g/z/t, or the
v/e arrays of variables, which are views of them).  Used by ordering rules of the form "nothing that writes the solver
state may run between A and B" (C15: between acceptance of a step and dae.store(); C14: on the snapshot-load path).

Direct writes recognised (enumerated from the repository's idioms):
    <..dae>.x[...] = / += ...      (also y, f, g, z; `self.x[...]` inside class DAE)
    <expr>.v[...] = ...,  <expr>.e[...] = ...          slice/index stores into a variable's value / equation array
    <..dae>.t = / += ...                                simulation time
    np.put(<arr>, ...), np.copyto(<arr>, ...), <arr>.fill(...)   with <arr> one of the above
Re-binding (`self.v = dae.x[sl]`, `self.e = np.zeros(n)`) is NOT a content write.

Call resolution (receiver-directed, over-approximate inside the repository, blind outside it):
    self.m(...)                -> m in the MRO of the current class and in every subclass overriding it
    super().m(...) / Base.m(self, ...) -> Base.m
    <..>system.m / ss.m        -> System.m;   <..>dae.m -> DAE.m;  <..>.TDS.m / .PFlow.m / .EIG.m -> that routine
    call_models('m', ...)      -> every class with a Model base that defines m
    other receivers            -> every class defining a method named m, if at most `fanout` classes do
    bare f(...)                -> the module-level function of that name (same module first, else unique in the repo)
"""
import ast
import re

from .cfg import walk_noscope
from .pysrc import dotted, src

DAE_ARR = re.compile(r"(^|\.)dae\.(x|y|f|g|z)$")
VAR_ARR = re.compile(r"\.(v|e)$")
RECV = {"system": "System", "ss": "System", "sys": "System", "dae": "DAE", "TDS": "TDS", "PFlow": "PFlow", "EIG": "EIG",
        "solver": "Solver", "ts": "DAETimeSeries"}


class Effects:
    def __init__(self, repo, fanout=40):
        self.repo = repo
        self.fanout = fanout
        self._direct = {}
        self._trans = {}
        self._subs = None
        self.unresolved = set()
        self.resolved_calls = 0
        self._imports = {}
        self._slots = None

    def imports(self, path):
        """names bound by import statements of a module: name -> module string (external when not andes.*)"""
        if path not in self._imports:
            out = {}
            for n in ast.walk(self.repo.modules.get(path, ast.Module(body=[], type_ignores=[]))):
                if isinstance(n, ast.Import):
                    for a in n.names:
                        out[(a.asname or a.name).split(".")[0]] = a.name
                elif isinstance(n, ast.ImportFrom):
                    for a in n.names:
                        out[a.asname or a.name] = "%s.%s" % (n.module or "", a.name)
            self._imports[path] = out
        return self._imports[path]

    def slot(self, name):
        """functions stored in a function-pointer slot: `name=self.m` keyword arguments and `x.name = self.m` assignments"""
        if self._slots is None:
            self._slots = {}
            for cl in self.repo.classes.values():
                for ci in cl:
                    for n in ast.walk(ci.node):
                        pairs = []
                        if isinstance(n, ast.Call):
                            pairs = [(k.arg, k.value) for k in n.keywords if k.arg]
                        elif isinstance(n, ast.Assign) and len(n.targets) == 1 and isinstance(n.targets[0], ast.Attribute):
                            pairs = [(n.targets[0].attr, n.value)]
                        for k, v in pairs:
                            d = dotted(v) or ""
                            if d.startswith("self.") and d.count(".") == 1:
                                for c in self.repo.mro(ci.name, ci.path):
                                    if d[5:] in c.methods:
                                        self._slots.setdefault(k, []).append((c, c.methods[d[5:]]))
                                        break
        return self._slots.get(name, [])

    # ---- direct writes -------------------------------------------------------
    def _is_state(self, base, cls):
        if base is None:
            return None
        if DAE_ARR.search(base):
            return "dae." + base.rsplit(".", 1)[1]
        if cls == "DAE" and re.match(r"self\.(x|y|f|g|z)$", base):
            return "dae." + base.split(".")[1]
        if VAR_ARR.search(base) and not base.endswith("config.v"):
            return "<var>" + base[base.rindex("."):]
        return None

    def direct(self, cls, fn):
        key = id(fn)
        if key in self._direct:
            return self._direct[key]
        out = []
        for n in walk_noscope(fn):
            tg = []
            if isinstance(n, ast.Assign):
                tg = n.targets
            elif isinstance(n, (ast.AugAssign, ast.AnnAssign)):
                tg = [n.target]
            for t in tg:
                for e in (t.elts if isinstance(t, (ast.Tuple, ast.List)) else [t]):
                    if isinstance(e, ast.Subscript):
                        what = self._is_state(dotted(e.value), cls)
                        if what:
                            out.append((n, what))
                    elif isinstance(e, ast.Attribute):
                        d = dotted(e) or ""
                        if re.search(r"(^|\.)dae\.t$", d) or (cls == "DAE" and d == "self.t"):
                            out.append((n, "dae.t"))
                        elif isinstance(n, ast.AugAssign) and self._is_state(d, cls):
                            out.append((n, self._is_state(d, cls)))
            if isinstance(n, ast.Call):
                f = dotted(n.func) or ""
                if f in ("np.put", "np.copyto", "np.place", "np.putmask") and n.args:
                    what = self._is_state(dotted(n.args[0]), cls)
                    if what:
                        out.append((n, what))
                elif f.endswith(".fill"):
                    what = self._is_state(f[:-5], cls)
                    if what:
                        out.append((n, what))
        self._direct[key] = out
        return out

    # ---- call resolution -----------------------------------------------------
    def subclasses(self, name):
        if self._subs is None:
            self._subs = {}
            for cl in self.repo.classes.values():
                for ci in cl:
                    for b in self.repo.mro(ci.name, ci.path)[1:]:
                        self._subs.setdefault(b.name, []).append(ci)
        return self._subs.get(name, [])

    def _defs_named(self, m, base=None):
        out = []
        for cl in self.repo.classes.values():
            for ci in cl:
                if m in ci.methods:
                    if base and base not in [c.name for c in self.repo.mro(ci.name, ci.path)]:
                        continue
                    out.append((ci, ci.methods[m]))
        return out

    def callees(self, ci, fn, call):
        """[(ClassInfo|relpath, FunctionDef)]"""
        d = dotted(call.func)
        cls = getattr(ci, "name", None)
        path = getattr(ci, "path", ci)
        if d is None:
            return []
        # call_models('name', models)
        if d.endswith("call_models") and call.args and isinstance(call.args[0], ast.Constant) and isinstance(call.args[0].value, str):
            return self._defs_named(call.args[0].value, base="Model")
        parts = d.split(".")
        m = parts[-1]
        if len(parts) == 1:
            f = self.repo.funcs.get(path, {}).get(m)
            if f is not None:
                return [(path, f)]
            cands = [(p, fs[m]) for p, fs in self.repo.funcs.items() if m in fs]
            if len(cands) == 1:
                return cands
            if m in self.repo.classes:      # constructor
                return [(c, c.methods["__init__"]) for c in self.repo.classes[m] if "__init__" in c.methods]
            return []
        recv = parts[:-1]
        if recv == ["self"] and cls:
            out = []
            for c in self.repo.mro(cls, path):
                if m in c.methods:
                    out.append((c, c.methods[m]))
                    break
            out += [(c, c.methods[m]) for c in self.subclasses(cls) if m in c.methods]
            return out
        if recv == ["super()"] and cls:
            for c in self.repo.mro(cls, path)[1:]:
                if m in c.methods:
                    return [(c, c.methods[m])]
            return []
        if len(recv) == 1 and recv[0] in self.repo.classes and call.args and dotted(call.args[0]) == "self":
            for c in self.repo.mro(recv[0]):
                if m in c.methods:
                    return [(c, c.methods[m])]
            return []
        imp = self.imports(path).get(recv[0])
        if imp is not None and not imp.startswith("andes"):
            return []
        sl = self.slot(m)
        if sl:
            return sl + [x for x in self._defs_named(m) if x not in sl][:self.fanout]
        last = recv[-1].rstrip("()")
        if last in RECV and RECV[last] in self.repo.classes:
            for c in self.repo.mro(RECV[last]):
                if m in c.methods:
                    return [(c, c.methods[m])] + [(s, s.methods[m]) for s in self.subclasses(RECV[last]) if m in s.methods]
            return []
        if recv[0] in ("np", "logger", "os", "sys", "time", "math", "tqdm", "json", "re", "pd", "plt", "sp", "sparse", "spmatrix"):
            return []
        cands = self._defs_named(m)
        if 0 < len(cands) <= self.fanout:
            return cands
        if cands:
            self.unresolved.add("%s (%d definitions)" % (d, len(cands)))
        return []

    # ---- transitive ----------------------------------------------------------
    def writes(self, ci, fn, depth=8, _stack=()):
        """list of (chain, node, what): content writes reachable from fn; chain = tuple of qualified names."""
        key = id(fn)
        if key in self._trans:
            return self._trans[key]
        if key in _stack or depth < 0:
            return []
        qual = "%s.%s" % (getattr(ci, "name", getattr(ci, "path", ci)), fn.name)
        out = [((qual,), n, w) for n, w in self.direct(getattr(ci, "name", None), fn)]
        for c in walk_noscope(fn):
            if not isinstance(c, ast.Call):
                continue
            for cci, cfn in self.callees(ci, fn, c):
                self.resolved_calls += 1
                for chain, n, w in self.writes(cci, cfn, depth - 1, _stack + (key,)):
                    out.append(((qual,) + chain, n, w))
                    if len(out) > 200:
                        break
        # keep one witness per (first hop, what)
        seen, uniq = set(), []
        for chain, n, w in out:
            k = (chain[:2], w)
            if k not in seen:
                seen.add(k)
                uniq.append((chain, n, w))
        if not _stack:
            self._trans[key] = uniq
        return uniq

    def reaches(self, ci, fn, targets, depth=8, _seen=None):
        """does fn (transitively, over resolved callees) call a function whose qualified name is in `targets`
        (e.g. {"System.j_update"})?  Returns the call chain or None."""
        _seen = _seen if _seen is not None else set()
        if id(fn) in _seen or depth < 0:
            return None
        _seen.add(id(fn))
        qual = "%s.%s" % (getattr(ci, "name", getattr(ci, "path", ci)), fn.name)
        for c in walk_noscope(fn):
            if not isinstance(c, ast.Call):
                continue
            for cci, cfn in self.callees(ci, fn, c):
                q2 = "%s.%s" % (getattr(cci, "name", getattr(cci, "path", cci)), cfn.name)
                if q2 in targets:
                    return (qual, q2)
                r = self.reaches(cci, cfn, targets, depth - 1, _seen)
                if r:
                    return (qual,) + r
        return None

    def call_reaches(self, ci, fn, call, targets, depth=8):
        for cci, cfn in self.callees(ci, fn, call):
            q2 = "%s.%s" % (getattr(cci, "name", getattr(cci, "path", cci)), cfn.name)
            if q2 in targets:
                return (q2,)
            r = self.reaches(cci, cfn, targets, depth)
            if r:
                return r
        return None

    def call_writes(self, ci, fn, call, depth=8):
        """content writes reachable through one call site."""
        out = []
        for cci, cfn in self.callees(ci, fn, call):
            out += self.writes(cci, cfn, depth)
        return out


def fmt(w):
    chain, n, what = w
    return "%s writes %s (`%s`)" % (" -> ".join(chain), what, " ".join(src(n).split())[:70])


def _must_reach(E, ci, fn, targets, depth, seen):
    """every path through fn passes a call that is (or, for each of its resolved callees, must-reaches) a function in `targets`"""
    from .pysrc import F
    if depth < 0 or id(fn) in seen:
        return False
    seen = seen | {id(fn)}
    try:
        f = F(E.repo, ci, fn) if not isinstance(ci, str) else None
    except Exception:      # noqa
        f = None
    if f is None:
        return False
    good = []
    for n in f.g.nodes():
        d = f.g.data(n)
        a = d.get("ast")
        if a is None or d["kind"] != "stmt":
            continue
        for c in [x for x in ast.walk(a) if isinstance(x, ast.Call)]:
            cal = E.callees(ci, fn, c)
            if not cal:
                continue
            ok = True
            for cci, cfn in cal:
                q2 = "%s.%s" % (getattr(cci, "name", getattr(cci, "path", cci)), cfn.name)
                if q2 in targets:
                    continue
                if not _must_reach(E, cci, cfn, targets, depth - 1, seen):
                    ok = False
                    break
            if ok:
                good.append(n)
                break
    return bool(good) and f.g.must_pass(f.g.entry, f.g.exit, good)[0]


def call_must_reach(E, ci, fn, call, targets, depth=6):
    """the call certainly executes a function in `targets`: every resolved callee is one, or must-reaches one on all of its paths"""
    cal = E.callees(ci, fn, call)
    if not cal:
        return False
    for cci, cfn in cal:
        q2 = "%s.%s" % (getattr(cci, "name", getattr(cci, "path", cci)), cfn.name)
        if q2 in targets:
            continue
        if not _must_reach(E, cci, cfn, targets, depth - 1, frozenset()):
            return False
    return True
