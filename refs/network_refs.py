"""Independent reference formulas for the static network elements (textbook pi-model etc.).

Written from the derivation, not from the repository:
  series admittance y = 1/(r + jx); from-side shunt yh = (g1 + g/2) + j(b1 + b/2); to-side yk likewise with
  g2, b2; ideal transformer tap:1 with phase shift phi on the from side:
     I1 = (yh + y)/t^2 V1 - y/(t e^{-j phi}) V2
     I2 = -y/(t e^{+j phi}) V1 + (yk + y) V2
     S1 = V1 conj(I1),  S2 = V2 conj(I2)     (power leaving the bus into the branch)
Sign convention of every bus row: power *leaving* the bus through the device.
"""
import sympy as sp


def R(*names):
    return [sp.Symbol(n, real=True) for n in names]


def line_refs():
    g1, b1, g2, b2, g, b, r, x, tap, phi, u, v1, v2, a1, a2 = R(
        "g1", "b1", "g2", "b2", "g", "b", "r", "x", "tap", "phi", "u", "v1", "v2", "a1", "a2")
    y = 1 / (r + sp.I * x)
    yh = (g1 + g / 2) + sp.I * (b1 + b / 2)
    yk = (g2 + g / 2) + sp.I * (b2 + b / 2)
    th = a1 - a2 - phi
    S1 = u * (v1 ** 2 * sp.conjugate(yh + y) / tap ** 2 - sp.conjugate(y) * v1 * v2 * sp.exp(sp.I * th) / tap)
    S2 = u * (v2 ** 2 * sp.conjugate(yk + y) - sp.conjugate(y) * v1 * v2 * sp.exp(-sp.I * th) / tap)

    def parts(S):
        S = sp.expand(S, complex=True)
        return sp.re(S), sp.im(S)
    p1, q1 = parts(S1)
    p2, q2 = parts(S2)
    return {"a1": p1, "v1": q1, "a2": p2, "v2": q2}


LINE_LINKS = {"a1": ("a", "bus1"), "v1": ("v", "bus1"), "a2": ("a", "bus2"), "v2": ("v", "bus2")}


def shunt_refs(gname="g", bname="b"):
    u, v, g, b = R("u", "v", gname, bname)
    return {"a": u * v ** 2 * g, "v": -u * v ** 2 * b}


def pq_refs():
    """power-flow regime (dae_t < 0): constant power inside [vmin, vmax], constant impedance fixed at the
    violated bound outside.  time-domain regime: ZIP conversion around the power-flow solution v0."""
    u, v, p0, q0, vmin, vmax, zi, zl, zu, v0 = R("u", "v", "p0", "q0", "vmin", "vmax", "vcmp_zi", "vcmp_zl", "vcmp_zu", "v0")
    p2p, p2i, p2z, q2q, q2i, q2z = R("p2p", "p2i", "p2z", "q2q", "q2i", "q2z")

    def pf(s0, vv):
        return s0 * zi + s0 * (vv / vmin) ** 2 * zl + s0 * (vv / vmax) ** 2 * zu
    Ppf, Qpf = pf(p0, v0), pf(q0, v0)
    return {
        "pflow": {"a": u * pf(p0, v), "v": u * pf(q0, v)},
        "tds": {"a": u * Ppf * (p2p + p2i * v / v0 + p2z * (v / v0) ** 2),
                "v": u * Qpf * (q2q + q2i * v / v0 + q2z * (v / v0) ** 2)},
    }


def pv_refs():
    u, p0, q, v, v0, qmin, qmax, zi, zl, zu = R("u", "p0", "q", "v", "v0", "qmin", "qmax", "qlim_zi", "qlim_zl", "qlim_zu")
    return {"a": -u * p0, "v": -u * q, "q": u * (zi * (v0 - v) + zl * (qmin - q) + zu * (qmax - q))}


def slack_refs():
    u, p, q, v, v0, a, a0, qmin, qmax, pmin, pmax = R("u", "p", "q", "v", "v0", "a", "a0", "qmin", "qmax", "pmin", "pmax")
    zi, zl, zu, pi_, pl, pu = R("qlim_zi", "qlim_zl", "qlim_zu", "plim_zi", "plim_zl", "plim_zu")
    return {"a": -u * p, "v": -u * q,
            "q": u * (zi * (v0 - v) + zl * (qmin - q) + zu * (qmax - q)),
            "p": u * (pi_ * (a0 - a) + pl * (pmin - p) + pu * (pmax - p))}


def jumper_refs():
    u, p, q, a1, a2, v1, v2 = R("u", "p", "q", "a1", "a2", "v1", "v2")
    return {"p": u * (a1 - a2) + (1 - u) * p, "q": u * (v1 - v2) + (1 - u) * q,
            "a1": p, "a2": -p, "v1": q, "v2": -q}
