"""Variant corpus runner (thorough tier): apply one small edit to a scratch copy of /repo/andes,
run the property's quick check against it, and compare with the expectation.

  breaking variant  -> the check must print VIOLATION (and, if given, name the expected rule)
  benign twin       -> the check must exit 0

A variant whose `old` text no longer occurs exactly once is reported as stale (skipped)."""
import json
import os
import shutil
import subprocess
import sys
import tempfile
import time
from concurrent.futures import ThreadPoolExecutor

HERE = os.path.dirname(os.path.abspath(__file__))
VERIF = os.path.dirname(HERE)
REPO = os.environ.get("VERIF_REPO", "/repo")


def load_corpus():
    sys.path.insert(0, HERE)
    import corpus
    return corpus.VARIANTS


def run_variant(v, jobs):
    t0 = time.time()
    tmp = tempfile.mkdtemp(prefix="andes_verif_var_")
    try:
        shutil.copytree(os.path.join(REPO, "andes"), os.path.join(tmp, "andes"),
                        ignore=shutil.ignore_patterns("__pycache__", "*.pyc"))
        if v.get("patch"):
            pr0 = subprocess.run("patch -p1 -s -f --no-backup-if-mismatch -d %s < %s" % (tmp, v["patch"]), shell=True, capture_output=True, text=True)
            if pr0.returncode != 0:
                return dict(v=v, status="stale", detail="patch does not apply: %s" % (pr0.stdout + pr0.stderr)[-200:], wall=0)
        for rel, old, new in v["edits"]:
            p = os.path.join(tmp, rel)
            with open(p) as f:
                s = f.read()
            if s.count(old) != 1:
                return dict(v=v, status="stale", detail="%s: `old` occurs %d times" % (rel, s.count(old)), wall=0)
            with open(p, "w") as f:
                f.write(s.replace(old, new))
        env = dict(os.environ, VERIF_REPO=tmp, VERIF_CACHE=os.path.join(tmp, "cache"),
                   VERIF_EVIDENCE_DIR=os.path.join(tmp, "evidence"), VERIF_JOBS=str(jobs),
                   PYTHONDONTWRITEBYTECODE="1")
        env["VERIF_NO_SELFTEST"] = "1"
        pr = subprocess.run([os.path.join(VERIF, "vcheck"), v["pid"], "--tier", v.get("tier", "quick")], env=env,
                            capture_output=True, text=True, timeout=1800)
        out = pr.stdout + pr.stderr
        viol = [l for l in out.splitlines() if l.startswith("VIOLATION ")]
        rules = [l.strip() for l in out.splitlines() if l.strip().startswith("rule=")]
        if v["expect"] == "violation":
            ok = pr.returncode == 1 and bool(viol)
            if ok and v.get("rule"):
                ok = any(v["rule"] in r for r in rules)
        else:
            ok = pr.returncode == 0 and not viol
        return dict(v=v, status="ok" if ok else "MISS", code=pr.returncode, rules=rules[:6],
                    detail="" if ok else out[-1500:], wall=round(time.time() - t0, 1))
    finally:
        shutil.rmtree(tmp, ignore_errors=True)


def run(pid=None, names=None, workers=None):
    corpus = [v for v in load_corpus() if (pid is None or v["pid"] == pid) and (not names or v["name"] in names)]
    if not corpus:
        return dict(total=0, results=[])
    workers = workers or min(8, len(corpus))
    jobs = max(2, 16 // workers)
    with ThreadPoolExecutor(workers) as ex:
        res = list(ex.map(lambda v: run_variant(v, jobs), corpus))
    return dict(total=len(corpus), results=res)


def summarize(res):
    br = [r for r in res["results"] if r["v"]["expect"] == "violation" and r["status"] != "stale"]
    bn = [r for r in res["results"] if r["v"]["expect"] == "silent" and r["status"] != "stale"]
    return dict(caught=sum(r["status"] == "ok" for r in br), breaking=len(br),
                benign_silent=sum(r["status"] == "ok" for r in bn), benign=len(bn),
                stale=[r["v"]["name"] for r in res["results"] if r["status"] == "stale"],
                missed=[r["v"]["name"] for r in res["results"] if r["status"] == "MISS"])


if __name__ == "__main__":
    pid = sys.argv[1].upper() if len(sys.argv) > 1 and sys.argv[1] != "all" else None
    names = set(sys.argv[2:])
    res = run(pid, names)
    for r in res["results"]:
        print("%-5s %-4s %-44s %-9s %5.1fs %s" % (r["status"], r["v"]["pid"], r["v"]["name"], r["v"]["expect"], r["wall"],
                                                  "; ".join(r.get("rules", []))[:110]))
        if r["status"] != "ok":
            print("      ", r["detail"].replace("\n", "\n       ")[-1200:])
    print(json.dumps(summarize(res)))
