"""Variant corpus: small edits of /repo/andes, each breaking exactly one rule instance while still
importing (expect='violation'), plus benign twins that must stay silent (expect='silent')."""

VARIANTS = []


def V(pid, name, expect, *edits, rule=None):
    VARIANTS.append(dict(pid=pid, name=name, expect=expect, edits=list(edits), rule=rule))


LINE = "andes/models/line/line.py"
SYMP = "andes/core/symprocessor.py"
MODEL = "andes/core/model/model.py"
SYSTEM = "andes/system.py"
PFLOW = "andes/routines/pflow.py"
DAEINT = "andes/routines/daeint.py"
TDS = "andes/routines/tds.py"

# ---------------- C01
V("C01", "line_a1_sign", "violation", (LINE, "bhk * sin(a1 - a2 - phi)) * itap)'\n\n        self.v1", "bhk * sin(a1 - a2 + phi)) * itap)'\n\n        self.v1"), rule="C01.element")
V("C01", "line_to_side_shunt_from", "violation", (LINE, "v2 ** 2 * (gk + ghk)", "v2 ** 2 * (gh + ghk)"), rule="C01.element")
V("C01", "line_tap_power", "violation", (LINE, "self.itap2.v_str = '1/tap/tap'", "self.itap2.v_str = '1/tap'"), rule="C01.element")
V("C01", "line_bh_half", "violation", (LINE, "self.bh.v_str = 'b1 + 0.5 * b'", "self.bh.v_str = 'b1 + b'"), rule="C01.element")
V("C01", "benign_line_factored", "silent", (LINE, "self.gh.v_str = 'g1 + 0.5 * g'", "self.gh.v_str = '0.5 * (2 * g1 + g)'"))
V("C01", "shunt_q_sign", "violation", ("andes/models/shunt/shunt.py", "self.v.e_str = '-u * v**2 * b'", "self.v.e_str = 'u * v**2 * b'"), rule="C01.element")
V("C01", "tol_scaled", "violation", (PFLOW, "if mis < self.config.tol:", "if mis < 10 * self.config.tol:"), rule="C01.verdict")
V("C01", "mis_subset", "violation", (PFLOW, "gmax_idx = np.argmax(np.abs(system.dae.g))", "gmax_idx = np.argmax(np.abs(system.dae.g[:system.Bus.n]))"), rule="C01.verdict")
V("C01", "adders_overwrite", "violation", (SYSTEM, "np.add.at(self.dae.__dict__[name], var.a, var.e)", "self.dae.__dict__[name][var.a] += var.e"), rule="C01.assembly")
V("C01", "matrix_transposed", "violation", (PFLOW, "self.A = sparse([[system.dae.fx, system.dae.gx],\n                         [system.dae.fy, system.dae.gy]])", "self.A = sparse([[system.dae.fx, system.dae.fy],\n                         [system.dae.gx, system.dae.gy]])"), rule="C01.linear")
V("C01", "benign_rename_mis", "silent", (PFLOW, "            mis = self.nr_step()\n            logger.info('%d: |F(x)| = %.10g', self.niter, mis)", "            mis = self.nr_step()\n            logger.info('%d: |F(x)| = %.12g', self.niter, mis)"))

# ---------------- C02 / C03 (generator)
V("C02", "gen_args_unsorted_reverse", "violation", (SYMP, "            sym_args = sorted(sym_args, key=lambda s: s.name)\n            eargs.sort()", "            sym_args = sorted(sym_args, key=lambda s: s.name)\n            eargs.sort(reverse=True)"), rule="C02.binding")
V("C02", "gen_skips_subs", "violation", (SYMP, "            fs = self._check_expr_symbols(expr)\n            s_syms[name] = expr", "            fs = self._check_expr_symbols(expr)\n            s_syms[name] = expr if name != 'Ipeq' else expr * 2"), rule="C02.body")
V("C02", "consumer_wrong_collection", "violation", (MODEL, "for i, var in enumerate(self.cache.algebs_and_ext.values()):", "for i, var in enumerate(self.cache.vars_ext.values()):"), rule="C02.consumer")
V("C02", "hash_drops_estr", "violation", (MODEL, "            if item.e_str is not None:\n                md5.update(str(item.e_str).encode())\n", ""), rule="C02.hash")
V("C02", "undill_ignores_stale", "violation", (SYSTEM, "            self.prepare(quick=True, incremental=True, models=stale_models)\n            loaded = True", "            loaded = True"), rule="C02.staleness")
V("C02", "benign_model_rewrite", "silent", ("andes/models/shunt/shunt.py", "self.a.e_str = 'u * v**2 * g'", "self.a.e_str = 'u * g * v**2'"))
V("C03", "jac_index_swapped", "violation", (SYMP, "self.calls.append_ijv(jname, e_idx, v_idx, 0)", "self.calls.append_ijv(jname, v_idx, e_idx, 0)"), rule="C03")
V("C03", "j_update_no_restore", "violation", (SYSTEM, "        self.dae.restore_sparse()\n        # collect sparse values into sparse structures", "        # collect sparse values into sparse structures"), rule="C03.pattern")
V("C03", "pattern_drops_constants", "violation", (SYSTEM, "for row, col, val in mdl.triplets.zip_ijv(jname + 'c'):", "for row, col, val in mdl.triplets.zip_ijv(jname + 'cc'):"), rule="C03.pattern")
V("C03", "rebuild_branch_swapped", "violation", (SYSTEM, "+= spmatrix(vals, rows, cols, j_size, 'd')", "+= spmatrix(vals, cols, rows, j_size, 'd')"), rule="C03.pattern")
V("C03", "benign_rename_locals", "silent", (SYSTEM, "                for rows, cols, vals in mdl.triplets.zip_ijv(j_name):\n                    try:\n                        if self.config.ipadd:\n                            self.dae.__dict__[j_name].ipadd(vals, rows, cols)\n                        else:\n                            self.dae.__dict__[j_name] += spmatrix(vals, rows, cols, j_size, 'd')",
  "                for rr, cc, vv in mdl.triplets.zip_ijv(j_name):\n                    rows, cols, vals = rr, cc, vv\n                    try:\n                        if self.config.ipadd:\n                            self.dae.__dict__[j_name].ipadd(vv, rr, cc)\n                        else:\n                            self.dae.__dict__[j_name] += spmatrix(vv, rr, cc, j_size, 'd')"))

# ---------------- C04
V("C04", "trapezoid_weight", "violation", (DAEINT, "return Tf * (x - x0) - h * 0.5 * (f + f0)", "return Tf * (x - x0) - h * 0.6 * (f + f0)"), rule="C04.rule")
V("C04", "trapezoid_drop_f0", "violation", (DAEINT, "return Tf * (x - x0) - h * 0.5 * (f + f0)", "return Tf * (x - x0) - h * 0.5 * (f + f)"), rule="C04.rule")
V("C04", "backeuler_jac_half", "violation", (DAEINT, "return sparse([[tds.Teye - tds.h * dae.fx, gxs],\n                       [-tds.h * dae.fy, gys]], 'd')", "return sparse([[tds.Teye - tds.h * dae.fx, gxs],\n                       [-tds.h * 0.5 * dae.fy, gys]], 'd')"), rule="C04.rule")
V("C04", "no_restore_f", "violation", (DAEINT, "            dae.f[:] = np.array(tds.f0)\n", ""), rule="C04.restore")
V("C04", "accept_loose_tol", "violation", (DAEINT, "if abs(mis) <= tds.config.tol:", "if abs(mis) <= 100 * tds.config.tol:"), rule="C04.accept")
V("C04", "no_tf_clip", "violation", (TDS, "        self.h = max(min(self.h, config.tf - system.dae.t), 0)\n", "        self.h = max(self.h, 0)\n"), rule="C04.stepsize")
V("C04", "fixt_growth_unclipped", "violation", (TDS, "                if config.fixt:\n                    self.deltat = min(config.tstep, self.deltat)\n", ""), rule="C04.stepsize")
V("C04", "reject_no_rewind", "violation", (TDS, "                dae.t -= self.h\n                self.calc_h()", "                self.calc_h()"), rule="C04.restore")
V("C04", "scale_mismatch", "violation", (DAEINT, "tds.qg[dae.n:] = tds.config.g_scale * tds.h * dae.g", "tds.qg[dae.n:] = tds.config.g_scale * dae.g"), rule="C04.scale")
V("C04", "benign_theta_rewrite", "silent", (DAEINT, "return Tf * (x - x0) - h * 0.5 * (f + f0)", "return Tf * (x - x0) - 0.5 * h * f - 0.5 * h * f0"))

# ---------------- C08
EIG = "andes/routines/eig.py"
V("C08", "neg_count_overlaps", "violation", (EIG, "np.count_nonzero(mu_real < -self.config.tol)", "np.count_nonzero(mu_real < self.config.tol)"), rule="C08.partition")
V("C08", "zero_band_strict", "violation", (EIG, "np.count_nonzero(abs(mu_real) <= self.config.tol)", "np.count_nonzero(abs(mu_real) < self.config.tol)"), rule="C08.partition")
V("C08", "reduce_sign", "violation", (EIG, "self.fxy = (fx - fy * self.gyx)", "self.fxy = (fx + fy * self.gyx)"), rule="C08.formula")
V("C08", "reduce_order", "violation", (EIG, "self.fxy = (fx - fy * self.gyx)", "self.fxy = (fx - self.gyx * fy)"), rule="C08.formula")
V("C08", "reduce_wrong_solve", "violation", (EIG, "        self.gyx = matrix(gx)\n        self.solver.linsolve(gy, self.gyx)", "        self.gyx = matrix(gy)\n        self.solver.linsolve(gx, self.gyx)"), rule="C08.formula")
V("C08", "pfactor_axis", "violation", (EIG, "pfactor[item, :] /= W_abs[item]", "pfactor[:, item] /= W_abs[item]"), rule="C08.axes")
V("C08", "pfactor_no_transpose", "violation", (EIG, "        pfactor = pfactor.T\n", ""), rule="C08.axes")
V("C08", "double_scaling", "violation", (EIG, "nTf = np.ones(self.nz_counts)", "nTf = np.delete(self.system.dae.Tf, self.zstate_idx)"), rule="C08.scaling")
V("C08", "reorder_no_advance", "violation", (EIG, "                swaps.append((ii, bidx))\n                bidx += 1\n", "                swaps.append((ii, bidx))\n"), rule="C08.reorder")
V("C08", "benign_pfactor_rename", "silent", (EIG, "        for item in range(n_state):\n            pfactor[item, :] /= W_abs[item]", "        for k in range(n_state):\n            pfactor[k, :] /= W_abs[k]"))
V("C08", "benign_reduce_commuted_sum", "silent", (EIG, "self.fxy = (fx - fy * self.gyx)", "self.fxy = (-(fy * self.gyx) + fx)"))

# ---------------- C16 / C17
SS = "andes/linsolvers/suitesparse.py"
SC = "andes/linsolvers/scipy.py"
V("C16", "retry_drops_result", "violation", (SS, "            self.F = self._symbolic(self.A)\n\n            return self.solve(self.A, self.b)", "            self.F = self._symbolic(self.A)\n            self.solve(self.A, self.b)\n\n            return np.ravel(self.b)"), rule="C16.factorise")
V("C16", "klu_linsolve_returns_rhs", "violation", (SS, "            klu.linsolve(A, b)\n        except ArithmeticError:\n            logger.error('Singular matrix. Case is not solvable')\n            return np.ravel(matrix(np.nan, b.size, 'd'))", "            klu.linsolve(A, b)\n        except ArithmeticError:\n            logger.error('Singular matrix. Case is not solvable')"), rule="C16.singular")
V("C16", "solve_skips_numeric", "violation", (SS, "            self.N = self._numeric(self.A, self.F)\n            self._solve(self.A, self.F, self.N, self.b)", "            if self.N is None:\n                self.N = self._numeric(self.A, self.F)\n            self._solve(self.A, self.F, self.N, self.b)"), rule="C16.factorise")
V("C16", "spsolve_ignores_new_A", "violation", (SC, "        if self.factorize or self.new_A:", "        if self.factorize:"), rule="C16.factorise")
V("C16", "ccs_swapped", "violation", (SC, "    indices = np.array(ccs[1]).ravel()\n    indptr = np.array(ccs[0]).ravel()", "    indices = np.array(ccs[0]).ravel()\n    indptr = np.array(ccs[1]).ravel()"), rule="C16.ccs")
V("C16", "pflow_no_refresh_flag", "violation", (PFLOW, "            system.j_update(self.models)\n            self.solver.worker.new_A = True", "            system.j_update(self.models)"), rule="C16.refresh")
V("C16", "umfpack_solve_args", "violation", (SS, "        umfpack.solve(A, N, b)", "        umfpack.solve(A, F, b)"), rule="C16.factorise")
V("C16", "benign_singular_helper", "silent", (SS, "            return np.ravel(matrix(np.nan, self.b.size, 'd'))", "            nan_vec = matrix(np.nan, self.b.size, 'd')\n            return np.ravel(nan_vec)"))
V("C17", "pflow_no_elements_silent", "violation", (PFLOW, "            logger.error(\"Loaded case contains no power flow element.\")\n            system.exit_code = 1\n            return False", "            logger.error(\"Loaded case contains no power flow element.\")\n            return False"), rule="C17.exit")
V("C17", "tds_success_without_tf", "violation", (TDS, "        elif system.dae.t == self.config.tf:\n            succeed = True   # success flag", "        elif system.dae.t >= 0:\n            succeed = True   # success flag"), rule="C17.success")
V("C17", "tds_else_no_exit", "violation", (TDS, "            self.pbar.update(100 - self.last_pc)\n        else:\n            system.exit_code += 1", "            self.pbar.update(100 - self.last_pc)\n        else:\n            pass"), rule="C17.exit")
V("C17", "test_init_loose", "violation", (TDS, "        if np.max(np.abs(system.dae.fg)) < self.config.tol:", "        if np.max(np.abs(system.dae.fg)) < 1.0:"), rule="C17.success")
V("C17", "tds_gate_removed", "violation", (TDS, "        if system.PFlow.converged is False:\n            logger.warning('Power flow not solved. Simulation will not continue.')\n            system.exit_code += 1\n            return succeed", "        if system.PFlow.converged is False:\n            logger.warning('Power flow not solved. Simulation will not continue.')"), rule="C17.gate")
V("C17", "eig_precheck_continues", "violation", ("andes/routines/eig.py", "            logger.warning('Power flow not solved. Eig analysis will not continue.')\n            return False", "            logger.warning('Power flow not solved. Eig analysis will not continue.')\n            status = False"), rule="C17.gate")
V("C17", "main_none_system_ok", "violation", ("andes/main.py", "        if system is not None:\n            ex_code += system.exit_code\n        else:\n            ex_code += 1", "        if system is not None:\n            ex_code += system.exit_code"), rule="C17.aggregate")
V("C17", "nk_except_success", "violation", (PFLOW, "            logger.error(e)\n            self.converged = False", "            logger.error(e)\n            self.converged = True"), rule="C17.success")
V("C17", "benign_exit_code_value", "silent", (PFLOW, "            system.exit_code = 1\n            return False", "            system.exit_code = 2\n            return False"))

# ---------------- C06
PARAM = "andes/core/param.py"
TIMER = "andes/models/timer.py"
V("C06", "is_time_isclose", "violation", (PARAM, "        return np.equal(dae_t, self.v)", "        return np.isclose(dae_t, self.v)"), rule="C06.comparator")
V("C06", "is_time_ge", "violation", (PARAM, "        return np.equal(dae_t, self.v)", "        return np.greater_equal(dae_t, self.v)"), rule="C06.comparator")
V("C06", "do_switch_isclose", "violation", (TDS, "if np.equal(system.dae.t, system.switch_times[self._switch_idx]):", "if np.isclose(system.dae.t, system.switch_times[self._switch_idx]):"), rule="C06.comparator")
V("C06", "benign_is_time_eq_operator", "silent", (PARAM, "        return np.equal(dae_t, self.v)", "        return dae_t == self.v"))
V("C06", "calc_h_skip_event", "violation", (TDS, "        # do not skip over event switch_times\n", "        if self._switch_idx < system.n_switches:\n            if (not resume) and (system.dae.t == system.switch_times[self._switch_idx]):\n                self._switch_idx += 1\n\n        # do not skip over event switch_times\n"), rule="C06.advance")
V("C06", "no_advance_after_dispatch", "violation", (TDS, "                # progress `_switch_idx` to avoid calling the same event if time gets stuck\n                self._switch_idx += 1\n", ""), rule="C06.advance")
V("C06", "init_no_t0_dispatch", "violation", (TDS, "        if self.data_csv is None:\n            self.do_switch()\n", ""), rule="C06.t0")
V("C06", "toggle_ignores_u", "violation", (TIMER, "            if (is_time[i] == 0) or (self.u.v[i] == 0):\n                continue\n\n            instance = self.system.__dict__[self.model.v[i]]", "            if (is_time[i] == 0):\n                continue\n\n            instance = self.system.__dict__[self.model.v[i]]"), rule="C06.callback")
V("C06", "clear_fault_wrong_index", "violation", (TIMER, "            if is_time[i] and (self.u.v[i] == 1):\n                self.uf.v[i] = 0", "            if is_time[i] and (self.u.v[i] == 1):\n                self.uf.v[0] = 0"), rule="C06.callback")
V("C06", "alter_guard_or", "violation", (TIMER, "            if (not is_time[ii]) or (self.u.v[ii] == 0):", "            if (not is_time[ii]) and (self.u.v[ii] == 0):"), rule="C06.callback")
V("C06", "schedule_overwrite", "violation", (SYSTEM, "                self.switch_dict[i].update({j: self.models[j]})", "                self.switch_dict[i] = {j: self.models[j]}"), rule="C06.schedule")
V("C06", "schedule_drops_current", "violation", (SYSTEM, "ltzero_idx = np.where(out >= self.dae.t)[0]", "ltzero_idx = np.where(out > self.dae.t)[0]"), rule="C06.schedule")
V("C06", "no_switch_clip", "violation", (TDS, "                self.h = system.switch_times[self._switch_idx] - system.dae.t\n", "                pass\n"), rule="C06.clip")
V("C06", "benign_callback_guard_form", "silent", (TIMER, "            if (is_time[i] == 0) or (self.u.v[i] == 0):\n                continue\n\n            instance = self.system.__dict__[self.model.v[i]]", "            if not (is_time[i] and self.u.v[i] != 0):\n                continue\n\n            instance = self.system.__dict__[self.model.v[i]]"))
