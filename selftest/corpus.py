"""Variant corpus: small edits of /repo/andes, each breaking exactly one rule instance while still
importing (expect='violation'), plus benign twins that must stay silent (expect='silent')."""

VARIANTS = []


def V(pid, name, expect, *edits, rule=None, tier="quick"):
    VARIANTS.append(dict(pid=pid, name=name, expect=expect, edits=list(edits), rule=rule, tier=tier))


LINE = "andes/models/line/line.py"
SYMP = "andes/core/symprocessor.py"
MODEL = "andes/core/model/model.py"
SYSTEM = "andes/system.py"
PFLOW = "andes/routines/pflow.py"
DAEINT = "andes/routines/daeint.py"
TDS = "andes/routines/tds.py"

# ---------------- C01
V("C01", "line_a1_sign", "violation", (LINE, "bhk * sin(a1 - a2 - phi)) * itap)'\n\n        self.v1", "bhk * sin(a1 - a2 + phi)) * itap)'\n\n        self.v1"), rule="C01.element")
V("C01", "line_to_side_shunt_from", "violation", (LINE, "v2 ** 2 * (gk + ghk)", "v2 ** 2 * (gh + ghk)"), rule="C01.element")
V("C01", "line_tap_power", "violation", (LINE, "self.itap2.v_str = '1/tap/tap'", "self.itap2.v_str = '1/tap'"), rule="C01.element")
V("C01", "line_bh_half", "violation", (LINE, "self.bh.v_str = 'b1 + 0.5 * b'", "self.bh.v_str = 'b1 + b'"), rule="C01.element")
V("C01", "benign_line_factored", "silent", (LINE, "self.gh.v_str = 'g1 + 0.5 * g'", "self.gh.v_str = '0.5 * (2 * g1 + g)'"))
V("C01", "shunt_q_sign", "violation", ("andes/models/shunt/shunt.py", "self.v.e_str = '-u * v**2 * b'", "self.v.e_str = 'u * v**2 * b'"), rule="C01.element")
V("C01", "tol_scaled", "violation", (PFLOW, "if mis < self.config.tol:", "if mis < 10 * self.config.tol:"), rule="C01.verdict")
V("C01", "mis_subset", "violation", (PFLOW, "gmax_idx = np.argmax(np.abs(system.dae.g))", "gmax_idx = np.argmax(np.abs(system.dae.g[:system.Bus.n]))"), rule="C01.verdict")
V("C01", "adders_overwrite", "violation", (SYSTEM, "np.add.at(self.dae.__dict__[name], var.a, var.e)", "self.dae.__dict__[name][var.a] += var.e"), rule="C01.assembly")
V("C01", "matrix_transposed", "violation", (PFLOW, "self.A = sparse([[system.dae.fx, system.dae.gx],\n                         [system.dae.fy, system.dae.gy]])", "self.A = sparse([[system.dae.fx, system.dae.fy],\n                         [system.dae.gx, system.dae.gy]])"), rule="C01.linear")
V("C01", "benign_rename_mis", "silent", (PFLOW, "            mis = self.nr_step()\n            logger.info('%d: |F(x)| = %.10g', self.niter, mis)", "            mis = self.nr_step()\n            logger.info('%d: |F(x)| = %.12g', self.niter, mis)"))

# ---------------- C02 / C03 (generator)
V("C02", "gen_args_unsorted_reverse", "violation", (SYMP, "            sym_args = sorted(sym_args, key=lambda s: s.name)\n            eargs.sort()", "            sym_args = sorted(sym_args, key=lambda s: s.name)\n            eargs.sort(reverse=True)"), rule="C02.binding")
V("C02", "gen_skips_subs", "violation", (SYMP, "            fs = self._check_expr_symbols(expr)\n            s_syms[name] = expr", "            fs = self._check_expr_symbols(expr)\n            s_syms[name] = expr if name != 'Ipeq' else expr * 2"), rule="C02.body")
V("C02", "consumer_wrong_collection", "violation", (MODEL, "for i, var in enumerate(self.cache.algebs_and_ext.values()):", "for i, var in enumerate(self.cache.vars_ext.values()):"), rule="C02.consumer")
V("C02", "hash_drops_estr", "violation", (MODEL, "            if item.e_str is not None:\n                md5.update(str(item.e_str).encode())\n", ""), rule="C02.hash")
V("C02", "undill_ignores_stale", "violation", (SYSTEM, "            self.prepare(quick=True, incremental=True, models=stale_models)\n            loaded = True", "            loaded = True"), rule="C02.staleness")
V("C02", "benign_model_rewrite", "silent", ("andes/models/shunt/shunt.py", "self.a.e_str = 'u * v**2 * g'", "self.a.e_str = 'u * g * v**2'"))
V("C03", "jac_index_swapped", "violation", (SYMP, "self.calls.append_ijv(jname, e_idx, v_idx, 0)", "self.calls.append_ijv(jname, v_idx, e_idx, 0)"), rule="C03")
V("C03", "j_update_no_restore", "violation", (SYSTEM, "        self.dae.restore_sparse()\n        # collect sparse values into sparse structures", "        # collect sparse values into sparse structures"), rule="C03.pattern")
V("C03", "pattern_drops_constants", "violation", (SYSTEM, "for row, col, val in mdl.triplets.zip_ijv(jname + 'c'):", "for row, col, val in mdl.triplets.zip_ijv(jname + 'cc'):"), rule="C03.pattern")
V("C03", "rebuild_branch_swapped", "violation", (SYSTEM, "+= spmatrix(vals, rows, cols, j_size, 'd')", "+= spmatrix(vals, cols, rows, j_size, 'd')"), rule="C03.pattern")
V("C03", "benign_rename_locals", "silent", (SYSTEM, "                for rows, cols, vals in mdl.triplets.zip_ijv(j_name):\n                    try:\n                        if self.config.ipadd:\n                            self.dae.__dict__[j_name].ipadd(vals, rows, cols)\n                        else:\n                            self.dae.__dict__[j_name] += spmatrix(vals, rows, cols, j_size, 'd')",
  "                for rr, cc, vv in mdl.triplets.zip_ijv(j_name):\n                    rows, cols, vals = rr, cc, vv\n                    try:\n                        if self.config.ipadd:\n                            self.dae.__dict__[j_name].ipadd(vv, rr, cc)\n                        else:\n                            self.dae.__dict__[j_name] += spmatrix(vv, rr, cc, j_size, 'd')"))

# ---------------- C04
V("C04", "trapezoid_weight", "violation", (DAEINT, "return Tf * (x - x0) - h * 0.5 * (f + f0)", "return Tf * (x - x0) - h * 0.6 * (f + f0)"), rule="C04.rule")
V("C04", "trapezoid_drop_f0", "violation", (DAEINT, "return Tf * (x - x0) - h * 0.5 * (f + f0)", "return Tf * (x - x0) - h * 0.5 * (f + f)"), rule="C04.rule")
V("C04", "backeuler_jac_half", "violation", (DAEINT, "return sparse([[tds.Teye - tds.h * dae.fx, gxs],\n                       [-tds.h * dae.fy, gys]], 'd')", "return sparse([[tds.Teye - tds.h * dae.fx, gxs],\n                       [-tds.h * 0.5 * dae.fy, gys]], 'd')"), rule="C04.rule")
V("C04", "no_restore_f", "violation", (DAEINT, "            dae.f[:] = np.array(tds.f0)\n", ""), rule="C04.restore")
V("C04", "accept_loose_tol", "violation", (DAEINT, "if abs(mis) <= tds.config.tol:", "if abs(mis) <= 100 * tds.config.tol:"), rule="C04.accept")
V("C04", "no_tf_clip", "violation", (TDS, "            self.h = max(config.tf - system.dae.t, 0)\n", "            self.h = max(self.h, 0)\n"), rule="C04.stepsize")
V("C04", "fixt_growth_unclipped", "violation", (TDS, "                if config.fixt:\n                    self.deltat = min(config.tstep, self.deltat)\n", ""), rule="C04.stepsize")
V("C04", "reject_no_rewind", "violation", (TDS, "                if clock_ahead:\n                    dae.t[...] = self._t_prev\n", ""), rule="C04.rollback")
V("C04", "reject_rewind_unconditional", "violation", (TDS, "                if clock_ahead:\n                    dae.t[...] = self._t_prev\n", "                dae.t -= self.h\n"), rule="C04.rollback")
V("C04", "reject_no_readvance", "violation", (TDS, "                if clock_ahead:\n                    self._advance_time()\n", ""), rule="C04.rollback")
V("C04", "typestate_set_outside_helper", "violation", (TDS, "        self.initialized = True\n", "        self.initialized = True\n        self._t_prev = system.dae.t.copy()\n"), rule="C04.rollback")
V("C04", "benign_reject_flag_inline", "silent", (TDS, "                clock_ahead = self._t_prev is not None\n                if clock_ahead:\n                    dae.t[...] = self._t_prev\n", "                clock_ahead = not (self._t_prev is None)\n                if self._t_prev is not None:\n                    dae.t[...] = self._t_prev\n"))
V("C04", "scale_mismatch", "violation", (DAEINT, "tds.qg[dae.n:] = tds.config.g_scale * tds.h * dae.g", "tds.qg[dae.n:] = tds.config.g_scale * dae.g"), rule="C04.scale")
V("C04", "benign_theta_rewrite", "silent", (DAEINT, "return Tf * (x - x0) - h * 0.5 * (f + f0)", "return Tf * (x - x0) - 0.5 * h * f - 0.5 * h * f0"))

# ---------------- C08
EIG = "andes/routines/eig.py"
V("C08", "neg_count_overlaps", "violation", (EIG, "np.count_nonzero(mu_real < -self.config.tol)", "np.count_nonzero(mu_real < self.config.tol)"), rule="C08.partition")
V("C08", "zero_band_strict", "violation", (EIG, "np.count_nonzero(abs(mu_real) <= self.config.tol)", "np.count_nonzero(abs(mu_real) < self.config.tol)"), rule="C08.partition")
V("C08", "reduce_sign", "violation", (EIG, "self.fxy = (fx - fy * self.gyx)", "self.fxy = (fx + fy * self.gyx)"), rule="C08.formula")
V("C08", "reduce_order", "violation", (EIG, "self.fxy = (fx - fy * self.gyx)", "self.fxy = (fx - self.gyx * fy)"), rule="C08.formula")
V("C08", "reduce_wrong_solve", "violation", (EIG, "        self.gyx = matrix(gx)\n        # use the returned solution: not every back-end overwrites the right-hand side in place\n        sol = self.solver.linsolve(gy, self.gyx)", "        self.gyx = matrix(gy)\n        sol = self.solver.linsolve(gx, self.gyx)"), rule="C08.formula")
V("C08", "pfactor_axis", "violation", (EIG, "pfactor[item, :] /= W_abs[item]", "pfactor[:, item] /= W_abs[item]"), rule="C08.axes")
V("C08", "pfactor_no_transpose", "violation", (EIG, "        pfactor = pfactor.T\n", ""), rule="C08.axes")
V("C08", "double_scaling", "violation", (EIG, "nTf = np.ones(self.nz_counts)", "nTf = np.delete(self.system.dae.Tf, self.zstate_idx)"), rule="C08.scaling")
V("C08", "reorder_no_advance", "violation", (EIG, "                swaps.append((ii, bidx))\n                bidx += 1\n", "                swaps.append((ii, bidx))\n"), rule="C08.reorder")
V("C08", "benign_pfactor_rename", "silent", (EIG, "        for item in range(n_state):\n            pfactor[item, :] /= W_abs[item]", "        for k in range(n_state):\n            pfactor[k, :] /= W_abs[k]"))
V("C08", "benign_reduce_commuted_sum", "silent", (EIG, "self.fxy = (fx - fy * self.gyx)", "self.fxy = (-(fy * self.gyx) + fx)"))

# ---------------- C16 / C17
SS = "andes/linsolvers/suitesparse.py"
SC = "andes/linsolvers/scipy.py"
V("C16", "retry_drops_result", "violation", (SS, "            self.F = self._symbolic(self.A)\n\n            return self.solve(self.A, self.b)", "            self.F = self._symbolic(self.A)\n            self.solve(self.A, self.b)\n\n            return np.ravel(self.b)"), rule="C16.factorise")
V("C16", "klu_linsolve_returns_rhs", "violation", (SS, "            klu.linsolve(A, b)\n        except ArithmeticError:\n            logger.error('Singular matrix. Case is not solvable')\n            return np.ravel(matrix(np.nan, b.size, 'd'))", "            klu.linsolve(A, b)\n        except ArithmeticError:\n            logger.error('Singular matrix. Case is not solvable')"), rule="C16.singular")
V("C16", "solve_skips_numeric", "violation", (SS, "            self.N = self._numeric(self.A, self.F)\n            self._solve(self.A, self.F, self.N, self.b)", "            if self.N is None:\n                self.N = self._numeric(self.A, self.F)\n            self._solve(self.A, self.F, self.N, self.b)"), rule="C16.factorise")
V("C16", "spsolve_ignores_new_A", "violation", (SC, "        if self.factorize or self.new_A:", "        if self.factorize:"), rule="C16.factorise")
V("C16", "ccs_swapped", "violation", (SC, "    indices = np.array(ccs[1]).ravel()\n    indptr = np.array(ccs[0]).ravel()", "    indices = np.array(ccs[0]).ravel()\n    indptr = np.array(ccs[1]).ravel()"), rule="C16.ccs")
V("C16", "pflow_no_refresh_flag", "violation", (PFLOW, "            system.j_update(self.models)\n            self.solver.worker.new_A = True", "            system.j_update(self.models)"), rule="C16.refresh")
V("C16", "umfpack_solve_args", "violation", (SS, "        umfpack.solve(A, N, b)", "        umfpack.solve(A, F, b)"), rule="C16.factorise")
V("C16", "benign_singular_helper", "silent", (SS, "            return np.ravel(matrix(np.nan, self.b.size, 'd'))", "            nan_vec = matrix(np.nan, self.b.size, 'd')\n            return np.ravel(nan_vec)"))
V("C17", "pflow_no_elements_silent", "violation", (PFLOW, "            logger.error(\"Loaded case contains no power flow element.\")\n            system.exit_code += 1\n            return False", "            logger.error(\"Loaded case contains no power flow element.\")\n            return False"), rule="C17.exit")
V("C17", "tds_success_without_tf", "violation", (TDS, "        elif system.dae.t == self.config.tf:\n            succeed = True   # success flag", "        elif system.dae.t >= 0:\n            succeed = True   # success flag"), rule="C17.success")
V("C17", "tds_else_no_exit", "violation", (TDS, "            self.pbar.update(100 - self.last_pc)\n        else:\n            system.exit_code += 1", "            self.pbar.update(100 - self.last_pc)\n        else:\n            pass"), rule="C17.exit")
V("C17", "test_init_loose", "violation", (TDS, "        if np.max(np.abs(system.dae.fg)) < self.config.tol:", "        if np.max(np.abs(system.dae.fg)) < 1.0:"), rule="C17.success")
V("C17", "tds_gate_removed", "violation", (TDS, "        if system.PFlow.converged is False:\n            logger.warning('Power flow not solved. Simulation will not continue.')\n            system.exit_code += 1\n            return succeed", "        if system.PFlow.converged is False:\n            logger.warning('Power flow not solved. Simulation will not continue.')"), rule="C17.gate")
V("C17", "eig_precheck_continues", "violation", ("andes/routines/eig.py", "            logger.warning('Power flow not solved. Eig analysis will not continue.')\n            return False", "            logger.warning('Power flow not solved. Eig analysis will not continue.')\n            status = False"), rule="C17.gate")
V("C17", "main_none_system_ok", "violation", ("andes/main.py", "        if system is not None:\n            ex_code += system.exit_code\n        else:\n            ex_code += 1", "        if system is not None:\n            ex_code += system.exit_code"), rule="C17.aggregate")
V("C17", "nk_except_success", "violation", (PFLOW, "            logger.error(e)\n            self.converged = False", "            logger.error(e)\n            self.converged = True"), rule="C17.success")
V("C17", "benign_exit_code_value", "silent", (PFLOW, "            system.exit_code += 1\n            return False", "            system.exit_code += 2\n            return False"))

# ---------------- C06
PARAM = "andes/core/param.py"
TIMER = "andes/models/timer.py"
V("C06", "is_time_isclose", "violation", (PARAM, "        return np.equal(dae_t, self.v)", "        return np.isclose(dae_t, self.v)"), rule="C06.comparator")
V("C06", "is_time_ge", "violation", (PARAM, "        return np.equal(dae_t, self.v)", "        return np.greater_equal(dae_t, self.v)"), rule="C06.comparator")
V("C06", "do_switch_isclose", "violation", (TDS, "if np.equal(system.dae.t, system.switch_times[self._switch_idx]):", "if np.isclose(system.dae.t, system.switch_times[self._switch_idx]):"), rule="C06.comparator")
V("C06", "benign_is_time_eq_operator", "silent", (PARAM, "        return np.equal(dae_t, self.v)", "        return dae_t == self.v"))
V("C06", "calc_h_skip_event", "violation", (TDS, "        # do not skip over event switch_times\n", "        if self._switch_idx < system.n_switches:\n            if (not resume) and (system.dae.t == system.switch_times[self._switch_idx]):\n                self._switch_idx += 1\n\n        # do not skip over event switch_times\n"), rule="C06.advance")
V("C06", "no_advance_after_dispatch", "violation", (TDS, "                # progress `_switch_idx` to avoid calling the same event if time gets stuck\n                self._switch_idx += 1\n", ""), rule="C06.advance")
V("C06", "init_no_t0_dispatch", "violation", (TDS, "        if self.data_csv is None:\n            self.do_switch()\n", ""), rule="C06.t0")
V("C06", "toggle_ignores_u", "violation", (TIMER, "            if (is_time[i] == 0) or (self.u.v[i] == 0):\n                continue\n\n            instance = self.system.__dict__[self.model.v[i]]", "            if (is_time[i] == 0):\n                continue\n\n            instance = self.system.__dict__[self.model.v[i]]"), rule="C06.callback")
V("C06", "clear_fault_wrong_index", "violation", (TIMER, "            if is_time[i] and (self.u.v[i] == 1):\n                self.uf.v[i] = 0", "            if is_time[i] and (self.u.v[i] == 1):\n                self.uf.v[0] = 0"), rule="C06.callback")
V("C06", "alter_guard_or", "violation", (TIMER, "            if (not is_time[ii]) or (self.u.v[ii] == 0):", "            if (not is_time[ii]) and (self.u.v[ii] == 0):"), rule="C06.callback")
V("C06", "schedule_overwrite", "violation", (SYSTEM, "                self.switch_dict[i].update({j: self.models[j]})", "                self.switch_dict[i] = {j: self.models[j]}"), rule="C06.schedule")
V("C06", "schedule_drops_current", "violation", (SYSTEM, "ltzero_idx = np.where(out >= self.dae.t)[0]", "ltzero_idx = np.where(out > self.dae.t)[0]"), rule="C06.schedule")
V("C06", "no_switch_clip", "violation", (TDS, "                self.h = system.switch_times[self._switch_idx] - system.dae.t\n", "                pass\n"), rule="C06.clip")
V("C06", "benign_callback_guard_form", "silent", (TIMER, "            if (is_time[i] == 0) or (self.u.v[i] == 0):\n                continue\n\n            instance = self.system.__dict__[self.model.v[i]]", "            if not (is_time[i] and self.u.v[i] != 0):\n                continue\n\n            instance = self.system.__dict__[self.model.v[i]]"))

# ---------------- C18
BLOCK = "andes/core/block.py"
V("C18", "pid_td_unused", "violation", (BLOCK, "        self.PIC = PIController(info=\"PIC\", tex_name=\"PIC\",\n                                u=self.uin, kp=self.kp, ki=self.ki, x0=x0)\n        self.WO = Washout(info='Washout', tex_name='WO',\n                          u=self.uin, K=self.kd, T=self.Td)", "        self.PIC = PIController(info=\"PIC\", tex_name=\"PIC\",\n                                u=self.uin, kp=self.kp, ki=self.ki, x0=x0)\n        self.WO = Washout(info='Washout', tex_name='WO',\n                          u=self.uin, K=self.kd, T=self.kd)"), rule="C18.tf")
V("C18", "leadlag_init_no_gain", "violation", (BLOCK, "        self.y.v_str = f'{self.K.name} * {self.u.name}'\n\n        self.x.e_str = f'({self.u.name} - {self.name}_x)'\n        self.y.e_str = f'{self.K.name} * {self.T1.name}", "        self.y.v_str = f'{self.u.name}'\n\n        self.x.e_str = f'({self.u.name} - {self.name}_x)'\n        self.y.e_str = f'{self.K.name} * {self.T1.name}"), rule="C18.balance")
V("C18", "lag_sign", "violation", (BLOCK, "        self.y.e_str = f'({self.K.name} * {self.u.name} - {self.D.name} * {self.name}_y)'", "        self.y.e_str = f'({self.K.name} * {self.u.name} + {self.D.name} * {self.name}_y)'"), rule="C18.tf")
V("C18", "washout_gain_dropped", "violation", (BLOCK, "        self.y.e_str = f'{self.K.name} * ({self.u.name} - {self.name}_x) - {self.T.name} * {self.name}_y'", "        self.y.e_str = f'({self.u.name} - {self.name}_x) - {self.T.name} * {self.name}_y'"), rule="C18.tf")
V("C18", "lag2nd_swapped_T", "violation", (BLOCK, "        self.x = State(info='State in 2nd order LPF', tex_name=\"x'\", t_const=self.T2)", "        self.x = State(info='State in 2nd order LPF', tex_name=\"x'\", t_const=self.T1)"), rule="C18.tf")
V("C18", "lagaw_differs_from_lag", "violation", (BLOCK, "        self.lim = AntiWindup(u=self.y, lower=self.lower, upper=self.upper, tex_name='lim',\n                              info='Limiter in Lag')\n\n        self.vars = {'y': self.y, 'lim': self.lim}\n\n    def define(self):", "        self.lim = AntiWindup(u=self.y, lower=self.lower, upper=self.upper, tex_name='lim',\n                              info='Limiter in Lag')\n\n        self.vars = {'y': self.y, 'lim': self.lim}\n        self.D = dummify(2 * 1)\n\n    def define(self):"), rule="C18")
V("C18", "hvgate_is_min", "violation", (BLOCK, "        self.y.v_str = f'{self.name}_lt_z0*{self.u1.name} + {self.name}_lt_z1*{self.u2.name}'\n        self.y.e_str = f'{self.name}_lt_z0*{self.u1.name} + {self.name}_lt_z1*{self.u2.name} - ' \\\n", "        self.y.v_str = f'{self.name}_lt_z0*{self.u1.name} + {self.name}_lt_z1*{self.u2.name}'\n        self.y.e_str = f'{self.name}_lt_z1*{self.u1.name} + {self.name}_lt_z0*{self.u2.name} - ' \\\n"), rule="C18.gate")
V("C18", "pi_init_no_x0", "violation", (BLOCK, "        self.y.v_str = f'{self.kp.name} * ({self.u.name} - {self.ref.name}) + {self.x0.name}'\n        self.y.e_str = f'{self.kp.name} * ({self.u.name} - {self.ref.name}) + ' \\\n                       f'{self.name}_xi - {self.name}_y'", "        self.y.v_str = f'{self.kp.name} * ({self.u.name} - {self.ref.name}) + 1'\n        self.y.e_str = f'{self.kp.name} * ({self.u.name} - {self.ref.name}) + ' \\\n                       f'{self.name}_xi - {self.name}_y'"), rule="C18.balance")
V("C18", "benign_lag_rewrite", "silent", (BLOCK, "        self.y.e_str = f'({self.K.name} * {self.u.name} - {self.D.name} * {self.name}_y)'", "        self.y.e_str = f'(-{self.D.name} * {self.name}_y + {self.u.name} * {self.K.name})'"))

# ---------------- C09
DISC = "andes/core/discrete.py"
V("C09", "limiter_zl_strict", "violation", (DISC, "            if self.equal:\n                self.zl[:] = np.less_equal(self.u.v, lower_v)\n            else:\n                self.zl[:] = np.less(self.u.v, lower_v)", "            if self.equal:\n                self.zl[:] = np.less(self.u.v, lower_v)\n            else:\n                self.zl[:] = np.less(self.u.v, lower_v)"), rule="C09.limiter")
V("C09", "limiter_zi_and", "violation", (DISC, "                self.zl[:] = np.less(self.u.v, lower_v)\n\n        self.zi[:] = np.logical_not(np.logical_or(self.zu, self.zl))", "                self.zl[:] = np.less(self.u.v, lower_v)\n\n        self.zi[:] = np.logical_not(np.logical_and(self.zu, self.zl))"), rule="C09.limiter")
V("C09", "limiter_sign_ignored", "violation", (DISC, "            lower_v = -self.lower.v if self.sign_lower.v == -1 else self.lower.v\n\n            # FIXME: adjust will not be successful when sign is -1\n            if self.allow_adjust and is_init:\n                self.do_adjust_lower(self.u.v, lower_v, allow_adjust, adjust_lower)", "            lower_v = self.lower.v\n\n            # FIXME: adjust will not be successful when sign is -1\n            if self.allow_adjust and is_init:\n                self.do_adjust_lower(self.u.v, lower_v, allow_adjust, adjust_lower)"), rule="C09.limiter")
V("C09", "aw_ignores_derivative", "violation", (DISC, "            self.zu[:] = np.logical_and(np.greater_equal(self.u.v, upper_v),\n                                        np.greater_equal(self.state.e, 0))", "            self.zu[:] = np.greater_equal(self.u.v, upper_v)"), rule="C09.antiwindup")
V("C09", "aw_peg_wrong_limit", "violation", (DISC, "                self.state.v[:] += lower_v * self.zl", "                self.state.v[:] += upper_v * self.zl"), rule="C09.antiwindup")
V("C09", "aw_xset_accumulates", "violation", (DISC, "        # must flush the `x_set` list at the beginning\n        self.x_set = list()\n", "        # must flush the `x_set` list at the beginning\n"), rule="C09.antiwindup")
V("C09", "aw_xset_order", "violation", (DISC, "            self.x_set.append((self.state.a[idx], self.state.v[idx], 0))", "            self.x_set.append((self.state.a[idx], 0, self.state.v[idx]))"), rule="C09")
V("C09", "lessthan_inverted", "violation", (DISC, "            self.z1[:] = np.less(self.u.v, self.bound.v)", "            self.z1[:] = np.greater(self.u.v, self.bound.v)"), rule="C09.limiter")
V("C09", "dbrt_self_compare", "violation", (DISC, "self.zur * np.equal(zi0, self.zi)", "self.zur * np.equal(self.zi, self.zi)"), rule="C09")
V("C09", "tds_order_eq_before_f", "violation", (TDS, "        system.f_update(models=models)\n        system.l_update_eq(models=models, init=init, niter=self.niter)\n", "        system.l_update_eq(models=models, init=init, niter=self.niter)\n        system.f_update(models=models)\n"), rule="C09.order")
V("C09", "consumer_swaps_tuple", "violation", (SYSTEM, "                for key, val, _ in item.x_set:\n                    np.put(self.dae.x, key, val)", "                for key, _, val in item.x_set:\n                    np.put(self.dae.x, key, val)"), rule="C09.xset")
V("C09", "rate_limiter_no_clip", "violation", (DISC, "            self.u.e[np.where(self.zur)] = self.rate_upper.v[np.where(self.zur)]", "            pass"), rule="C09.antiwindup")
V("C09", "benign_limiter_temp", "silent", (DISC, "        self.zi[:] = np.logical_not(np.logical_or(self.zu, self.zl))\n\n    def do_adjust_lower", "        outside = np.logical_or(self.zu, self.zl)\n        self.zi[:] = np.logical_not(outside)\n\n    def do_adjust_lower"))


# ---------------- C05
GENBASE = "andes/models/synchronous/genbase.py"
V("C05", "syngen_keeps_static_on", "violation", (GENBASE, "        self.system.groups['StaticGen'].set(src='u', idx=mask_idx, attr='v', value=0)", "        self.system.groups['StaticGen'].set(src='u', idx=mask_idx, attr='v', value=1)"), rule="C05.static-dynamic")
V("C05", "zip_keeps_pq_on", "violation", ("andes/models/dynload/zip.py", "        self.system.groups['StaticLoad'].set(src='u', idx=mask_idx, attr='v', value=0)", "        pass"), rule="C05.static-dynamic")
V("C05", "init_deps_ignored", "violation", (SYMP, "        for name, expr in self.v_str_syms.items():\n            _store_deps(name, expr, self.vars_dict, deps)", "        for name, expr in self.v_str_syms.items():\n            _store_deps(name, expr, {}, deps)"), rule="C05.init-order")
V("C05", "init_always_accumulates", "violation", (MODEL, "                            instance.v[:] = self.calls.ia[name](*self.ia_args[name])\n\n                        else:", "                            instance.v[:] += self.calls.ia[name](*self.ia_args[name])\n\n                        else:"), rule="C05.handover")
V("C05", "pf_solution_after_extension", "violation", (TDS, "        system.dae.y[:len(system.PFlow.y_sol)] = system.PFlow.y_sol\n        system.dae.t -= system.dae.t   # set `dae.t` to zero\n", "        system.dae.t -= system.dae.t   # set `dae.t` to zero\n"), (TDS, "        system.set_dae_names(models=system.exist.tds)\n", "        system.set_dae_names(models=system.exist.tds)\n        system.dae.y[:len(system.PFlow.y_sol)] = system.PFlow.y_sol\n"), rule="C05.handover")
V("C05", "test_init_zeroes_residual", "violation", (TDS, "        system.dae.f[system.no_check_init] = 0.0\n", "        system.dae.f[system.no_check_init] = 0.0\n        system.dae.g[:] = 0.0\n"), rule="C05.verdict")
V("C05", "syngen_tm_init_off", "violation", (GENBASE, "                        v_str='tm0',\n                        e_str='tm0 - tm'", "                        v_str='tm0 * 1.01',\n                        e_str='tm0 - tm'"), rule="C05.equilibrium", tier="thorough")
V("C05", "tgov1_pd_init", "violation", ("andes/models/governor/tgov1.py", "                        v_str='ue * tm0',\n                        e_str='ue*(- wd + pref + paux) * gain - pd')", "                        v_str='ue * tm0 * 0.9',\n                        e_str='ue*(- wd + pref + paux) * gain - pd')"), rule="C05.equilibrium", tier="thorough")
V("C05", "benign_v_numeric_refactor", "silent", (GENBASE, "        mask_idx = [self.gen.v[i] for i in range(self.n) if self.u.v[i] == 1]\n        self.system.groups['StaticGen'].set(src='u', idx=mask_idx, attr='v', value=0)", "        online = [self.gen.v[i] for i in range(self.n) if self.u.v[i] == 1]\n        self.system.groups['StaticGen'].set(src='u', idx=online, attr='v', value=0)"))

# ---------------- C10
DAEF = "andes/variables/dae.py"
VARF = "andes/core/var.py"
V("C10", "contiguous_off_by_one", "violation", (DAEF, "out.append(np.arange(idx_begin + idx * ndevice, idx_begin + (idx + 1) * ndevice))", "out.append(np.arange(idx_begin + idx * ndevice, idx_begin + (idx + 1) * ndevice - 1))"), rule="C10.tiling")
V("C10", "collate_wrong_step", "violation", (DAEF, "out.append(np.arange(idx_begin + idx, idx_end, nvar))", "out.append(np.arange(idx_begin + idx, idx_end, ndevice))"), rule="C10.tiling")
V("C10", "counter_not_advanced", "violation", (DAEF, "        self.__dict__[counter_name] = idx_end\n", ""), rule="C10.tiling")
V("C10", "rhs_counter_wrong_len", "violation", (SYSTEM, "                self.dae.q += item.n\n", "                self.dae.q += mdl.n\n"), rule="C10.alloc")
V("C10", "extvar_ignores_indexer", "violation", (VARF, "                uid = ext_model.idx2uid(self.indexer.v)\n            else:\n                uid = np.arange(ext_model.n, dtype=int)\n\n            self._n", "                uid = np.arange(len(self.indexer.v), dtype=int)\n            else:\n                uid = np.arange(ext_model.n, dtype=int)\n\n            self._n"), rule="C10.link")
V("C10", "names_use_uid_order", "violation", (SYSTEM, "        for idx_item, addr in zip(idx.v, item.a):\n            dests[0][addr] = f'{name} {_append_model_name(mdl_name, idx_item)}'", "        for idx_item, addr in zip(sorted(idx.v, key=str), item.a):\n            dests[0][addr] = f'{name} {_append_model_name(mdl_name, idx_item)}'"), rule="C10.names")
V("C10", "group_get_uses_group_uid", "violation", ("andes/models/group.py", "                uid = models[i].idx2uid(idx)\n                instance = models[i].__dict__[src]\n                val = instance.__dict__[attr][uid]", "                uid = self.uid[idx]\n                instance = models[i].__dict__[src]\n                val = instance.__dict__[attr][uid]"), rule="C10.reader")
V("C10", "benign_tiling_rewrite", "silent", (DAEF, "out.append(np.arange(idx_begin + idx * ndevice, idx_begin + (idx + 1) * ndevice))", "out.append(np.arange(idx_begin + ndevice * idx, idx_begin + ndevice * idx + ndevice))"))

# ---------------- C11
PARAMF = "andes/core/param.py"
V("C11", "coeff_z_inverted", "violation", (SYSTEM, "                      'z': Zn / Zb,\n                      'y': Zb / Zn,", "                      'z': Zb / Zn,\n                      'y': Zb / Zn,"), rule="C11.coeff")
V("C11", "coeff_current_no_voltage", "violation", (SYSTEM, "'current': (Sn / Vn) / (Sb / Vb),", "'current': Sn / Sb,"), rule="C11.coeff")
V("C11", "zb_uses_device_voltage", "violation", (SYSTEM, "            Zb = Vb ** 2 / Sb\n", "            Zb = Vn ** 2 / Sb\n"), rule="C11.coeff")
V("C11", "alter_vin_branch_multiplies", "violation", (MODEL, "self.set(src, idx, 'vin', value / instance.pu_coeff[uid])", "self.set(src, idx, 'vin', value * instance.pu_coeff[uid])"), rule="C11.invariant")
V("C11", "alter_forgets_vin", "violation", (MODEL, "                self.set(src, idx, 'vin', value)\n                self.set(src, idx, 'v', value * instance.pu_coeff[uid])", "                self.set(src, idx, 'v', value * instance.pu_coeff[uid])"), rule="C11.invariant")
V("C11", "set_pu_coeff_no_recompute", "violation", (PARAMF, "        self.v[:] = self.vin * self.pu_coeff\n\n    def restore", "\n    def restore"), rule="C11.invariant")
V("C11", "teye_not_updated", "violation", (MODEL, "                        self.system.TDS.Teye[uid_int[ii], uid_int[ii]] = instance.v[ii]", "                        pass"), rule="C11.tconst")
V("C11", "json_no_refresh", "violation", ("andes/io/json.py", "        instance.cache.refresh(\"df_in\")\n", ""), rule="C11.export")
V("C11", "reset_no_restore", "violation", (SYSTEM, "        self._p_restore()\n        self.is_setup = False", "        self.is_setup = False"), rule="C11.reset")
V("C11", "benign_coeff_rewrite", "silent", (SYSTEM, "'current': (Sn / Vn) / (Sb / Vb),", "'current': (Sn * Vb) / (Sb * Vn),"))

# ---------------- C12
CONN = "andes/core/connman.py"
V("C12", "bus_deps_drops_shunt", "violation", (CONN, "    ('StaticShunt', ['bus']),\n", ""), rule="C12.bus-deps")
V("C12", "bus_deps_line_one_end", "violation", (CONN, "    ('ACLine', ['bus1', 'bus2']),", "    ('ACLine', ['bus1']),"), rule="C12.bus-deps")
V("C12", "connectivity_forgets_jumper", "violation", (SYSTEM, "        fr.extend(self.Jumper.a1.a.tolist())\n        to.extend(self.Jumper.a2.a.tolist())\n        u.extend(self.Jumper.u.v.tolist())\n", ""), rule="C12.series")
V("C12", "edge_status_mixed", "violation", (SYSTEM, "        u.extend(self.Jumper.u.v.tolist())", "        u.extend(self.Line.u.v.tolist()[:self.Jumper.n])"), rule="C12.series")
V("C12", "adjacency_one_way", "violation", (SYSTEM, "                        fr + to + fr + to,\n                        to + fr + fr + to,", "                        fr + fr + fr + to,\n                        to + to + fr + to,"), rule="C12.series")
V("C12", "msw_threshold", "violation", (SYSTEM, "                elif nosw < 0:\n                    self.Bus.msw_island.append(idx)", "                elif nosw < -1:\n                    self.Bus.msw_island.append(idx)"), rule="C12.slack")
V("C12", "slack_status_ignored", "violation", (SYSTEM, "                    if (u == 1) and (item in island):", "                    if (item in island):"), rule="C12.slack")
V("C12", "g_islands_before_collect", "violation", (SYSTEM, "        self._e_to_dae(('f', 'g'))\n\n        # reset mismatches for islanded buses\n        self.g_islands()", "        # reset mismatches for islanded buses\n        self.g_islands()\n        self._e_to_dae(('f', 'g'))"), rule="C12.neutralise")
V("C12", "no_recheck_after_event", "violation", (TDS, "        if ret is True and self.config.check_conn == 1:\n            system.connectivity(info=False)", "        if ret is True and self.config.check_conn == 1:\n            pass"), rule="C12.recheck")
V("C12", "act_whole_list_sentinel", "violation", (CONN, "                grp_devs_flat = [dev for dev in list_flatten(grp_devs) if dev is not None]\n                if len(grp_devs_flat) > 0:", "                grp_devs_flat = list_flatten(grp_devs)\n                if grp_devs_flat != [None]:"), rule="C12.bus-deps")
V("C12", "record_overwrites_pending", "violation", (CONN, "        self.changes['off'][...] = np.logical_or(self.changes['off'],\n                                                 np.logical_and(self.busu0 == 1, self.system.Bus.u.v == 0))", "        self.changes['off'][...] = np.logical_and(self.busu0 == 1, self.system.Bus.u.v == 0)"), rule="C12.bus-deps")
V("C12", "find_idx_first_model_only", "violation", ("andes/models/group.py", "                if item != [default]:\n                    found.extend(item)\n", "                if item != [default]:\n                    found.extend(item)\n                    break\n"), rule="C12.bus-deps")
V("C12", "act_lookup_first_match_only", "violation", (CONN, "allow_none=True, allow_all=True,\n                                                                   default=None)", "allow_none=True, default=None)"), rule="C12.bus-deps")
V("C12", "benign_sentinel_loop_filter", "silent", (CONN, "                grp_devs_flat = [dev for dev in list_flatten(grp_devs) if dev is not None]\n", "                grp_devs_flat = []\n                for dev in list_flatten(grp_devs):\n                    if dev is None:\n                        continue\n                    grp_devs_flat.append(dev)\n"))
V("C12", "benign_bus_deps_order", "silent", (CONN, "    ('StaticLoad', ['bus']),\n    ('StaticShunt', ['bus']),", "    ('StaticShunt', ['bus']),\n    ('StaticLoad', ['bus']),"))

# ---------------- C13
MPCF = "andes/io/matpower.py"
V("C13", "mpc_export_overwrites_loads", "violation", (MPCF, "        np.add.at(bus[:, 2], pq_pos, system.PQ.p0.v * base_mva)", "        bus[pq_pos, 2] = system.PQ.p0.v * base_mva"), rule="C13.scatter")
V("C13", "mpc_export_q_not_scaled", "violation", (MPCF, "        gen[system.Slack.n:, 2] = system.PV.q0.v * base_mva", "        gen[system.Slack.n:, 2] = system.PV.q0.v"), rule="C13.mpc-inverse")
V("C13", "mpc_export_qlimits_swapped", "violation", (MPCF, "        gen[system.Slack.n:, 3] = system.PV.qmax.v * base_mva\n        gen[system.Slack.n:, 4] = system.PV.qmin.v * base_mva", "        gen[system.Slack.n:, 3] = system.PV.qmin.v * base_mva\n        gen[system.Slack.n:, 4] = system.PV.qmax.v * base_mva"), rule="C13.mpc-inverse")
V("C13", "mpc_import_angle_degrees", "violation", (MPCF, "        vang = data[8] * deg2rad", "        vang = data[8]"), rule="C13.mpc-inverse")
V("C13", "mpc_export_phi_radians", "violation", (MPCF, "        branch[:, 9] = system.Line.phi.v * rad2deg", "        branch[:, 9] = system.Line.phi.v"), rule="C13.mpc-inverse")
V("C13", "dyr_bad_output_key", "violation", ("andes/io/psse-dyr.yaml", "        Tpord: Tprod\n", "        Tprod: Tprod\n"), rule="C13.dyr")
V("C13", "json_reader_skips_rows", "violation", ("andes/io/json.py", "        for row in dct:\n            system.add(name, row)", "        for row in dct[:1]:\n            system.__dict__[name].add(**row)"), rule="C13.roundtrip")
V("C13", "add_keeps_uid", "violation", (SYSTEM, "        param_dict.pop('uid', None)\n", ""), rule="C13.roundtrip")
V("C13", "benign_mpc_local_rename", "silent", (MPCF, "        vang = data[8] * deg2rad\n", "        vang = data[8] * deg2rad  # radians\n"))

# ---------------- C14
SNAP = "andes/utils/snapshot.py"
V("C14", "run_always_inits", "violation", (TDS, "        resume = not (system.dae.t < 0)\n", "        resume = not (system.dae.t <= 0)\n"), rule="C14.resume")
V("C14", "run_resume_and_init_both", "violation", (TDS, "        if resume:\n            self.init_resume()\n", "        self.init_resume()\n"), rule="C14.resume")
V("C14", "benign_run_dispatch_if_else", "silent", (TDS, "        resume = not (system.dae.t < 0)\n        if not resume:\n            self.init()\n", "        resume = system.dae.t >= 0\n        if system.dae.t < 0:\n            self.init()\n"))
V("C14", "resume_rebuilds_schedule", "violation", (TDS, "        self.calc_h(resume=True)\n        self._advance_time()", "        system.store_switch_times(system.exist.tds)\n        self.calc_h(resume=True)\n        self._advance_time()"), rule="C14.resume")
V("C14", "pbar_kept", "violation", (TDS, "        self.pbar.close()\n        self.pbar = None\n", "        self.pbar.close()\n"), rule="C14.resume")
V("C14", "snapshot_no_strip", "violation", (SNAP, "    system.remove_pycapsule()\n", ""), rule="C14.snapshot")
V("C14", "snapshot_fix_before_load", "violation", (SNAP, "    # point the \"view arrays\" to the correct memory\n    fix_view_arrays(system)\n", ""), rule="C14.snapshot")
V("C14", "clear_keeps_factor", "violation", ("andes/linsolvers/suitesparse.py", "        self._pat = None  # sparsity pattern `F` belongs to\n        self.factorize = True\n        self.use_linsolve = False", "        self._pat = None  # sparsity pattern `F` belongs to\n        self.use_linsolve = False"), rule="C14.snapshot")
V("C14", "benign_resume_log", "silent", (TDS, "        logger.debug(\"Resuming from t=%.4fs.\", system.dae.t)", "        logger.debug(\"Resuming from time t=%.6fs.\", system.dae.t)"))

# ---------------- C15
V("C15", "store_aliases_live_array", "violation", (DAEF, "            ts._xs[t] = np.array(self.x)\n            ts._ys[t] = np.array(self.y)", "            ts._xs[t] = self.x\n            ts._ys[t] = np.array(self.y)"), rule="C15.copy")
V("C15", "txyz_order_swapped", "violation", (DAEF, "self.txyz = np.hstack((self.t.reshape((-1, 1)), self.x, self.y, self.z))", "self.txyz = np.hstack((self.t.reshape((-1, 1)), self.y, self.x, self.z))"), rule="C15.order")
V("C15", "output_idx_unsorted", "violation", (SYSTEM, "        self.Output.xidx = sorted(np.unique(export_vars['x']))", "        self.Output.xidx = list(export_vars['x'])"), rule="C15.index")
V("C15", "names_wrong_index_set", "violation", (DAEF, "            return [self.y_name[i] for i in self.system.Output.yidx]", "            return [self.y_name[i] for i in self.system.Output.xidx]"), rule="C15.index")
V("C15", "store_rejected_steps", "violation", (TDS, "            if step_status:\n                if config.save_every != 0:", "            if True:\n                if config.save_every != 0:"), rule="C15.flow")
V("C15", "offload_reset_first", "violation", (TDS, "                    # write to file if enabled\n                    if not system.files.no_output:\n                        self.save_output()", "                    dae.ts.reset()\n                    # write to file if enabled\n                    if not system.files.no_output:\n                        self.save_output()"), rule="C15.flow")
V("C15", "csv_replay_off_by_one", "violation", (TDS, "            system.dae.x[:] = self.data_csv[self.k_csv, 1:system.dae.n + 1]", "            system.dae.x[:] = self.data_csv[self.k_csv, 0:system.dae.n]"), rule="C15.order")
V("C15", "benign_store_copy_idiom", "silent", (DAEF, "            ts._xs[t] = np.array(self.x)\n            ts._ys[t] = np.array(self.y)", "            ts._xs[t] = self.x.copy()\n            ts._ys[t] = self.y.copy()"))

# ---------------- C19
GROUPF = "andes/models/group.py"
V("C19", "group_add_no_duplicate_check", "violation", (GROUPF, "        if idx in self._idx2model:\n            raise KeyError(f'Group <{self.class_name}> already contains <{repr(idx)}> from '\n                           f'<{self._idx2model[idx].class_name}>')\n", ""), rule="C19.registry")
V("C19", "next_idx_no_recheck", "violation", (GROUPF, "                if idx not in self._idx2model:\n                    break\n                else:\n                    count += 1", "                break"), rule="C19.registry")
V("C19", "backref_not_reset", "violation", (SYSTEM, "                ref.v = [list() for _ in range(model.n)]", "                ref.v = ref.v if isinstance(ref.v, list) and len(ref.v) == model.n else [list() for _ in range(model.n)]"), rule="C19.backref")
V("C19", "backref_dangling_remapped", "violation", (SYSTEM, "                        if dest_idx not in dest.uid:\n                            continue\n", "                        if dest_idx not in dest.uid:\n                            dest_idx = dest.idx.v[0]\n"), rule="C19.backref")
V("C19", "param_link_error_ignored", "violation", (SYSTEM, "                                 instance.indexer.name, repr(e))\n                    ret = False", "                                 instance.indexer.name, repr(e))"), rule="C19.link-errors")
V("C19", "extparam_swallows_keyerror", "violation", (PARAMF, "            try:\n                self.v = ext_model.get(src=self.src, idx=self.indexer.v, attr='v',\n                                       allow_none=self.allow_none, default=self.default)\n            except IndexError:\n                pass", "            try:\n                self.v = ext_model.get(src=self.src, idx=self.indexer.v, attr='v',\n                                       allow_none=self.allow_none, default=self.default)\n            except (IndexError, KeyError):\n                pass"), rule="C19.link-errors")
V("C19", "system_add_registers_first", "violation", (SYSTEM, "        self.__dict__[model].add(idx=idx, **param_dict)\n        group.add(idx=idx, model=self.__dict__[model])", "        group.add(idx=idx, model=self.__dict__[model])\n        self.__dict__[model].add(idx=idx, **param_dict)"), rule="C19.registry")
V("C19", "benign_add_comment", "silent", (SYSTEM, "        # remove `uid` field\n", "        # drop the exported `uid` column\n"))

# ---------------- C20
COMMONF = "andes/core/common.py"
V("C20", "defaults_overwrite_loaded", "violation", (COMMONF, "            if key in self.__dict__:\n                continue\n\n            self._set(key, val)", "            self._set(key, val)"), rule="C20.precedence")
V("C20", "model_adds_before_load", "violation", (MODEL, "        self.config = Config(name=self.class_name)  # `config` that can be exported\n        if config is not None:\n            self.config.load(config)\n", "        self.config = Config(name=self.class_name)  # `config` that can be exported\n"), (MODEL, "        self.calls = ModelCall()  # callback and LaTeX string storage", "        if config is not None:\n            self.config.load(config)\n\n        self.calls = ModelCall()  # callback and LaTeX string storage"), rule="C20.typestate")
V("C20", "pflow_adds_before_super", "violation", (PFLOW, "        super().__init__(system, config)\n        self.config.add(", "        self.config = Config(self.class_name)\n        self.config.add("), rule="C20")
V("C20", "coerce_float_first", "violation", (COMMONF, "            try:\n                val = int(val)\n            except ValueError:\n                try:\n                    val = float(val)\n                except ValueError:\n                    pass", "            try:\n                val = float(val)\n            except ValueError:\n                pass"), rule="C20.coercion")
V("C20", "option_accepts_malformed", "violation", (SYSTEM, "            if item.count('=') != 1:\n                raise ValueError('config_option \"{}\" must be an assignment expression'.format(item))\n", "            if item.count('=') < 1:\n                continue\n"), rule="C20.options")
V("C20", "option_merge_after_load", "violation", (SYSTEM, "        self._config_object = load_config_rc(self._config_path)\n        self._update_config_object()\n        self.config = Config(self.__class__.__name__, dct=config)\n        self.config.load(self._config_object)\n", "        self._config_object = load_config_rc(self._config_path)\n        self.config = Config(self.__class__.__name__, dct=config)\n        self.config.load(self._config_object)\n        self._update_config_object()\n"), rule="C20.options")
V("C20", "alt_key_typo", "violation", (PFLOW, "                              check_conn=(0, 1),\n                              max_iter=\">=10\",", "                              check_con=(0, 1),\n                              max_iter=\">=10\","), rule="C20.tables")
V("C20", "check_not_raising", "violation", (COMMONF, "            if val not in _alt:\n                raise ValueError(f\"[{self._name}].{key}={val} is not a choice from {_alt}.\")", "            if val not in _alt:\n                logger.warning(f\"[{self._name}].{key}={val} is not a choice from {_alt}.\")"), rule="C20.alternatives")
V("C20", "benign_help_text", "silent", (PFLOW, "report=\"write output report\",", "report=\"write the output report\","))

V("C08", "zero_band_uses_modulus", "violation", (EIG, "np.count_nonzero(abs(mu_real) <= self.config.tol)", "np.count_nonzero(abs(self.mu) <= self.config.tol)"), rule="C08.partition")

# ---------------- second-generation rules (effects, universality, cache/ownership, progression tiling)
V("C20", "check_reads_cached_view", "violation", (COMMONF, "        for key, val in self.as_dict(refresh=True).items():", "        for key, val in self.as_dict().items():"), rule="C20.cache")
V("C20", "save_reads_cached_view", "violation", (SYSTEM, "            cfg = instance.config.as_dict(refresh=True)", "            cfg = instance.config.as_dict()"), rule="C20.cache")
V("C20", "rc_parser_shared", "violation", (SYSTEM, "    conf = configparser.ConfigParser()\n    conf.read(conf_path)\n", "    if conf_path in _rc_seen:\n        return _rc_seen[conf_path]\n    conf = configparser.ConfigParser()\n    conf.read(conf_path)\n    _rc_seen[conf_path] = conf\n"), (SYSTEM, "def load_config_rc(conf_path=None):", "_rc_seen = dict()\n\n\ndef load_config_rc(conf_path=None):"), rule="C20.ownership")
V("C20", "routine_defaults_in_ctor", "violation", ("andes/routines/base.py", "        self.config = Config(self.class_name)", "        self.config = Config(self.class_name, OrderedDict((('sparselib', 'klu'), ('linsolve', 0))))"), rule="C20.typestate")
V("C20", "benign_as_dict_positional_refresh", "silent", (COMMONF, "        for key, val in self.as_dict(refresh=True).items():", "        for key, val in self.as_dict(True).items():"))
V("C14", "load_clears_equations", "violation", (SYSTEM, "    system.set_var_arrays(system.models)\n\n    for model in system.models.values():\n        model.get_inputs(refresh=True)", "    system.set_var_arrays(system.models)\n    system.e_clear(system.models)\n\n    for model in system.models.values():\n        model.get_inputs(refresh=True)"), rule="C14.effects")
V("C14", "resume_reloads_pflow_solution", "violation", (TDS, "        self.calc_h(resume=True)\n        self._advance_time()", "        self.calc_h(resume=True)\n        dae.y[:len(system.PFlow.y_sol)] = system.PFlow.y_sol\n        self._advance_time()"), rule="C14.effects")
V("C15", "switch_before_store", "violation", (TDS, "            if step_status:\n                if config.save_every != 0:", "            if step_status:\n                self.do_switch()\n                if config.save_every != 0:"), rule="C15.flow")
V("C15", "benign_log_before_store", "silent", (TDS, "            if step_status:\n                if config.save_every != 0:", "            if step_status:\n                logger.debug('accepted step at t=%s', dae.t)\n                if config.save_every != 0:"))
V("C11", "tconst_first_state_only", "violation", (MODEL, "                        self.system.TDS.Teye[uid_int[ii], uid_int[ii]] = instance.v[ii]\n", "                        self.system.TDS.Teye[uid_int[ii], uid_int[ii]] = instance.v[ii]\n                    break\n"), rule="C11.tconst")
V("C11", "p_restore_first_model_only", "violation", (SYSTEM, "            for param in model.num_params.values():\n                param.restore()", "            for param in model.num_params.values():\n                param.restore()\n            break"), rule="C11.universal")
V("C19", "backref_reset_conditional", "violation", (SYSTEM, "                ref.v = [list() for _ in range(model.n)]", "                if len(ref.v) != model.n:\n                    ref.v = [list() for _ in range(model.n)]"), rule="C19.backref")
V("C08", "reorder_skips_one_slot_only", "violation", (EIG, "                while (bidx in self.zstate_idx):\n                    bidx += 1", "                if bidx in self.zstate_idx:\n                    bidx += 1"), rule="C08.reorder")
V("C10", "collated_stride_is_ndevice", "violation", (DAEF, "                out.append(np.arange(idx_begin + idx, idx_end, nvar))", "                out.append(idx_begin + idx + ndevice * np.arange(ndevice))"), rule="C10.tiling")
V("C10", "benign_collated_progression", "silent", (DAEF, "                out.append(np.arange(idx_begin + idx, idx_end, nvar))", "                out.append(idx_begin + idx + nvar * np.arange(ndevice))"))
V("C06", "switch_action_first_model_only", "violation", (SYSTEM, "            instance.switch_action(self.dae.t)", "            instance.switch_action(self.dae.t)\n            break"), rule="C06.universal")
V("C13", "psse_first_load_only", "violation", ("andes/io/psse.py", "        out['PQ'].append(param)\n", "        out['PQ'].append(param)\n        break\n"), rule="C13.universal")
V("C15", "replay_pointer_not_resynced", "violation", (TDS, "        if self.data_csv is not None:\n            self.k_csv = 0\n", ""), rule="C15.replay")
V("C15", "benign_replay_peek", "silent", (TDS, "        if self.data_csv is not None:\n            self.k_csv = 0\n", "        if self.data_csv is not None:\n            self.k_csv = self.k_csv - 1\n"))
V("C09", "history_derivative_wrong_dt", "violation", (DISC, "            self.v[:] = (self._v_mem[:, 1] - self._v_mem[:, 0]) / (self.t[1] - self.t[0])", "            self.v[:] = (self._v_mem[:, 1] - self._v_mem[:, 0]) / self.t[1]"), rule="C09.history")
V("C09", "history_average_rectangle", "violation", (DISC, "            self.v[:] = 0.5 * np.sum((self._v_mem[:, 1-nt:] + self._v_mem[:, -nt:-1]) *", "            self.v[:] = np.sum((self._v_mem[:, 1-nt:]) *"), rule="C09.history")
V("C09", "history_delay_repeat_shifts", "violation", (DISC, "        elif dae_t == self.t[-1]:\n            self._v_mem[:, -1] = self.u.v\n", "        elif dae_t == self.t[-1]:\n            self._v_mem[:, :-1] = self._v_mem[:, 1:]\n            self._v_mem[:, -1] = self.u.v\n"), rule="C09.history")
V("C09", "history_delay_time_stamp_not_moved", "violation", (DISC, "                    self.t[idx] = t_interp\n", ""), rule="C09.history")
V("C09", "history_derivative_rewind_not_reset", "violation", (DISC, "        if (dae_t == 0) or (self.rewind is True):", "        if (dae_t == 0):"), rule="C09.history")
V("C09", "benign_history_delay_shift_idiom", "silent", (DISC, "                self.t[:-1] = self.t[1:]\n                self.t[-1] = dae_t\n", "                self.t = np.append(self.t[1:], dae_t)\n"))
V("C09", "history_sampling_int_time", "violation", (DISC, "        self._last_t = np.array([0.0])\n", "        self._last_t = np.array([0])\n"), rule="C09.history")
V("C09", "history_sampling_rewind_keeps_time", "violation", (DISC, "            self._last_t[0] = self._prev_t[0]\n", "            self._last_t[0] = dae_t\n"), rule="C09.history")
V("C09", "history_sampling_nonstrict", "violation", (DISC, "            do_sample = (dae_t - self.offset - self._last_t) > self.interval", "            do_sample = (dae_t - self.offset - self._last_t) > 0"), rule="C09.history")
V("C17", "pflow_measure_builtin_max", "violation", (PFLOW, "        mis = np.maximum(abs(fmax), abs(gmax))", "        mis = max(abs(fmax), abs(gmax))"), rule="C17.nan")
V("C17", "daeint_measure_builtin_max", "violation", (DAEINT, "            mis = abs(mis_inc)\n", "            mis = max(0, abs(mis_inc))\n"), rule="C17.nan")
V("C17", "benign_pflow_measure_npmax", "silent", (PFLOW, "        mis = np.maximum(abs(fmax), abs(gmax))", "        mis = np.max(np.abs(np.array([fmax, gmax])))"))
V("C11", "group_set_bypasses_model_set", "violation", (GROUPF, "            mdl.set(src=src, idx=ii, attr=attr, value=val)\n", "            uid = mdl.idx2uid(ii)\n            mdl.__dict__[src].__dict__[attr][uid] = val\n"), rule="C11.invariant")
V("C08", "eig_run_no_jacobian_refresh", "violation", (EIG, "            system.TDS.fg_update(system.exist.pflow_tds)\n            system.j_update(system.exist.pflow_tds)\n", "            pass\n"), rule="C08.fresh")
V("C08", "benign_eig_refresh_via_itm_step", "silent", (EIG, "            system.TDS.fg_update(system.exist.pflow_tds)\n            system.j_update(system.exist.pflow_tds)\n", "            system.TDS.itm_step()\n"))
V("C13", "mpc_end_marker_swallows_row", "violation", (MPCF, "            line = line.split(']')[0]\n            closing = True\n            if not has_digit.search(line):\n                field = None\n                continue\n", "            field = None\n            continue\n"), rule="C13.mpc-lexer")
V("C13", "benign_mpc_end_marker_anchored", "silent", (MPCF, "    end = re.compile(r'\\s*\\];?')", "    end = re.compile(r'\\s*\\]\\s*;?')"))
V("C14", "dae_reset_keeps_rhs_counters", "violation", (DAEF, "        self.p = 0\n        self.q = 0\n        self.resize_arrays()", "        self.resize_arrays()"), rule="C14.reset")
V("C14", "dae_reset_time_zero", "violation", (DAEF, "        self.set_t(-1.0)\n        self.m = 0", "        self.set_t(0.0)\n        self.m = 0"), rule="C14.reset")
V("C11", "dae_reset_time_zero", "violation", (DAEF, "        self.set_t(-1.0)\n        self.m = 0", "        self.set_t(0.0)\n        self.m = 0"), rule="C11.reset")
V("C14", "benign_dae_reset_tuple_zero", "silent", (DAEF, "        self.m = 0\n        self.n = 0\n        self.o = 0\n        self.p = 0\n        self.q = 0\n", "        self.m, self.n, self.o, self.p, self.q = 0, 0, 0, 0, 0\n"))
V("C06", "clock_recomputed_not_copied", "violation", (TDS, "        if self._t_next is not None:\n            dae.t[...] = self._t_next\n        else:\n            dae.t += self.h\n", "        dae.t += self.h\n"), rule="C06.exact")
V("C06", "cut_time_not_recorded", "violation", (TDS, "                self.h = system.switch_times[self._switch_idx] - system.dae.t\n                self._t_next = system.switch_times[self._switch_idx]\n", "                self.h = system.switch_times[self._switch_idx] - system.dae.t\n"), rule="C06.exact")
V("C04", "clip_tf_dropped", "violation", (TDS, "        if self.h >= config.tf - system.dae.t:\n            self.h = max(config.tf - system.dae.t, 0)\n", "        if self.h >= config.tf - system.dae.t + 1:\n            self.h = max(config.tf - system.dae.t, 0)\n"), rule="C04.stepsize")
V("C04", "benign_clip_tf_minmax_form", "silent", (TDS, "        if self.h >= config.tf - system.dae.t:\n            self.h = max(config.tf - system.dae.t, 0)\n            if self.h > 0:\n                self._t_next = config.tf\n", "        if self.h >= config.tf - system.dae.t:\n            self.h = max(min(self.h, config.tf - system.dae.t), 0)\n            if self.h > 0:\n                self._t_next = config.tf\n"))
V("C11", "extparam_not_refreshed_after_conversion", "violation", (SYSTEM, "            self.link_ext_param()\n        self.store_existing()", "            pass\n        self.store_existing()"), rule="C11.coeff")
V("C17", "module_entry_drops_status", "violation", ("andes/__main__.py", "    sys.exit(main())", "    main()"), rule="C17.aggregate")
V("C17", "pflow_exit_code_overwritten", "violation", (PFLOW, "        system.exit_code += 0 if self.converged else 1\n", "        system.exit_code = 0 if self.converged else 1\n"), rule="C17.exit")
V("C17", "benign_pflow_exit_code_if_form", "silent", (PFLOW, "        system.exit_code += 0 if self.converged else 1\n", "        if not self.converged:\n            system.exit_code += 1\n"))
V("C20", "update_not_rolled_back", "violation", (COMMONF, "            for key, val in previous.items():\n                if val is _missing:\n                    self.__dict__.pop(key, None)\n                else:\n                    self.__dict__[key] = val\n            raise\n", "            raise\n"), rule="C20.alternatives")
V("C12", "island_search_unbounded", "violation", (SYSTEM, "            if starting_bus >= n:\n                break\n\n", ""), rule="C12.series")
V("C15", "unpack_keeps_stale_dataframes", "violation", (DAEF, "            for name in ('df_x', 'df_y', 'df_z', 'df_xy', 'df_xyz'):\n                self.__dict__.pop(name, None)\n", "            pass\n"), rule="C15.fresh")
V("C15", "npz_first_chunk_from_cached_view", "violation", (DAEF, "                # `txyz` is unpacked automatically on its first access only\n                self.ts.unpack()\n", ""), rule="C15.fresh")
V("C15", "csv_header_body_different_lists", "violation", ("andes/plot.py", "        body = self.get_values(idx)\n", "        idx = sorted(idx)\n        body = self.get_values(idx)\n"), rule="C15.fresh")
V("C20", "alt_enumeration_as_string", "violation", ("andes/models/static/pq.py", "                              pq2z=(0, 1),", "                              pq2z=\"(0, 1)\","), rule="C20.alternatives")
V("C16", "klu_pattern_guard_removed", "violation", (SS, "        if self.factorize is False and not self._same_pattern(pattern):\n            self.factorize = True\n", ""), rule="C16.stale-symbolic")
V("C16", "klu_pattern_guard_nnz_only", "violation", (SS, "        return (pat is not None) and np.array_equal(pat[0], pattern[0]) and np.array_equal(pat[1], pattern[1])", "        return (pat is not None) and len(pat[1]) > 0"), rule="C16.stale-symbolic")
V("C16", "eig_reduce_ignores_linsolve_result", "violation", (EIG, "        sol = self.solver.linsolve(gy, self.gyx)\n        self.gyx = matrix(np.reshape(sol, self.gyx.size))\n", "        self.solver.linsolve(gy, self.gyx)\n"), rule="C16.inplace-contract")
V("C17", "mp_proc_worker_status_dropped", "violation", ("andes/main.py", "    if system is None or system.exit_code != 0:\n        sys.exit(1)\n", "    return system\n"), rule="C17.aggregate")
V("C17", "mp_proc_only_last_batch_counted", "violation", ("andes/main.py", "                if job.exitcode != 0:\n                    n_failed += 1\n", "                n_failed = 1 if job.exitcode != 0 else 0\n"), rule="C17.aggregate")
V("C17", "mp_proc_status_not_aggregated", "violation", ("andes/main.py", "        elif system is not True:\n            ex_code += 1  # at least one worker process reported an error\n", ""), rule="C17.aggregate")
V("C17", "main_run_pool_only_first_system", "violation", ("andes/main.py", "            for s in system:\n                ex_code += s.exit_code\n", "            ex_code += system[0].exit_code\n"), rule="C17.aggregate")
V("C17", "benign_mp_proc_sum_exitcodes", "silent", ("andes/main.py", "                if job.exitcode != 0:\n                    n_failed += 1\n", "                n_failed += 1 if job.exitcode else 0\n"))
V("C17", "benign_main_run_ifexp_aggregation", "silent", ("andes/main.py", "        if system is not None:\n            ex_code += system.exit_code\n        else:\n            ex_code += 1\n", "        ex_code += system.exit_code if system is not None else 1\n"))
V("C17", "tds_run_ignores_failed_init", "violation", (TDS, "        if self.test_ok is False:\n            logger.error('Initialization failed. Simulation will not continue.')\n            system.exit_code += 1\n            return succeed\n", "        if self.test_ok is False:\n            logger.error('Initialization failed.')\n"), rule="C17.gate")
V("C17", "tds_run_busted_gate_after_resume", "violation", (TDS, "        if self.busted:\n            logger.error('Simulation was terminated by an error at t=%.4f s and cannot be continued.', system.dae.t)\n            system.exit_code += 1\n            return succeed\n", ""), (TDS, "        if resume:\n            self.init_resume()\n", "        if resume:\n            self.init_resume()\n        if self.busted:\n            system.exit_code += 1\n            return succeed\n"), rule="C17.gate")
V("C17", "tds_run_continues_busted", "violation", (TDS, "        if self.busted:\n            logger.error('Simulation was terminated by an error at t=%.4f s and cannot be continued.', system.dae.t)\n            system.exit_code += 1\n            return succeed\n", ""), rule="C17.gate")
V("C17", "eig_precheck_ignores_busted", "violation", (EIG, "        if system.TDS.busted:\n", "        if system.TDS.busted and system.TDS.initialized is False:\n"), rule="C17.gate")
V("C17", "eig_precheck_test_ok_before_init", "violation", (EIG, "        if system.TDS.test_ok is False:\n            logger.error('Initialization of dynamic models failed. Eig analysis will not continue.')\n            status = False\n", ""), (EIG, "        if system.TDS.initialized is False:\n            system.TDS.init()", "        if system.TDS.test_ok is False:\n            return False\n        if system.TDS.initialized is False:\n            system.TDS.init()"), rule="C17.gate")
V("C17", "benign_eig_precheck_flags_one_test", "silent", (EIG, "        if system.TDS.test_ok is False:\n            logger.error('Initialization of dynamic models failed. Eig analysis will not continue.')\n            status = False\n\n        if system.TDS.busted:\n", "        if system.TDS.test_ok is False or system.TDS.busted:\n"))
V("C17", "benign_tds_run_gates_merged", "silent", (TDS, "        if self.busted:\n            logger.error('Simulation was terminated by an error at t=%.4f s and cannot be continued.', system.dae.t)\n            system.exit_code += 1\n            return succeed\n", "        if self.busted is True:\n            logger.error('Simulation was terminated by an error and cannot be continued.')\n            system.exit_code += 1\n            return False\n"))
V("C16", "daeint_linsolve_switch_inverted", "violation", (DAEINT, "            if not tds.config.linsolve:", "            if tds.config.linsolve:"), rule="C16.facade")
V("C16", "benign_daeint_linsolve_positive_form", "silent", (DAEINT, "            if not tds.config.linsolve:\n                inc = tds.solver.solve(tds.Ac, matrix(tds.qg))\n            else:\n                inc = tds.solver.linsolve(tds.Ac, matrix(tds.qg))\n", "            if tds.config.linsolve:\n                inc = tds.solver.linsolve(tds.Ac, matrix(tds.qg))\n            else:\n                inc = tds.solver.solve(tds.Ac, matrix(tds.qg))\n"))
V("C16", "benign_ccs_unpacked", "silent", (SC, "    ccs = A.CCS\n    size = A.size\n    data = np.array(ccs[2]).ravel()\n    indices = np.array(ccs[1]).ravel()\n    indptr = np.array(ccs[0]).ravel()\n", "    indptr, indices, data = [np.array(x).ravel() for x in A.CCS]\n    size = A.size\n"))
V("C03", "pattern_constant_value_dropped", "violation", (SYSTEM, "                    vv.extend(val * np.ones_like(row))", "                    vv.extend(np.ones_like(row))"), rule="C03.pattern")
V("C03", "pattern_rows_cols_exchanged", "violation", (SYSTEM, "            self.dae.store_sparse_ijv(jname, ii, jj, vv)", "            self.dae.store_sparse_ijv(jname, jj, ii, vv)"), rule="C03.pattern")
V("C03", "pattern_first_model_only", "violation", (SYSTEM, "            for mdl in models.values():\n                for row, col, val in mdl.triplets.zip_ijv(jname):", "            for mdl in list(models.values())[:1]:\n                for row, col, val in mdl.triplets.zip_ijv(jname):"), rule="C03.pattern")
V("C03", "pattern_gy_diagonal_dropped", "violation", (SYSTEM, "            if jname == 'gy':\n                ii.extend(np.arange(self.dae.m))", "            if jname == 'gx':\n                ii.extend(np.arange(self.dae.m))"), rule="C03.pattern")
V("C03", "benign_pattern_concatenate", "silent", (SYSTEM, "                    ii.extend(row)\n                    jj.extend(col)\n                    vv.extend(np.zeros_like(row))", "                    ii += list(row)\n                    jj += list(col)\n                    vv += [0.0] * len(row)"))
V("C02", "args_ii_bound_to_ij_names", "violation", (MODEL, "            'ii_args': self.ii_args,\n            'ij_args': self.ij_args,", "            'ii_args': self.ij_args,\n            'ij_args': self.ii_args,"), rule="C02.consumer")
V("C02", "args_sns_from_g_names", "violation", (MODEL, "        self.sns_args = [self._input[arg] for arg in self.calls.sns_args]", "        self.sns_args = [self._input[arg] for arg in self.calls.g_args]"), rule="C02.consumer")
V("C02", "benign_args_tuple_table", "silent", (MODEL, "        for key, val in mapping.items():\n            source = self.calls.__dict__[key]\n            for name in source:\n                val[name] = [self._input[arg] for arg in source[name]]", "        for key in mapping:\n            source = getattr(self.calls, key)\n            for name, args in source.items():\n                mapping[key][name] = [self._input[arg] for arg in args]"))
V("C19", "next_idx_counter_not_advanced", "violation", ("andes/models/group.py", "                    count += 1\n", "                    pass\n"), rule="C19.registry")
V("C19", "next_idx_checks_uid_map_only_first", "violation", ("andes/models/group.py", "                if idx not in self._idx2model:\n                    break", "                if idx not in self._idx2model or count > self.n:\n                    break"), rule="C19.registry")
V("C19", "explicit_idx_taken_is_kept", "violation", ("andes/models/group.py", "                               self.class_name, idx, self.idx2model(idx).class_name)\n                need_new = True", "                               self.class_name, idx, self.idx2model(idx).class_name)"), rule="C19.registry")
V("C19", "finder_adds_without_looking_at_new_devices", "violation", ("andes/core/service.py", "            if (not valid_idx) and self.auto_find:\n                idx = mdl.find_idx(self.idx_name, (link_to, ), allow_none=True, default=None)[0]", "            if (not valid_idx) and self.auto_find and not added:\n                idx = mdl.find_idx(self.idx_name, (link_to, ), allow_none=True, default=None)[0]"), rule="C19.find-or-add")
V("C19", "finder_no_refresh_after_add", "violation", ("andes/core/service.py", "            mdl.list2array()\n            mdl.refresh_inputs()\n", "            mdl.list2array()\n"), rule="C19.find-or-add")
V("C19", "benign_next_idx_while_condition", "silent", ("andes/models/group.py", "            while True:\n                # IMPORTANT: automatically assigned index is 1-indexed. Namely, `GENCLS_1` is the first generator.\n                # This is because when we say, for example, `GENCLS_10`, people usually assume it starts at 1.\n                idx = model_name + '_' + str(count + 1)\n                if idx not in self._idx2model:\n                    break\n                else:\n                    count += 1\n", "            idx = model_name + '_' + str(count + 1)\n            while idx in self._idx2model:\n                count += 1\n                idx = model_name + '_' + str(count + 1)\n"))


# ---------------- refactorings and seeded changes delivered by independent sub-agents (DESIGN section 10), kept as patches
def _load_agent_corpus():
    import glob
    import json
    import os
    root = os.path.dirname(os.path.dirname(os.path.abspath(__file__)))
    for d in sorted(glob.glob(os.path.join(root, "benign", "C*-*"))):
        pid = os.path.basename(d).split("-")[0]
        VARIANTS.append(dict(pid=pid, name="agent_refactoring_%s" % os.path.basename(d).replace("-", "_"), expect="silent", edits=[],
                             patch=os.path.join(d, "patch.diff"), rule=None, tier="quick"))
    for d in sorted(glob.glob(os.path.join(root, "seeded", "r*-C*-*"))):
        cj = os.path.join(d, "checks.json")
        if not os.path.exists(cj):
            continue
        try:
            caught = json.load(open(cj)).get("caught_by", [])
        except Exception:      # noqa
            continue
        for pid in caught:
            VARIANTS.append(dict(pid=pid, name="agent_seed_%s" % os.path.basename(d).replace("-", "_"), expect="violation", edits=[],
                                 patch=os.path.join(d, "patch.diff"), rule=None, tier="quick"))


_load_agent_corpus()
V("C17", "criterion_operand_not_established", "violation", (TDS, "        if self.config.criteria:\n            system.connectivity(info=False)\n", ""), rule="C17.criteria")
V("C17", "criterion_operand_before_initialized", "violation", (TDS, "        self.initialized = True\n\n        # record the rotor angles monitored by the stability criterion (generators in the\n        # largest island); later connectivity checks after switching events update them\n        if self.config.criteria:\n            system.connectivity(info=False)\n", "        if self.config.criteria:\n            system.connectivity(info=False)\n        self.initialized = True\n"), rule="C17.criteria")
V("C17", "criterion_operand_only_with_check_conn", "violation", (TDS, "        if self.config.criteria:\n            system.connectivity(info=False)\n", "        if self.config.criteria and self.config.check_conn:\n            system.connectivity(info=False)\n"), rule="C17.criteria")
V("C06", "custom_event_redispatches_all", "violation", (TDS, "            system.switch_action(models)\n", "            system.switch_action(system.exist.pflow_tds)\n"), rule="C06.once")
V("C06", "custom_event_filter_wrong_key", "violation", (TDS, "                done = system.switch_dict[self._last_switch_t]\n                models = OrderedDict((name, mdl) for name, mdl in models.items() if name not in done)\n", "                models = OrderedDict((name, mdl) for name, mdl in models.items() if name not in system.models)\n"), rule="C06.once")
V("C06", "schedule_accumulates_across_calls", "violation", (SYSTEM, "        self.switch_dict = OrderedDict()\n        for i, j in zip(out, names):", "        for i, j in zip(out, names):"), rule="C06.schedule")
V("C06", "refresh_keeps_old_pointer", "violation", (TDS, "            self._switch_idx = 0\n            if system.n_switches > 0 and system.switch_times[0] == system.dae.t and self._last_switch_t == system.dae.t:\n                self._switch_idx = 1\n", ""), rule="C06.schedule")
V("C06", "pointer_reset_without_rebuild", "violation", (TDS, "        # if not all events have been processed\n", "        if self.custom_event is True:\n            self._switch_idx = 0\n        # if not all events have been processed\n"), rule="C06.advance")
V("C06", "benign_custom_event_dict_comp", "silent", (TDS, "                models = OrderedDict((name, mdl) for name, mdl in models.items() if name not in done)\n", "                models = {name: mdl for name, mdl in models.items() if name not in done}\n"))
V("C19", "add_not_rolled_back", "violation", ("andes/core/model/modeldata.py", "            del self.uid[idx]\n            self.n -= 1\n            raise\n", "            raise\n"), rule="C19.registry")
V("C19", "add_rollback_params_only_lists", "violation", ("andes/core/model/modeldata.py", "            for instance, size in added:\n                if isinstance(instance.v, list):\n                    del instance.v[size:]\n                else:\n                    instance.v = instance.v[:size]\n", "            pass\n"), rule="C19.registry")
V("C19", "benign_add_validate_then_commit", "silent", ("andes/core/model/modeldata.py", "            del self.uid[idx]\n            self.n -= 1\n            raise\n", "            self.uid.pop(idx)\n            self.n = self.n - 1\n            raise\n"))
V("C05", "reinit_not_cleared", "violation", (TDS, "        system.dae.clear_xy()\n", ""), rule="C05.reinit")
V("C05", "reinit_clears_x_only", "violation", (TDS, "        system.dae.clear_xy()\n", "        system.dae.x[:] = 0\n"), rule="C05.reinit")
V("C05", "benign_reinit_clear_inline", "silent", (TDS, "        system.dae.clear_xy()\n", "        system.dae.x[:] = 0.0\n        system.dae.y[:] = 0.0\n"))
V("C20", "routine_writes_bool_into_enum_field", "violation", (TDS, "            config.fixt = 0\n", "            config.fixt = False\n"), rule="C20.alternatives")
V("C20", "routine_writes_undeclared_value", "violation", (TDS, "            config.fixt = 0\n", "            config.fixt = 2\n"), rule="C20.alternatives")
V("C13", "corrections_floats_only", "violation", ("andes/core/param.py", "        if isinstance(value, (int, float, np.integer, np.floating)) and not isinstance(value, (bool, np.bool_)):", "        if isinstance(value, float):"), rule="C13.numeric-type")
V("C13", "benign_corrections_numbers_real", "silent", ("andes/core/param.py", "        if isinstance(value, (int, float, np.integer, np.floating)) and not isinstance(value, (bool, np.bool_)):", "        if isinstance(value, (float, int, np.floating, np.integer)) and not isinstance(value, (np.bool_, bool)):"))
V("C17", "benign_criterion_operand_guard_order", "silent", (TDS, "        if self.config.criteria:\n            system.connectivity(info=False)\n", "        if self.config.criteria != 0:\n            system.connectivity(False)\n"))
V("C15", "output_addr_ascending_positions", "violation", ("andes/models/misc/output.py", "        output_addr = np.array([column[int(ad)] for ad in addr if int(ad) in column], dtype=int)\n", "        output_addr = np.where(np.isin(stored, addr))[0]\n"), rule="C15.index")
V("C15", "get_data_subindex_after_translation", "violation", ("andes/variables/dae.py", "                    indices = self.dae.system.Output.to_output_addr(base_var, check=True, a=a)\n                    if len(indices) == 0:\n                        continue\n                    out = np.hstack((out, self._access_array(array_code, indices)))\n                    continue\n", "                    indices = self.dae.system.Output.to_output_addr(base_var, check=True)\n                    if len(indices) == 0:\n                        continue\n"), rule="C15.index")
V("C15", "benign_output_addr_loop_form", "silent", ("andes/models/misc/output.py", "        output_addr = np.array([column[int(ad)] for ad in addr if int(ad) in column], dtype=int)\n", "        cols = []\n        for ad in addr:\n            if int(ad) in column:\n                cols.append(column[int(ad)])\n        output_addr = np.array(cols, dtype=int)\n"))
V("C08", "sweep_relies_on_lazy_jacobian", "violation", (EIG, "            if not self._pre_check():\n                logger.error(\"Parameter sweep stopped at round %d.\", count)\n                return results\n", "            self.system.TDS.init()\n            self.system.TDS.itm_step()\n"), rule="C08.fresh")
V("C08", "benign_sweep_explicit_jupdate", "silent", (EIG, "            if not self._pre_check():\n                logger.error(\"Parameter sweep stopped at round %d.\", count)\n                return results\n", "            if not self._pre_check():\n                logger.error(\"Parameter sweep stopped at round %d.\", count)\n                return results\n            self.system.j_update(self.system.exist.pflow_tds)\n"))
V("C17", "nk_noconvergence_not_handled", "violation", (PFLOW, "        except NoConvergence:\n            logger.error('Newton-Krylov iterations did not converge.')\n            self.converged = False\n\n", ""), rule="C17.success")
V("C17", "nk_noconvergence_handler_reraises", "violation", (PFLOW, "            logger.error('Newton-Krylov iterations did not converge.')\n            self.converged = False\n", "            logger.error('Newton-Krylov iterations did not converge.')\n            raise\n"), rule="C17.success")
V("C17", "benign_nk_one_handler_for_both", "silent", (PFLOW, "        except NoConvergence:\n            logger.error('Newton-Krylov iterations did not converge.')\n            self.converged = False\n\n        except ValueError as e:", "        except (NoConvergence, ValueError) as e:"))
V("C08", "sweep_keeps_old_statistics", "violation", (EIG, "            self.mu, self.pfactors, self.N, self.W = self.calc_pfactor()\n            self._store_stats()\n            mu = self.mu\n", "            mu, N = self.calc_eig(self.As)\n            self.mu, self.N = mu, N\n"), rule="C08.partition")
V("C08", "sweep_counts_before_new_spectrum", "violation", (EIG, "            self.mu, self.pfactors, self.N, self.W = self.calc_pfactor()\n            self._store_stats()\n            mu = self.mu\n", "            self._store_stats()\n            self.mu, self.pfactors, self.N, self.W = self.calc_pfactor()\n            mu = self.mu\n"), rule="C08.partition")
V("C14", "views_repointed_for_unaddressed_models", "violation", (SYSTEM, "            if mdl.flags.address is False:\n                continue\n\n            for var in mdl.cache.vars_int.values():\n                var.set_arrays(self.dae, inplace=inplace, alloc=alloc)\n", "            for var in mdl.cache.vars_int.values():\n                var.set_arrays(self.dae, inplace=inplace, alloc=alloc)\n"), rule="C14.snapshot")
V("C14", "benign_views_guard_merged", "silent", (SYSTEM, "            if mdl.n == 0:\n                continue\n\n            # variables without addresses (e.g., of dynamic models before the\n            # time-domain initialization) have nothing to point to yet\n            if mdl.flags.address is False:\n                continue\n\n            for var in mdl.cache.vars_int.values():\n                var.set_arrays(self.dae, inplace=inplace, alloc=alloc)\n", "            if mdl.n == 0 or not mdl.flags.address:\n                continue\n\n            for var in mdl.cache.vars_int.values():\n                var.set_arrays(self.dae, inplace=inplace, alloc=alloc)\n"))
V("C18", "lagrate_ignores_D", "violation", ("andes/core/block.py", "        self.y.v_str = f'{self.u.name} * {self.K.name} / {self.D.name}'\n        self.y.e_str = f'{self.K.name} * {self.u.name} - {self.D.name} * {self.name}_y'\n\n\nclass LagAntiWindupRate", "        self.y.v_str = f'{self.u.name} * {self.K.name}'\n        self.y.e_str = f'{self.K.name} * {self.u.name} - {self.name}_y'\n\n\nclass LagAntiWindupRate"), rule="C18.tf")
V("C18", "lagfreeze_drops_D", "violation", ("andes/core/block.py", "        Lag.__init__(self, u, T, K, D=D, name=name, tex_name=tex_name, info=info)\n        self.freeze = dummify(freeze)", "        Lag.__init__(self, u, T, K, D=1, name=name, tex_name=tex_name, info=info)\n        self.freeze = dummify(freeze)"), rule="C18.tf")
V("C19", "group_get_container_from_first_value", "violation", ("andes/models/group.py", "        if not any(isinstance(val, str) for val in ret):\n            values = ret\n            ret = np.zeros(n)\n            ret[:] = values\n", "        if not isinstance(ret[0], str):\n            values = ret\n            ret = np.zeros(n)\n            ret[:] = values\n"), rule="C19.registry")
V("C19", "idx2model_unknown_is_none", "violation", ("andes/models/group.py", "                if i is None and allow_none:\n                    ret.append(None)\n                else:\n                    ret.append(self._idx2model[i])", "                if allow_none:\n                    ret.append(self._idx2model.get(i))\n                else:\n                    ret.append(self._idx2model[i])"), rule="C19.link-errors")
V("C05", "offline_regca1_injects", "violation", ("andes/models/renewable/regca1.py", "                          e_str='-u * Pe',", "                          e_str='-Pe',"), rule="C05.offline")
V("C05", "offline_zip_q_injects", "violation", ("andes/models/dynload/zip.py", "        self.rqp = ConstService(v_str='u * kqp / 100',", "        self.rqp = ConstService(v_str='kqp / 100',"), rule="C05.offline")
V("C04", "reject_calc_h_before_rollback", "violation", (TDS, "                clock_ahead = self._t_prev is not None\n                if clock_ahead:\n                    dae.t[...] = self._t_prev\n                self.calc_h()\n", "                clock_ahead = self._t_prev is not None\n                self.calc_h()\n                if clock_ahead:\n                    dae.t[...] = self._t_prev\n"), rule="C04.rollback")
