"""./vcheck <PID> [--tier quick|thorough] [--replay <file>]"""
import argparse
import importlib
import json
import logging
import os
import sys

HERE = os.path.dirname(os.path.abspath(__file__))
sys.path.insert(0, HERE)

from engine.report import Ctx, finish, main_wrapper, AnalysisError  # noqa: E402

LEVELS = {"C02": "translation_validation", "C03": "translation_validation"}


def main():
    ap = argparse.ArgumentParser()
    ap.add_argument("pid")
    ap.add_argument("--tier", default=os.environ.get("VERIF_TIER", "quick"))
    ap.add_argument("--replay")
    a = ap.parse_args()
    logging.disable(logging.CRITICAL)
    pid = a.pid.upper()
    try:
        mod = importlib.import_module("rules.%s" % pid.lower())
    except ModuleNotFoundError as e:
        raise AnalysisError("no checker for %s (%s)" % (pid, e))
    ctx = Ctx(pid, tier=a.tier if a.tier in ("quick", "thorough") else "quick", level=LEVELS.get(pid, "other"))
    if a.replay:
        with open(a.replay) as f:
            r = json.load(f)
        ctx.only = (r["rule"], r["construct"])
        print("replaying %s/%s" % ctx.only)
    mod.run(ctx)
    # shared rule family: apply-to-all loops named per property have no early exit (engine/univ.py, rules/univ_tables.py)
    from rules.univ_tables import T as UNIV
    if pid in UNIV:
        from engine import univ
        from engine.pysrc import Repo
        ctx.rule(pid + ".universal", "apply-to-all loops (every device / equation / model / record / field) have no break or return "
                 "that cuts them short", len(UNIV[pid]))
        univ.check(ctx, Repo(), pid + ".universal", UNIV[pid])
    st_missed = []
    if ctx.tier == "thorough" and not a.replay and not os.environ.get("VERIF_NO_SELFTEST"):
        # variant corpus: every breaking variant must be caught, every benign twin must stay silent
        sys.path.insert(0, os.path.join(HERE, "selftest"))
        import run as strun
        res = strun.run(pid)
        summ = strun.summarize(res)
        summ["variants"] = [dict(name=r["v"]["name"], expect=r["v"]["expect"], status=r["status"],
                                 rules=r.get("rules", [])[:2]) for r in res["results"]]
        ctx.extra["selftest"] = summ
        st_missed = summ["missed"]
        print("   selftest: caught %d/%d breaking variants, %d/%d benign twins silent, stale=%s" % (
            summ["caught"], summ["breaking"], summ["benign_silent"], summ["benign"], summ["stale"]))
    benign_alarm = []
    if ctx.tier == "thorough" and not a.replay and not os.environ.get("VERIF_NO_SELFTEST"):
        # false-alarm probes: the quick check must stay silent on behaviour-preserving whole-tree transformations of /repo
        # (tools/benign_transform.py): every local renamed, every alias local inlined, new alias locals introduced
        import shutil
        import subprocess
        import tempfile
        probes = {}
        for mode in ("rename", "inline", "introduce", "flip"):
            dest = tempfile.mkdtemp(prefix="andes_verif_benign_%s_" % mode)
            try:
                t = subprocess.run([sys.executable, os.path.join(HERE, "tools", "benign_transform.py"), mode, dest],
                                   capture_output=True, text=True)
                if t.returncode != 0:
                    probes[mode] = dict(status="transform failed", detail=t.stderr[-200:])
                    continue
                env = dict(os.environ, VERIF_REPO=dest, VERIF_EVIDENCE_DIR=os.path.join(dest, ".evid"), VERIF_NO_SELFTEST="1")
                r = subprocess.run([os.path.join(HERE, "vcheck"), pid, "--tier", "quick"], env=env, capture_output=True, text=True)
                lines = [ln.strip() for ln in r.stdout.splitlines() if ln.strip().startswith(("rule=", "ANALYSIS-ERROR"))]
                probes[mode] = dict(status={0: "silent", 1: "FALSE ALARM", 2: "analysis error"}.get(r.returncode, str(r.returncode)),
                                    transformed=t.stdout.strip().split(" -> ")[0], reports=lines[:3])
                if r.returncode != 0:
                    benign_alarm.append("%s: %s" % (mode, lines[:2]))
            finally:
                shutil.rmtree(dest, ignore_errors=True)
        ctx.extra["benign_transforms"] = probes
        print("   benign whole-tree transformations: " + ", ".join("%s=%s" % (k, v["status"]) for k, v in probes.items()))
    code = finish(ctx)
    if benign_alarm:
        print("ANALYSIS-ERROR: property=%s the quick check is not silent on a behaviour-preserving transformation: %s" % (pid, benign_alarm))
        return 2
    if st_missed:
        print("ANALYSIS-ERROR: property=%s selftest variants not decided as expected: %s" % (pid, st_missed))
        return 2
    return code


main_wrapper(main)
