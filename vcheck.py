"""./vcheck <PID> [--tier quick|thorough] [--replay <file>]"""
import argparse
import importlib
import json
import logging
import os
import sys

HERE = os.path.dirname(os.path.abspath(__file__))
sys.path.insert(0, HERE)

from engine.report import Ctx, finish, main_wrapper, AnalysisError  # noqa: E402

LEVELS = {"C02": "translation_validation", "C03": "translation_validation"}


def main():
    ap = argparse.ArgumentParser()
    ap.add_argument("pid")
    ap.add_argument("--tier", default=os.environ.get("VERIF_TIER", "quick"))
    ap.add_argument("--replay")
    a = ap.parse_args()
    logging.disable(logging.CRITICAL)
    pid = a.pid.upper()
    try:
        mod = importlib.import_module("rules.%s" % pid.lower())
    except ModuleNotFoundError as e:
        raise AnalysisError("no checker for %s (%s)" % (pid, e))
    ctx = Ctx(pid, tier=a.tier if a.tier in ("quick", "thorough") else "quick", level=LEVELS.get(pid, "other"))
    if a.replay:
        with open(a.replay) as f:
            r = json.load(f)
        ctx.only = (r["rule"], r["construct"])
        print("replaying %s/%s" % ctx.only)
    mod.run(ctx)
    code = finish(ctx)
    if ctx.tier == "thorough" and code == 0 and not a.replay and hasattr(mod, "selftest"):
        code = mod.selftest(ctx) or 0
    return code


main_wrapper(main)
