"""C17.exit/dropped-status -- a failure reported through a return value is not dropped.

Functions of the repository that report "could not do it" by `return False` right after logging an error/warning (input loaders,
converters: found from the source) are *failure-status functions*.  A call site inside the anchored modules (routines, main, system, io)
that discards the value of such a function (expression statement) loses the failure: the routine carries on and reports success.
Callees are resolved through the import table / receiver (`andes.io.dump` is the repository's, `dill.dump` is not); a call site is accepted
when the callee itself raises the exit code / sets a failure flag on every failing path."""
import ast

from engine.pysrc import dotted, src
from engine.cfg import walk_noscope
from engine.effects import Effects

SCOPE = ("andes/routines/", "andes/main.py", "andes/system.py", "andes/io/")


def _failure_status(fn):
    for blk in ast.walk(fn):
        for name in ("body", "orelse"):
            b = getattr(blk, name, None)
            if not isinstance(b, list):
                continue
            for i, st in enumerate(b):
                if isinstance(st, ast.Return) and isinstance(st.value, ast.Constant) and st.value.value is False and i > 0:
                    prev = b[i - 1]
                    if isinstance(prev, ast.Expr) and isinstance(prev.value, ast.Call) and (dotted(prev.value.func) or "").startswith("logger.") \
                            and (dotted(prev.value.func) or "").split(".")[-1] in ("error", "warning"):
                        return True
    return False


def _self_reporting(fn):
    """the function raises the exit code or a failure flag itself"""
    return any(isinstance(x, ast.AugAssign) and (dotted(x.target) or "").endswith("exit_code") for x in walk_noscope(fn)) or \
        any(isinstance(x, ast.Assign) and any((dotted(t) or "").endswith(".busted") for t in x.targets) for x in walk_noscope(fn))


def run_rule(ctx, repo):
    E = Effects(repo)
    n = 0
    owners = []
    for cname, cl in repo.classes.items():
        for ci in cl:
            if ci.path.startswith(SCOPE):
                owners += [(ci, fn, "%s.%s" % (ci.name, m)) for m, fn in ci.methods.items()]
    for rel, fns in repo.funcs.items():
        if rel.startswith(SCOPE):
            owners += [(rel, fn, "%s::%s" % (rel.split("/")[-1], m)) for m, fn in fns.items()]
    for ci, fn, qual in owners:
        for st in walk_noscope(fn):
            if not (isinstance(st, ast.Expr) and isinstance(st.value, ast.Call)):
                continue
            callees = E.callees(ci, fn, st.value)
            d_ = dotted(st.value.func) or ""
            if not callees and d_.startswith("andes."):
                # absolute module path: andes.io.dump -> andes/io/__init__.py::dump or andes/io.py::dump
                parts = d_.split(".")
                for rel in ("/".join(parts[:-1]) + "/__init__.py", "/".join(parts[:-1]) + ".py"):
                    f_ = repo.funcs.get(rel, {}).get(parts[-1])
                    if f_ is not None:
                        callees = [(rel, f_)]
            fs = [(cci, cfn) for cci, cfn in callees if _failure_status(cfn) and not _self_reporting(cfn)]
            if not fs or len(fs) != len(callees):
                continue
            n += 1
            cname = "%s.%s" % (getattr(fs[0][0], "name", str(fs[0][0]).split("/")[-1]), fs[0][1].name)
            ctx.violation("C17.exit", "%s/dropped-status@%s" % (qual, (dotted(st.value.func) or "")[:40]),
                          "`%s` discards the status of %s, which reports failure by returning False after logging an error: the failure (missing or "
                          "unparsable input, unsupported format) is lost and the caller reports success with exit code 0" % (src(st.value)[:60], cname),
                          repo.W(ci, st) if not isinstance(ci, str) else "%s:%d" % (ci, st.lineno))
    if n == 0:
        ctx.ok("C17.exit", "dropped-status", "no call site in routines / main / system / io discards the status of a failure-status function", "")
