"""C06 -- scheduled events fire exactly once at their exact time; the time grid is exact.

Decided: exact-time comparator idioms; every advance of the event pointer is paired with a dispatch;
the initial-time events are dispatched before the first step size is computed; callback siblings guard
is_time & u and address the device with the loop index; schedule-table construction; step clipping
(shared with C04). Floating-point exactness of t + (ts - t) == ts is declined."""
import ast
import itertools

from engine import astq as Q
from engine.cfg import walk_noscope
from engine.ordertype import Interp, Unsupported
from engine.pysrc import Repo, F, dotted, src, calls_in
from engine.report import AnalysisError
from rules import c04

TDS = "andes/routines/tds.py"
SYSTEM = "andes/system.py"
PARAM = "andes/core/param.py"
TIMER = "andes/models/timer.py"
TSERIES = "andes/models/timeseries.py"
MODEL = "andes/core/model/model.py"


def exact_time_comparator(e):
    """accepted idioms for comparing a time with an event time."""
    if Q.match("np.equal($a, $b)", e) or Q.match("$a == $b", e):
        return True, "exact equality"
    m = Q.match("np.isclose($a, $b, rtol=$r, atol=$t)", e) or Q.match("np.isclose($a, $b, atol=$t, rtol=$r)", e)
    if m:
        try:
            r, t = ast.literal_eval(m["r"]), ast.literal_eval(m["t"])
            if r == 0 and 0 <= t < 1e-4:
                return True, "absolute tolerance %g below the eps spacing" % t
        except Exception:
            pass
        return False, "np.isclose with a relative tolerance or an absolute tolerance >= eps (1e-4): t-eps, t, t+eps would all match"
    m = Q.match("abs($a - $b) <= $c", e) or Q.match("abs($a - $b) < $c", e) or Q.match("np.abs($a - $b) <= $c", e) \
        or Q.match("np.abs($a - $b) < $c", e)
    if m:
        try:
            c = ast.literal_eval(m["c"])
            if 0 <= c < 1e-4:
                return True, "absolute tolerance"
        except Exception:
            pass
        return False, "tolerance %s is not a literal below the eps spacing 1e-4" % src(m["c"])
    if isinstance(e, ast.Call) and dotted(e.func) in ("np.isclose", "numpy.isclose", "math.isclose", "np.allclose"):
        return False, "%s with default relative tolerance matches t-eps and t+eps once t >= eps/rtol (fires three times)" % dotted(e.func)
    if isinstance(e, ast.Compare) or (isinstance(e, ast.Call) and dotted(e.func) in (
            "np.less", "np.less_equal", "np.greater", "np.greater_equal")):
        return False, "ordering comparison %s is true for every later time (event repeats)" % src(e)
    return None, "unrecognised comparator %s" % src(e)


def rule_comparator(ctx, repo):
    # positive control: the rule must fire on a tolerance-based comparator
    pc = ast.parse("np.isclose(dae_t, self.v)").body[0].value
    ok, why = exact_time_comparator(pc)
    if ok is not False:
        raise AnalysisError("positive control for the comparator rule did not fire")
    f = F.method(repo, "TimerParam", "is_time", PARAM)
    rets = [n for n in walk_noscope(f.fn) if isinstance(n, ast.Return)]
    if len(rets) != 1:
        raise AnalysisError("TimerParam.is_time changed shape")
    a = [p.arg for p in f.fn.args.args]
    ok, why = exact_time_comparator(rets[0].value)
    uses = {a[1], "self.v"} <= {src(x) for x in ast.walk(rets[0].value) if isinstance(x, (ast.Name, ast.Attribute))}
    if ok is None:
        ctx.undecided("C06.comparator", "TimerParam.is_time", why, f.W())
    else:
        ctx.check(ok and uses, "C06.comparator", "TimerParam.is_time", "event time test: " + why,
                  "event time test: " + why + ("" if uses else " (does not compare dae_t with self.v)"), f.W())
    d = F.method(repo, "TDS", "do_switch", TDS)
    tests = [tn for tn in d.g.nodes() if d.g.data(tn)["kind"] == "test" and "switch_times" in src(d.g.data(tn)["ast"].test)
             and "dae.t" in src(d.g.data(tn)["ast"].test)]
    if not tests:
        raise AnalysisError("TDS.do_switch: event-time test vanished")
    leaves = []
    for tn in tests:
        for l in Q._bool_leaves(d.g.data(tn)["ast"].test, []):
            if "switch_times" in src(l) and "dae.t" in src(l):
                leaves.append((tn, l))
    for tn, e in leaves:
        ok, why = exact_time_comparator(e)
        m = Q.match("np.equal($s.dae.t, $s.switch_times[self._switch_idx])", e) or Q.match("$s.dae.t == $s.switch_times[self._switch_idx]", e)
        if ok is None:
            ctx.undecided("C06.comparator", "TDS.do_switch", why, d.W(tn))
        else:
            ctx.check(bool(ok) and (m is not None or ok), "C06.comparator", "TDS.do_switch", "dispatch test: " + why,
                      "dispatch test: " + why, d.W(tn))


def rule_advance_dispatch(ctx, repo):
    """every advance of _switch_idx lies on a path that dispatched switch_action for that index."""
    n_sites = 0
    ci = repo.cls("TDS", TDS)
    for mname, fn in ci.methods.items():
        f = F(repo, ci, fn)
        adv = [n for n in f.g.nodes() if f.g.data(n)["kind"] == "stmt" and (
            Q.match("self._switch_idx += $k", f.g.data(n)["ast"]) or
            (isinstance(f.g.data(n)["ast"], ast.Assign) and Q.match("self._switch_idx = self._switch_idx + $k", f.g.data(n)["ast"])))]
        for a in adv:
            n_sites += 1
            disp = [n for n in f.calls("switch_action") if "switch_dict" in src(f.g.data(n)["ast"])]
            ok, p = f.g.must_pass(f.g.entry, a, disp) if disp else (False, None)
            ctx.check(ok, "C06.advance", "TDS.%s/_switch_idx+=@L?" % mname if False else "TDS.%s/advance" % mname,
                      "pointer advance is dominated by switch_action(switch_dict[switch_times[idx]])",
                      "the event pointer is advanced without dispatching the event it points to: an event whose time equals the "
                      "current time here is dropped", f.W(a))
    resets = 0
    for mname, fn in ci.methods.items():
        fm = None
        for n in walk_noscope(fn):
            if isinstance(n, ast.Assign) and any(dotted(t) == "self._switch_idx" for t in n.targets):
                resets += 1
                const = isinstance(n.value, ast.Constant) and n.value.value in (0, 1)
                if mname in ("__init__", "reset"):
                    ok = const and n.value.value == 0
                    why = "event pointer assigned in %s" % mname
                else:
                    # re-positioning is legitimate only right after the schedule the pointer indexes has been rebuilt (the rebuilt
                    # schedule starts at the current time); skipping its first entry needs the evidence that this entry is the event
                    # that has just been processed
                    fm = fm or F(repo, ci, fn)
                    node = [x for x in fm.g.nodes() if fm.g.data(x)["ast"] is n]
                    rebuilds = fm.calls("system.store_switch_times")
                    ok = const and bool(node) and bool(rebuilds) and fm.g.must_pass(fm.g.entry, node[0], rebuilds)[0]
                    why = "event pointer assigned in %s without the schedule having been rebuilt on every path to it" % mname
                    if ok and n.value.value == 1:
                        pc = " ".join(src(t_) for t_, pol in (Q.path_condition(fn, n) or []) if pol)
                        ok = "_last_switch_t" in pc and "switch_times[0]" in pc
                        why = "the first entry of the rebuilt schedule is skipped without testing that it is the event just processed"
                ctx.check(ok, "C06.advance", "TDS.%s/reset" % mname, "pointer set to 0 only by the constructor / reset(), or re-positioned right "
                          "after a rebuild of the schedule", why + ": events before the pointer never fire, events after a reset fire again", repo.W(ci, n))
    # (no advance at all is decided below: a dispatched event that is not stepped over fires again)
    # dispatch uses the entry of the current index and the models that defined the time
    d = F.method(repo, "TDS", "do_switch", TDS)
    e = Q.first("self._last_switch_t = $s.switch_times[self._switch_idx]", d.fn)[1]
    ok = e is not None and Q.has("$s.switch_action($s.switch_dict[self._last_switch_t])", d.fn, e)
    ctx.check(ok, "C06.advance", "TDS.do_switch/dispatch-arg", "dispatches exactly switch_dict[switch_times[idx]]",
              "dispatch no longer addresses the models registered for the current switch time", d.W())
    adv = [n for n in d.g.nodes() if d.g.data(n)["kind"] == "stmt" and Q.match("self._switch_idx += 1", d.g.data(n)["ast"])]
    disp = [n for n in d.calls("switch_action") if "switch_dict" in src(d.g.data(n)["ast"])]
    ok, wit = d.after(disp, adv)
    ctx.check(ok, "C06.advance", "TDS.do_switch/once", "each dispatch is followed by the advance (no second dispatch if time sticks)",
              "a dispatched event is not stepped over: it would fire again: " + wit, d.W())
    ok, wit = d.after(disp, d.calls("vars_to_models"))
    ctx.check(ok, "C06.advance", "TDS.do_switch/propagate", "vars_to_models() after an event", "event effect not propagated: " + wit, d.W())
    # bounds guard
    tb = [tn for tn in d.g.nodes() if d.g.data(tn)["kind"] == "test" and Q.match("self._switch_idx < $s.n_switches", d.g.data(tn)["ast"].test)]
    ok = bool(tb) and all(d.g.guarded_by(n, tb[0], "true") for n in disp)
    ctx.check(ok, "C06.advance", "TDS.do_switch/bounds", "dispatch only while events remain", "index bound guard removed", d.W())


def rule_initial_time(ctx, repo):
    """events scheduled at the initial time: dispatched after the initialisation test and before the first step size."""
    i = F.method(repo, "TDS", "init", TDS)
    st = i.calls("store_switch_times")
    ch = i.calls("self.calc_h")
    ds = i.calls("self.do_switch")
    if not (st and ch):
        raise AnalysisError("TDS.init: store_switch_times / calc_h calls vanished")
    # correlated guards: the schedule is built under a test C; a later test with the same condition text (its operands are not
    # assigned in between) takes the same branch, so its other edge is infeasible on paths starting at the store
    infeasible = []
    for tn in i.g.nodes():
        d = i.g.data(tn)
        if d["kind"] == "test" and i.g.guarded_by(st[0], tn, "true"):
            cond = src(d["ast"].test)
            for t2 in i.g.nodes():
                d2 = i.g.data(t2)
                if t2 != tn and d2["kind"] == "test" and src(d2["ast"].test) == cond and not i.assigns(cond.split(" ")[0]):
                    infeasible += [(t2, m) for m in i.g.succ_label(t2, "false")]
    ok, p = i.g.must_pass(st[0], ch[0], ds, infeasible_edges=infeasible) if ds else (False, None)
    ctx.check(ok, "C06.t0", "TDS.init/dispatch-at-t0",
              "do_switch() lies between store_switch_times() and the first calc_h(): events at t0 are dispatched",
              "no dispatch between store_switch_times() and the first calc_h() in TDS.init: an event scheduled exactly at the "
              "initial time is never applied (the first step already leaves t0)", i.W(ch[0]))
    ti = i.calls("self.test_init")
    if ds and ti:
        ok = not i.g.reachable(ds[0], ti[0])
        ctx.check(ok, "C06.t0", "TDS.init/after-test", "t0 events are applied after the equilibrium test",
                  "t0 events applied before test_init(): the initial equilibrium test would see the disturbed system", i.W(ds[0]))
    # store only when not replaying, and never on the resume path
    t = [tn for tn in i.g.nodes() if i.g.data(tn)["kind"] == "test" and Q.match("self.data_csv is None", i.g.data(tn)["ast"].test)]
    ok = bool(t) and all(any(i.g.guarded_by(n, x, "true") for x in t) for n in st)
    ctx.check(ok, "C06.schedule", "TDS.init/store", "switch times stored at init unless replaying CSV",
              "store_switch_times no longer guarded by data_csv is None", i.W())
    r = F.method(repo, "TDS", "init_resume", TDS)
    bad = [c for c in calls_in(r.fn) if (dotted(c.func) or "").split(".")[-1] in ("store_switch_times", "reset", "clear_ts", "init")]
    ctx.check(not bad, "C06.schedule", "TDS.init_resume", "resume does not rebuild the schedule or reset the pointer",
              "resume path calls %s" % [src(c.func) for c in bad], r.W())
    d = F.method(repo, "TDS", "do_switch", TDS)
    st2 = d.calls("store_switch_times")
    t = d.tests(lambda c: c.strip() == "self.config.refresh_event")
    ok = (not st2) or (bool(t) and all(d.g.guarded_by(n, t[0], "true") for n in st2))
    ctx.check(ok, "C06.schedule", "TDS.do_switch/refresh", "schedule refreshed in the loop only under refresh_event",
              "schedule rebuilt unconditionally inside the loop", d.W())


def rule_schedule(ctx, repo):
    f = F.method(repo, "System", "store_switch_times", SYSTEM)
    fn = f.fn
    a = [p.arg for p in fn.args.args]
    eps = a[2] if len(a) > 2 else "eps"
    e = Q.first("$times = np.array($inst.get_times()).ravel()", fn)[1]
    ok = e is not None
    if ok:
        ok = Q.has("$out = np.append($out, $times)", fn, e) and Q.has("$out = np.append($out, $times - %s)" % eps, fn, e) \
            and Q.has("$out = np.append($out, $times + %s)" % eps, fn, e)
    ctx.check(ok, "C06.schedule", "store_switch_times/three-points", "t-eps, t, t+eps enter the schedule",
              "the schedule no longer contains the event time together with t-eps and t+eps", f.W())
    # the only filter on the schedule is `>= current time`: every (re)assignment of the schedule arrays is one of the
    # recognised construction steps (collect, append, sort, filter-by-current-time); anything else drops events
    if e is not None:
        tn, on = src(e["times"]), "out"
        mo = Q.first("$out = np.append($out, %s)" % tn, fn)[1]
        if mo is not None:
            on = src(mo["out"])
        allowed = ["%s = np.array($i.get_times()).ravel()" % tn, "%s = np.array([], dtype=float)" % on,
                   "%s = np.append(%s, $x)" % (on, on), "%s = %s[$idx]" % (on, on), "%s = np.sort(%s)" % (on, on)]
        bad = []
        for n in walk_noscope(fn):
            if isinstance(n, (ast.Assign, ast.AugAssign)):
                tg = n.targets if isinstance(n, ast.Assign) else [n.target]
                if any(dotted(t_) in (tn, on) for t_ in tg):
                    if not any(Q.match(pat, n) for pat in allowed):
                        bad.append(src(n))
                    m_ = Q.match("%s = %s[$idx]" % (on, on), n)
                    if m_ is not None:
                        idx = src(m_["idx"])
                        okf = Q.has("%s = np.argsort(%s).astype(int)" % (idx, on), fn) or Q.has("%s = np.argsort(%s)" % (idx, on), fn) or \
                            Q.has("%s = np.where(%s >= self.dae.t)[0]" % (idx, on), fn)
                        if not okf:
                            bad.append("%s (index %s is neither the sort order nor the `>= dae.t` filter)" % (src(n), idx))
        ctx.check(not bad, "C06.schedule", "store_switch_times/no-extra-filter",
                  "event times enter the schedule unfiltered except for `>= current time`",
                  "event times are filtered / rewritten before they enter the schedule: %s -- events scheduled beyond that filter are "
                  "silently dropped (e.g. after tf is extended and the run resumed)" % "; ".join(bad[:3]), f.W())
    d = fn.args.defaults
    epsv = ast.literal_eval(d[-1]) if d else None
    ctx.check(epsv is not None and 0 < epsv <= 1e-3, "C06.schedule", "store_switch_times/eps", "eps = %s" % epsv,
              "eps default %s outside (0, 1e-3]" % epsv, f.W())
    ok = Q.has("$idx = np.argsort($out).astype(int)", fn) or Q.has("$idx = np.argsort($out)", fn) or Q.has("$out = np.sort($out)", fn)
    ctx.check(ok, "C06.schedule", "store_switch_times/sorted", "times sorted", "switch times are no longer sorted", f.W())
    ok = Q.has("$k = np.where($out >= self.dae.t)[0]", fn)
    ctx.check(ok, "C06.schedule", "store_switch_times/filter", "only times >= current time kept (t0 included)",
              "time filter is not `>= dae.t` (events at the current time would be dropped or past events kept)", f.W())
    # merge coincident times: update, never overwrite
    t = [tn for tn in f.g.nodes() if f.g.data(tn)["kind"] == "test" and Q.match("$i not in self.switch_dict", f.g.data(tn)["ast"].test)]
    ok = bool(t)
    if ok:
        m = Q.match("$i not in self.switch_dict", f.g.data(t[0])["ast"].test)
        new = [n for n in f.g.nodes() if f.g.data(n)["kind"] == "stmt" and Q.match("self.switch_dict[$i] = {$j: self.models[$j]}", f.g.data(n)["ast"], m)]
        upd = [n for n in f.g.nodes() if f.g.data(n)["kind"] == "stmt" and Q.match("self.switch_dict[$i].update({$j: self.models[$j]})", f.g.data(n)["ast"], m)]
        ok = bool(new) and bool(upd) and f.g.guarded_by(new[0], t[0], "true") and f.g.guarded_by(upd[0], t[0], "false")
    ctx.check(ok, "C06.schedule", "store_switch_times/merge", "coincident times merge their model sets",
              "coincident event times overwrite each other's model set (an event would be lost)", f.W())
    ok = any(Q.has("self.switch_times = %s" % v_, fn) for v_ in (
        "np.array(list(self.switch_dict.keys()))", "np.array(list(self.switch_dict))", "np.array(sorted(self.switch_dict))",
        "np.array(sorted(self.switch_dict.keys()))", "np.fromiter(self.switch_dict, dtype=float)", "np.fromiter(self.switch_dict.keys(), dtype=float)")) \
        and any(Q.has("self.n_switches = %s" % v_, fn) for v_ in ("len(self.switch_times)", "self.switch_times.size", "len(self.switch_dict)"))
    ctx.check(ok, "C06.schedule", "store_switch_times/keys", "switch_times = keys of switch_dict; n_switches = len",
              "switch_times / n_switches no longer derived from switch_dict", f.W())
    s = F.method(repo, "System", "switch_action", SYSTEM)
    a = [p.arg for p in s.fn.args.args]
    ok = False
    for lp, e in Q.loops(s.fn, "%s.values()" % a[1], "$inst"):
        if Q.has("$inst.switch_action(self.dae.t)", lp, e):
            ok = True
    ctx.check(ok, "C06.schedule", "System.switch_action", "only the passed models, at the current time",
              "switch_action no longer dispatches exactly the given models at dae.t", s.W())
    ctx.check(Q.has("self.TimeSeries.apply_exact(self.dae.t)", s.fn), "C06.schedule", "System.switch_action/timeseries",
              "time-series applier invoked", "time-series updates no longer applied at event times", s.W())
    m = F.method(repo, "Model", "switch_action", MODEL)
    a = [p.arg for p in m.fn.args.args]
    ok = False
    for lp, e in Q.loops(m.fn, "self.timer_params.values()", "$t"):
        if Q.has("$t.callback($t.is_time(%s))" % a[1], lp, e):
            ok = True
    ctx.check(ok, "C06.schedule", "Model.switch_action", "callback(is_time(t)) for each timer of the model",
              "timer callbacks no longer receive their own is_time mask", m.W())


# ---- callback siblings ---------------------------------------------------------------------

def _effects(fn, loopvar):
    """effect statements of a callback body with their path conditions [(test, polarity)]."""
    out = []

    def is_effect(s):
        if isinstance(s, ast.Expr) and isinstance(s.value, ast.Call):
            d = dotted(s.value.func) or ""
            return d.endswith(".set")
        if isinstance(s, (ast.Assign, ast.AugAssign)):
            tg = s.targets if isinstance(s, ast.Assign) else [s.target]
            for t in tg:
                if isinstance(t, ast.Subscript) and (dotted(t.value) or "").startswith("self.") and \
                        (dotted(t.value) or "").endswith(".v") and dotted(t.value) != "self.u.v":
                    return True
        return False

    def walk(stmts, conds):
        conds = list(conds)
        for s in stmts:
            if isinstance(s, ast.If):
                if len(s.body) == 1 and isinstance(s.body[0], ast.Continue) and not s.orelse:
                    conds.append((s.test, False))
                    continue
                walk(s.body, conds + [(s.test, True)])
                walk(s.orelse, conds + [(s.test, False)])
            elif isinstance(s, (ast.For, ast.While)):
                walk(s.body, conds)
            elif isinstance(s, ast.Try):
                walk(s.body, conds)
                for h in s.handlers:
                    walk(h.body, conds)
            elif is_effect(s):
                out.append((s, list(conds)))
    walk(fn, [])
    return out


def rule_callbacks(ctx, repo):
    # discover callback slots: assignments `self.<timer>.callback = self.<method>`
    slots = []
    for rel in (TIMER,):
        for ci_list in repo.classes.values():
            for ci in ci_list:
                if ci.path != rel:
                    continue
                for fn in ci.methods.values():
                    for n in walk_noscope(fn):
                        if isinstance(n, ast.Assign) and len(n.targets) == 1:
                            t = dotted(n.targets[0]) or ""
                            v = dotted(n.value) or ""
                            if t.endswith(".callback") and v.startswith("self."):
                                slots.append((ci, v[5:], t[5:-9]))
                        # keyword form: TimerParam(..., callback=self.apply_fault)
                        if isinstance(n, ast.Call) and dotted(n.func) == "TimerParam":
                            for k in n.keywords:
                                if k.arg == "callback" and (dotted(k.value) or "").startswith("self."):
                                    slots.append((ci, dotted(k.value)[5:], "<ctor>"))
    if len(slots) < 4:
        raise AnalysisError("TimerParam.callback slots: %d found, 4 confirmed by reading" % len(slots))
    for ci, mname, timer in slots:
        cci, fn = repo.method(ci.name, mname, ci.path)
        a = [p.arg for p in fn.args.args]
        mask = a[1]
        loops = Q.loops(fn, "range(self.n)", "$i")
        c = "%s.%s" % (cci.name, mname)
        if not loops:
            ctx.undecided("C06.callback", c, "no `for i in range(self.n)` loop", repo.W(cci, fn))
            continue
        lp, e = loops[0]
        i = src(e["i"])
        eff = _effects(lp.body, i)
        if not eff:
            ctx.undecided("C06.callback", c, "no effect statement recognised", repo.W(cci, fn))
            continue
        bad = []
        for s, conds in eff:
            for it, u in itertools.product((0, 1), (0, 1)):
                env = {mask: it, "self.u.v": u}
                reach = True
                try:
                    for test, pol in conds:
                        names = {dotted(x) for x in ast.walk(test) if isinstance(x, (ast.Name, ast.Attribute))}
                        if not ({mask, "self.u.v"} & names):
                            continue      # unrelated condition (mode switches etc.)
                        val = bool(Interp(env).ev(test))
                        if val != pol:
                            reach = False
                            break
                except Unsupported as ex:
                    bad.append("guard not analysable: %s" % ex)
                    break
                if reach != (it == 1 and u == 1):
                    bad.append("`%s` at L%d %s when is_time=%d, u=%d" % (
                        src(s)[:50], s.lineno, "executes" if reach else "is skipped", it, u))
            # the mask and status are indexed with the loop index
            for test, pol in conds:
                for x in ast.walk(test):
                    if isinstance(x, ast.Subscript) and dotted(x.value) in (mask, "self.u.v") and src(x.slice) != i:
                        bad.append("guard indexes %s with %s, loop index is %s" % (dotted(x.value), src(x.slice), i))
            # the addressed device uses the loop index
            for x in ast.walk(s):
                if isinstance(x, ast.Subscript) and (dotted(x.value) or "") in ("self.dev.v", "self.model.v", "self.uf.v", "self.bus.v",
                                                                               "self.src.v", "self.attr.v", "self.amount.v"):
                    if src(x.slice) != i:
                        bad.append("effect addresses %s[%s], loop index is %s" % (dotted(x.value), src(x.slice), i))
        # device addressing through locals (model/idx taken from self.model.v[i], self.dev.v[i])
        for n in walk_noscope(lp):
            if isinstance(n, ast.Assign) and isinstance(n.value, ast.Subscript):
                d = dotted(n.value.value) or ""
                if d in ("self.dev.v", "self.model.v", "self.src.v", "self.attr.v", "self.amount.v") and src(n.value.slice) != i:
                    bad.append("%s read with index %s instead of %s" % (d, src(n.value.slice), i))
            if isinstance(n, ast.Subscript) and dotted(n.value) == "self.model.v" and src(n.slice) != i:
                bad.append("self.model.v indexed with %s" % src(n.slice))
        ctx.check(not bad, "C06.callback", c, "%d effect(s) execute iff is_time[i] and u[i]; device addressed with the loop index" % len(eff),
                  "; ".join(sorted(set(bad))[:4]), repo.W(cci, fn))
    # fifth applier: TimeSeries.apply_exact
    f = F.method(repo, "TimeSeriesModel", "apply_exact", TSERIES)
    lp = Q.loops(f.fn, "range(self.n)", "$i")
    ok = bool(lp)
    if ok:
        body, e = lp[0]
        i = src(e["i"])
        conts = [s.test for s in body.body if isinstance(s, ast.If) and len(s.body) == 1 and isinstance(s.body[0], ast.Continue)]
        texts = [src(c).replace(" ", "") for c in conts]
        ok = ("self.u.v[%s]==0" % i) in texts and any(t.startswith("self.SW.s1[%s]!=1" % i) for t in texts) and \
            any(Q.match("$t not in $df[$k].values", c) for c in conts)
        ok = ok and Q.has("self.system.__dict__[$m].set($dest, $dev, 'v', $value)", body)
    ctx.check(ok, "C06.callback", "TimeSeries.apply_exact", "guards u and mode; exact membership of the time stamp; sets the addressed device",
              "time-series applier no longer guards status/mode/exact time stamp", f.W())


def rule_exact(ctx, repo):
    """Consumers compare the clock with stored times by exact equality (TimerParam.is_time: np.equal(dae_t, v); TDS.run: dae.t == tf).
    fl(t + fl(target - t)) == target does not hold in IEEE arithmetic in general, so wherever calc_h cuts the step at a target
    (`self.h = <target> - t`) the target itself must be recorded, and the clock must be set FROM that record when it is advanced."""
    from rules import tdscommon
    f = F.method(repo, "TDS", "calc_h", TDS)
    cuts = [st for st in walk_noscope(f.fn) if isinstance(st, ast.Assign) and dotted(st.targets[0]) == "self.h" and
            any(isinstance(x, ast.BinOp) and isinstance(x.op, ast.Sub) and (dotted(x.right) or "").endswith("dae.t") for x in ast.walk(st.value))]
    if not cuts:
        ctx.undecided("C06.exact", "TDS.calc_h/cuts", "no `self.h = <target> - t` definition found", f.W())
        return
    helpers = tdscommon.advance_helpers(repo)
    recorded = set()
    for h_ in helpers.values():
        recorded.update(h_["targets"])
    for k, st in enumerate(cuts):
        subs = [x for x in ast.walk(st.value) if isinstance(x, ast.BinOp) and isinstance(x.op, ast.Sub) and (dotted(x.right) or "").endswith("dae.t")]
        tgt = src(subs[0].left)
        # csv replay is exempt from nothing: its time stamps are compared too
        rec = [s2 for s2 in walk_noscope(f.fn) if isinstance(s2, ast.Assign) and src(s2.value) == tgt and dotted(s2.targets[0]) != "self.h"
               and (dotted(s2.targets[0]) or "").startswith("self.")]
        plain = isinstance(st.value, ast.BinOp) and st.value is subs[0]
        ctx.check(bool(rec), "C06.exact", "TDS.calc_h/cut#%d(%s)" % (k, tgt[:40]), "the cut time is recorded next to h = target - t",
                  "`%s` cuts the step at `%s` but the target is not recorded (%s): the clock can only be advanced by t += h, which may miss the "
                  "target by one ulp -- the event's `==` test fails or the run ends at tf + 1 ulp and is reported as failed" % (
                      src(st), tgt, "no `self.<attr> = %s`" % tgt), f.W(st))
    # every clock advance goes through a helper that copies the record
    n_adv = 0
    for mname in ("run", "init_resume"):
        g_ = F.method(repo, "TDS", mname, TDS)
        for n in tdscommon.clock_nodes(repo, g_):
            n_adv += 1
            a = g_.g.data(n)["ast"]
            via = None
            if isinstance(a, ast.Expr) and isinstance(a.value, ast.Call):
                via = helpers.get((dotted(a.value.func) or "")[5:])
            ctx.check(bool(via and via["exact"]), "C06.exact", "TDS.%s/advance@%d" % (mname, g_.g.line(n)), "clock set from the recorded cut time when there is one",
                      "`%s` advances the clock arithmetically only (t += h)" % src(a), g_.W(n))
    ctx.count("clock_advance_sites", n_adv)


def run(ctx):
    ctx.rule("C06.comparator", "event-time tests use exact-equality idioms only (positive control: np.isclose default must fire)", 2)
    ctx.rule("C06.advance", "every advance of the event pointer is dominated by the dispatch of that event; dispatch followed by "
             "advance; pointer reset only by constructor/reset", 6)
    ctx.rule("C06.t0", "events at the initial time are dispatched between schedule construction and the first calc_h, after the "
             "equilibrium test", 1)
    ctx.rule("C06.schedule", "schedule table: t-eps,t,t+eps; sorted; >= current time; coincident times merged; built at init "
             "(not on resume; in-loop only under refresh_event); dispatch plumbing", 12)
    ctx.rule("C06.callback", "all functions stored in a TimerParam.callback slot (+ TimeSeries.apply_exact): effects execute iff "
             "is_time[i] and u[i] (4 valuations), device addressed with the loop index", 5)
    ctx.rule("C06.clip", "no step crosses an event or the end time (C04 step-size rules)", 2)
    ctx.rule("C06.exact", "exactness typing: times that are later compared with == (event times, tf) are COPIED into the clock, not "
             "re-computed as t + (target - t)", 4)
    ctx.assume("behaviour for arbitrary schedules is a runtime fact: declined")
    repo = Repo()
    rule_comparator(ctx, repo)
    rule_advance_dispatch(ctx, repo)
    rule_initial_time(ctx, repo)
    rule_schedule(ctx, repo)
    rule_callbacks(ctx, repo)
    rule_exact(ctx, repo)
    from rules import c06_once, c06_schedule
    ctx.rule("C06.once", "one do_switch call hands a model to switch_action at most once", 1)
    c06_once.run_rule(ctx, repo)
    c06_schedule.run_rule(ctx, repo)
    c06_schedule.owners_rule(ctx, repo)
    before = len(ctx.results)
    c04.rule_stepsize(ctx, repo)
    c04.rule_run_loop(ctx, repo)
    keep = ("TDS.calc_h/clip", "TDS.run/accept-order")
    new = []
    for r in ctx.results[before:]:
        if r["construct"] in keep:
            r["rule"] = "C06.clip"
            new.append(r)
    ctx.results = ctx.results[:before] + new
    ctx.nontrivial = {(("C06.clip" if k[0].startswith("C04") else k[0]), k[1]) for k in ctx.nontrivial}
