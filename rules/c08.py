"""C08 -- eigenvalue analysis reports the true small-signal modes of the DAE.

Decided: sign-count predicates partition R (order types); state-matrix formula by
non-commutative normal form; T-scaling typestate on the zero-time-constant path and the
reorder permutation idiom; axis typing of participation factors. Numerical accuracy declined."""
import ast

import sympy as sp

from engine import astq as Q
from engine.cfg import walk_noscope
from engine.ordertype import Interp, Unsupported
from engine.pysrc import Repo, F, dotted, src, calls_in
from engine.report import AnalysisError

EIG = "andes/routines/eig.py"


def rule_partition(ctx, repo):
    f = F.method(repo, "EIG", "_store_stats", EIG)
    preds = {}
    alias = {}
    for n in walk_noscope(f.fn):
        if isinstance(n, ast.Assign) and len(n.targets) == 1:
            t = dotted(n.targets[0])
            m = Q.match("np.count_nonzero($c)", n.value)
            if t in ("self.n_positive", "self.n_zeros", "self.n_negative") and m:
                preds[t] = m["c"]
            elif t and src(n.value) in ("self.mu.real", "np.real(self.mu)"):
                alias[t] = "x"
    if len(preds) != 3:
        raise AnalysisError("EIG._store_stats: the three np.count_nonzero predicates vanished")
    # order types of x relative to -tol < 0 < tol  (tol > 0): 7 regions
    reps = [-2.0, -1.0, -0.5, 0.0, 0.5, 1.0, 2.0]
    bad = []
    # eigenvalues are complex: the classification must depend on the real part only (imaginary part 0 or not)
    funcs = {"np.real": lambda z: z.real, "np.imag": lambda z: z.imag, "np.asarray": lambda z, *a: z, "np.array": lambda z, *a: z,
             "np.abs": abs, "abs": abs, "np.absolute": abs}
    for x, im in [(x_, i_) for x_ in reps for i_ in (0.0, 3.0)]:
        env = {"self.config.tol": 1.0, "self.mu": complex(x, im)}
        try:
            # straight-line local definitions (mu_real = self.mu.real, tol = self.config.tol, mu = np.asarray(self.mu), ...)
            for st in f.fn.body:
                if isinstance(st, ast.Assign) and len(st.targets) == 1 and isinstance(st.targets[0], ast.Name):
                    env[st.targets[0].id] = Interp(env, funcs).ev(st.value)
            hits = [k for k, c in preds.items() if Interp(env, funcs).ev(c)]
        except Unsupported as e:
            ctx.undecided("C08.partition", "EIG._store_stats", "front-end: %s" % e, f.W())
            return
        tag = "eigenvalue %+g*tol%+gj" % (x, im)
        if len(hits) != 1:
            bad.append("%s is counted by %s" % (tag, [h.split(".")[-1] for h in hits] or "none"))
        else:
            want = "self.n_negative" if x < -1 else ("self.n_positive" if x > 1 else "self.n_zeros")
            if hits[0] != want:
                bad.append("%s counted as %s" % (tag, hits[0].split(".")[-1]))
    ctx.check(not bad, "C08.partition", "EIG._store_stats",
              "7 order types of Re(mu) vs -tol<0<tol x {real, complex}: exactly one of positive/zero/negative each",
              "; ".join(bad[:4]), f.W())
    ctx.extra["exhaustive"] = True


def _nc(name):
    return sp.Symbol(name, commutative=False)


def rule_formula(ctx, repo):
    """As = diag(1/T') (fx - fy gy^-1 gx) from the straight-line body of _reduce."""
    f = F.method(repo, "EIG", "_reduce", EIG)
    params = [a.arg for a in f.fn.args.args][1:6]
    if len(params) < 5:
        raise AnalysisError("EIG._reduce signature changed")
    fx, fy, gx, gy, Tf = params
    env = {fx: _nc("fx"), fy: _nc("fy"), gx: _nc("gx"), gy: _nc("gy")}
    iT = _nc("iT")
    tf_safe = set()     # names holding "Tf with zeros replaced by one"
    itf = set()
    ret = None
    undec = None

    def ev(n):
        if isinstance(n, (ast.Name, ast.Attribute)):
            d = dotted(n)
            if d in env:
                return env[d]
            if d in itf:
                return iT
            raise Unsupported("unbound %s" % d)
        if isinstance(n, ast.BinOp):
            a, b = ev(n.left), ev(n.right)
            if isinstance(n.op, ast.Sub):
                return a - b
            if isinstance(n.op, ast.Add):
                return a + b
            if isinstance(n.op, (ast.Mult, ast.MatMult)):
                return a * b
            raise Unsupported("op")
        if isinstance(n, ast.UnaryOp) and isinstance(n.op, ast.USub):
            return -ev(n.operand)
        if isinstance(n, ast.Call):
            fn = dotted(n.func)
            if fn in ("matrix", "sparse", "spmatrix") and len(n.args) == 1:
                return ev(n.args[0])
            if fn in ("np.reshape", "np.asarray", "np.array") and n.args:      # shape bookkeeping: identity in the matrix algebra
                return ev(n.args[0])
            if fn == "self.solver.linsolve" and len(n.args) == 2:              # value form: returns A^-1 B
                return ev(n.args[0]) ** -1 * ev(n.args[1])
            raise Unsupported("call %s" % fn)
        raise Unsupported(type(n).__name__)

    class _Differ(Exception):
        pass

    def run_block(stmts):
        """symbolic execution of a statement list; returns the returned value or None"""
        nonlocal undec
        for s in stmts:
            if isinstance(s, ast.Expr) and isinstance(s.value, ast.Constant):
                continue
            if isinstance(s, ast.Pass):
                continue
            if isinstance(s, ast.Assign) and len(s.targets) == 1:
                t = dotted(s.targets[0])
                m = Q.match("%s + np.ones_like(%s) * np.equal(%s, 0.0)" % (Tf, Tf, Tf), s.value) or \
                    Q.match("np.where(%s == 0, 1, %s)" % (Tf, Tf), s.value)
                if m is not None:
                    tf_safe.add(t)
                    continue
                m = Q.match("spdiag((1 / $t).tolist())", s.value)
                if m is not None:
                    if dotted(m["t"]) in tf_safe:
                        itf.add(t)
                        continue
                    if dotted(m["t"]) == Tf:
                        undec = "1/Tf without zero protection"
                    raise Unsupported("spdiag of %s" % src(m["t"]))
                if isinstance(s.value, (ast.Name, ast.Attribute)) and dotted(s.value) in itf:
                    itf.add(t)
                    continue
                if isinstance(s.value, (ast.Name, ast.Attribute)) and dotted(s.value) in tf_safe:
                    tf_safe.add(t)
                    continue
                env[t] = ev(s.value)
                continue
            if isinstance(s, ast.Expr) and isinstance(s.value, ast.Call):
                m = Q.match("self.solver.linsolve($A, $B)", s.value)
                if m is not None:      # in-place: B := A^-1 B
                    b_ = dotted(m["B"])
                    env[b_] = ev(m["A"]) ** -1 * ev(m["B"])
                    continue
                raise Unsupported("statement %s" % src(s))
            if isinstance(s, ast.If):
                # both branches are executed on copies of the state; they must agree (dense / sparse variants are the same matrix)
                saved = dict(env)
                r1 = run_block(s.body)
                e1 = dict(env)
                env.clear()
                env.update(saved)
                r2 = run_block(s.orelse)
                e2 = dict(env)
                if (r1 is None) != (r2 is None):
                    raise Unsupported("one branch of `if %s` returns, the other does not" % src(s.test))
                if r1 is not None:
                    if sp.expand(r1 - r2) != 0:
                        raise _Differ("branches of `if %s` return %s and %s" % (src(s.test), r1, r2))
                    return r1
                for k_ in set(e1) | set(e2):
                    if k_ not in e1 or k_ not in e2 or sp.expand(e1[k_] - e2[k_]) != 0:
                        raise _Differ("branches of `if %s` leave `%s` different" % (src(s.test), k_))
                continue
            if isinstance(s, ast.Return):
                return sp.expand(ev(s.value))
            raise Unsupported("statement %s" % type(s).__name__)
        return None

    try:
        try:
            ret = run_block(f.fn.body)
        except _Differ as d_:
            ctx.violation("C08.formula", "EIG._reduce", "dense and sparse variants differ: %s" % d_, f.W())
            return
    except Unsupported as e:
        ctx.undecided("C08.formula", "EIG._reduce", undec or "front-end: %s" % e, f.W())
        return
    ref = sp.expand(iT * (_nc("fx") - _nc("fy") * _nc("gy") ** -1 * _nc("gx")))
    ctx.check(ret is not None and sp.expand(ret - ref) == 0, "C08.formula", "EIG._reduce",
              "== diag(1/T')(fx - fy gy^-1 gx), T' = T with zeros -> 1 (non-commutative normal form)",
              "reduced state matrix is %s, expected %s" % (ret, ref), f.W())
    # calc_As passes the DAE blocks in the parameter order
    c = F.method(repo, "EIG", "calc_As", EIG)
    m = Q.first("self.As = self._reduce($d.fx, $d.fy, $d.gx, $d.gy, $d.Tf, dense=$x)", c.fn)[1] or \
        Q.first("self.As = self._reduce($d.fx, $d.fy, $d.gx, $d.gy, $d.Tf)", c.fn)[1]
    ok = m is not None and params == ["fx", "fy", "gx", "gy", "Tf"] or (m is not None and [fx, fy, gx, gy, Tf] == params)
    ctx.check(ok, "C08.formula", "EIG.calc_As/args", "_reduce(dae.fx, dae.fy, dae.gx, dae.gy, dae.Tf)",
              "Jacobian blocks are not passed to _reduce as (fx, fy, gx, gy, Tf)", c.W())
    zs = c.calls("self.find_zero_states")
    rd = c.calls("self._reduce")
    ok, wit = c.before(zs, rd)
    ctx.check(ok, "C08.formula", "EIG.calc_As/zero-states-first", "find_zero_states() precedes the reduction",
              "zero-time-constant states not identified before reducing: " + wit, c.W())


def rule_scaling(ctx, repo):
    """typestate: the value of _reduce is T-scaled; feeding blocks of it back into _reduce needs unit Tf."""
    c = F.method(repo, "EIG", "calc_As", EIG)
    second = Q.first("self.As = self._reduce(*self._reorder())", c.fn)[0]
    r = F.method(repo, "EIG", "_reorder", EIG)
    if second is None:
        ctx.undecided("C08.scaling", "EIG.calc_As", "second reduction not in the recognised form `_reduce(*self._reorder())`", c.W())
        return
    rets = [n for n in walk_noscope(r.fn) if isinstance(n, ast.Return)]
    if len(rets) != 1 or not isinstance(rets[0].value, ast.Tuple) or len(rets[0].value.elts) != 5:
        ctx.undecided("C08.scaling", "EIG._reorder", "return shape not (fx, fy, gx, gy, Tf)", r.W())
        return
    tfe = rets[0].value.elts[4]
    # trace the definition of the Tf component
    defs = {}
    for n in walk_noscope(r.fn):
        if isinstance(n, ast.Assign) and len(n.targets) == 1 and dotted(n.targets[0]):
            defs[dotted(n.targets[0])] = n.value
    e = tfe
    for _ in range(4):
        d = dotted(e)
        if d in defs:
            e = defs[d]
    text = src(e)
    blocks_from_As = "self.As" in " ".join(src(v) for v in defs.values())
    unit = Q.match("np.ones($n)", e) is not None or Q.match("np.ones($n, dtype=$t)", e) is not None or \
        Q.match("np.ones_like($n)", e) is not None
    uses_T = ".Tf" in text
    if blocks_from_As:
        ctx.check(unit and not uses_T, "C08.scaling", "EIG._reorder/Tf",
                  "blocks come from the already T-scaled As and are re-reduced with unit time constants",
                  "double T^-1 scaling: blocks of the already scaled state matrix self.As are reduced again with Tf = %s" % text,
                  r.W(rets[0]))
    else:
        ctx.undecided("C08.scaling", "EIG._reorder/Tf", "blocks not derived from self.As; typestate not applicable", r.W())

    # permutation idiom
    loops = [n for n in walk_noscope(r.fn) if isinstance(n, ast.For)]
    swap_loop = [l for l in loops if Q.has("$c[$i] = $b", l) and "zstate_idx" in src(l)]
    concat = [v for v in defs.values() if Q.match("np.concatenate([$a, $b])", v) or Q.match("np.concatenate(($a, $b))", v)
              or Q.match("np.hstack([$a, $b])", v) or Q.match("np.hstack(($a, $b))", v)]
    if swap_loop:
        l = swap_loop[0]
        issues = []
        if Q.match("range(self.nz_counts)", l.iter) is None:
            issues.append("loop visits range(%s), must visit the leading nz_counts positions" % src(l.iter.args[0] if isinstance(l.iter, ast.Call) and l.iter.args else l.iter))
        i = dotted(l.target)
        m = Q.first("$cols[%s] = $b" % i, l)[1]
        if m is not None:
            b = src(m["b"])
            # target used once: b advanced after the swap inside the same guarded block
            adv = [n for n in ast.walk(l) if isinstance(n, ast.AugAssign) and dotted(n.target) == b]
            ifs = [n for n in ast.walk(l) if isinstance(n, ast.If) and "zstate_idx" in src(n.test)]
            adv_after = False
            for iff in ifs:
                seen_swap = False
                for st in iff.body:
                    if Q.match("$cols[%s] = %s" % (i, b), st):
                        seen_swap = True
                    elif seen_swap and isinstance(st, ast.AugAssign) and dotted(st.target) == b:
                        adv_after = True
            if not adv_after:
                issues.append("swap target `%s` is not advanced after use (two swaps can pick the same position)" % b)
            # target free: on every path into the swap the last event on b is the false edge of `b in zstate_idx`
            # (a while loop skipping occupied slots); an `if` that advances once leaves the fact unestablished
            free = False
            for iff in ifs:
                last = None
                for st in iff.body:
                    if Q.match("$cols[%s] = %s" % (i, b), st):
                        break
                    if any((isinstance(n, (ast.AugAssign,)) and dotted(n.target) == b) or
                           (isinstance(n, ast.Assign) and any(dotted(t) == b for t in n.targets)) for n in ast.walk(st)):
                        last = st
                else:
                    continue
                if isinstance(last, ast.While) and not last.orelse and Q.match("%s in self.zstate_idx" % b, last.test) \
                        and not any(isinstance(n, (ast.Break, ast.Return)) for n in ast.walk(last)):
                    free = True
            if not free:
                issues.append("swap target `%s` is not established free of zero-time-constant states at the swap "
                              "(needs `while %s in self.zstate_idx: %s += 1` as the last write before it)" % (b, b, b))
            # permutation symmetric: both (i,b) and (b,i) entries
            sym = Q.has("$c[%s] = %s" % (i, b), l) and Q.has("$c[%s] = %s" % (b, i), l, {"c": m["cols"]})
            if not sym:
                issues.append("permutation not symmetric: `%s[%s] = %s` without `%s[%s] = %s`" % (
                    src(m["cols"]), i, b, src(m["cols"]), b, i))
        ctx.check(not issues, "C08.reorder", "EIG._reorder/permutation",
                  "swap loop visits the leading nz_counts positions, each target used once, symmetric permutation",
                  "; ".join(issues), r.W(l))
    elif concat:
        v = concat[0]
        t = src(v)
        ok = "zstate_idx" in t and t.index("zstate_idx") > t.index("[") + 1
        ctx.check(ok, "C08.reorder", "EIG._reorder/permutation",
                  "order = [non-zero-T states..., zero-T states...]",
                  "reordering does not place zero-time-constant states last: %s" % t, r.W())
    else:
        ctx.undecided("C08.reorder", "EIG._reorder/permutation", "unrecognised reordering idiom", r.W())
    # dataflow: the tail slots that receive the leading zero-T states must have been filtered against zstate_idx (a slot that is
    # itself a zero-T state is not free).  Holds for any idiom (loop, vectorised): every store `perm[A] = B` into the index array of the
    # permutation has a side whose definition passes an exclusion test against zstate_idx.
    def excl(e):
        for x in ast.walk(e):
            if isinstance(x, ast.Compare) and any(isinstance(o, (ast.In, ast.NotIn)) for o in x.ops) and \
                    any((dotted(c) or "").endswith("zstate_idx") for c in x.comparators):
                return True
            if isinstance(x, ast.Call) and dotted(x.func) in ("np.isin", "np.in1d", "np.setdiff1d") and \
                    any((dotted(a) or "").endswith("zstate_idx") for a in x.args):
                return True
        return False
    filtered = set()
    for w in ast.walk(r.fn):
        if isinstance(w, ast.While) and excl(w.test):
            for x in ast.walk(w.test):
                if isinstance(x, ast.Name):
                    filtered.add(x.id)
    changed = True
    while changed:
        changed = False
        for st in walk_noscope(r.fn):
            if isinstance(st, ast.Assign) and len(st.targets) == 1 and isinstance(st.targets[0], ast.Name) and st.targets[0].id not in filtered:
                if excl(st.value) or any(isinstance(x, ast.Name) and x.id in filtered for x in ast.walk(st.value)):
                    filtered.add(st.targets[0].id)
                    changed = True
    stores = [st for st in walk_noscope(r.fn) if isinstance(st, ast.Assign) and isinstance(st.targets[0], ast.Subscript)
              and isinstance(st.targets[0].value, ast.Name) and st.targets[0].value.id in ("cols", "rows", "perm", "order", "idx")]
    unf = [st for st in stores if not any(isinstance(x, ast.Name) and x.id in filtered for x in ast.walk(st))]
    if stores:
        ctx.check(not unf, "C08.reorder", "EIG._reorder/targets-free", "%d permutation stores, each involves a slot filtered against zstate_idx" % len(stores),
                  "`%s`: neither side was tested against zstate_idx -- a trailing slot that is itself a zero-time-constant state can be chosen as "
                  "swap target (a zero-T state stays in the differential block)" % (src(unf[0]) if unf else ""), r.W(unf[0]) if unf else r.W())
    elif not concat:
        ctx.undecided("C08.reorder", "EIG._reorder/targets-free", "permutation index stores not recognised", r.W())
    # partition sizes
    ok = all(Q.has(p, r.fn) for p in ("$M[:self.nz_counts, :self.nz_counts]", "$M[:self.nz_counts, self.nz_counts:]",
                                      "$M[self.nz_counts:, :self.nz_counts]", "$M[self.nz_counts:, self.nz_counts:]"))
    ctx.check(ok, "C08.reorder", "EIG._reorder/blocks", "2x2 partition at nz_counts",
              "reordered matrix is not partitioned at nz_counts into (fx, fy, gx, gy)", r.W())
    # (the content of zstate_idx / nz_counts is decided by evaluation: rules/c08_eval.py, C08.reorder/EIG.find_zero_states/fresh; the first
    # version of this rule had frozen the spelling `np.where(Tf == 0)[0]`)


# ---- axis typing --------------------------------------------------------------------

def rule_axes(ctx, repo):
    f = F.method(repo, "EIG", "calc_pfactor", EIG)
    ax = {}          # name -> tuple of axis labels
    conflicts = []
    idx_use = {}     # loop index name -> set of labels it indexes
    loop_vars = set()

    def typ(e):
        if isinstance(e, ast.Name):
            return ax.get(e.id)
        if isinstance(e, ast.Attribute) and e.attr == "T":
            t = typ(e.value)
            return tuple(reversed(t)) if t else None
        if isinstance(e, ast.Call):
            fn = dotted(e.func)
            if fn in ("np.abs", "abs", "np.absolute", "np.round", "np.real", "np.array", "np.copy") and e.args:
                return typ(e.args[0])
            if fn in ("solve", "np.linalg.solve", "scipy.linalg.solve") and len(e.args) >= 2:
                t = typ(e.args[0])      # solve(N, I) = inv(N): axes swapped
                return tuple(reversed(t)) if t else None
            if fn in ("np.linalg.inv", "inv") and e.args:
                t = typ(e.args[0])
                return tuple(reversed(t)) if t else None
            if fn in ("np.ones", "np.eye", "np.zeros"):
                return ("any",) if fn != "np.eye" else None
            if fn == "np.transpose" and e.args:
                t = typ(e.args[0])
                return tuple(reversed(t)) if t else None
            return None
        if isinstance(e, ast.BinOp):
            a, b = typ(e.left), typ(e.right)
            if isinstance(e.op, ast.Mult):
                if a and b and len(a) == len(b) == 2 and a != b:
                    conflicts.append("element-wise product of %s %s and %s %s" % (src(e.left), a, src(e.right), b))
                return a or b
            if isinstance(e.op, ast.MatMult):
                if a and len(a) == 1 and b and len(b) == 2:
                    return (b[1],)
                if a and len(a) == 2 and b and len(b) == 1:
                    return (a[0],)
                if a and b and len(a) == 2 and len(b) == 2:
                    return (a[0], b[1])
            if isinstance(e.op, ast.Div):
                return a
            return a or b
        if isinstance(e, ast.Subscript):
            t = typ(e.value)
            if not t:
                return None
            sl = e.slice.elts if isinstance(e.slice, ast.Tuple) else [e.slice]
            out = []
            for k, s_ in enumerate(sl):
                if k >= len(t):
                    break
                if isinstance(s_, ast.Slice):
                    out.append(t[k])
                elif isinstance(s_, ast.Name) and s_.id in loop_vars:
                    idx_use.setdefault(s_.id, set()).add(t[k])
            out += list(t[len(sl):])
            return tuple(out)
        return None

    def visit(stmts):
        for s in stmts:
            if isinstance(s, ast.Assign) and len(s.targets) == 1:
                tg = s.targets[0]
                if isinstance(tg, ast.Tuple) and isinstance(s.value, ast.Call) and dotted(s.value.func) in (
                        "self.calc_eig", "np.linalg.eig"):
                    # numpy.linalg.eig contract: eigenvalues (mode,), eigenvectors columns = modes
                    ax[tg.elts[0].id] = ("mode",)
                    ax[tg.elts[1].id] = ("state", "mode")
                elif isinstance(tg, ast.Name):
                    t = typ(s.value)
                    if t:
                        ax[tg.id] = t
                    elif tg.id in ax:
                        del ax[tg.id]
                elif isinstance(tg, ast.Subscript):
                    typ(tg)
                    typ(s.value)
            elif isinstance(s, ast.AugAssign):
                typ(s.target)
                typ(s.value)
            elif isinstance(s, ast.For):
                if isinstance(s.target, ast.Name):
                    loop_vars.add(s.target.id)
                visit(s.body)
            elif isinstance(s, ast.If):
                visit(s.body)
                visit(s.orelse)
            elif isinstance(s, ast.Return):
                ret[0] = s.value

    ret = [None]
    visit(f.fn.body)
    if "mode" not in str(ax):
        raise AnalysisError("EIG.calc_pfactor: eigen-decomposition call vanished")
    bad = ["index `%s` addresses both %s axes" % (k, " and ".join(sorted(v))) for k, v in idx_use.items()
           if len(v - {"any"}) > 1]
    ctx.check(not bad and not conflicts, "C08.axes", "EIG.calc_pfactor/normalisation",
              "every index/product pairs like axes (numpy.linalg.eig: eigenvector columns are modes); labels: %s" % (
                  {k: v for k, v in ax.items() if len(v) <= 2}),
              "axis mix-up in the participation-factor normalisation: %s" % "; ".join(bad + conflicts), f.W())
    # the sum that normalises must run over states (per-mode totals)
    # orientation handed to the consumers: (mode, state)
    pf_axes = None
    if isinstance(ret[0], ast.Tuple) and len(ret[0].elts) >= 2:
        pf_axes = typ(ret[0].elts[1])
    rp = F.method(repo, "EIG", "report", EIG)
    consumer_mode_first = Q.has("$t = self.pfactors[$prow, :]", rp.fn)
    ctx.check(pf_axes == ("mode", "state") and consumer_mode_first, "C08.axes", "EIG.calc_pfactor/orientation",
              "returned matrix is (mode, state); report reads pfactors[mode, :] and names the arg-max state",
              "participation matrix orientation %s does not match the consumer (pfactors[mode, :])" % (pf_axes,), f.W())
    # normaliser: per-mode totals
    tot = [k for k, v in ax.items() if v == ("mode",) and k not in ("mu",)]
    ctx.check(bool(tot), "C08.axes", "EIG.calc_pfactor/totals", "normaliser is the per-mode total %s" % tot,
              "no per-mode total found: factors of one mode cannot sum to one", f.W())
    # run() unpack order
    r = F.method(repo, "EIG", "run", EIG)
    ok = Q.has("(self.mu, self.pfactors, self.N, self.W) = self.calc_pfactor()", r.fn)
    rets = [n for n in walk_noscope(f.fn) if isinstance(n, ast.Return)]
    ok = ok and len(rets) == 1 and isinstance(rets[0].value, ast.Tuple) and len(rets[0].value.elts) == 4
    ctx.check(ok, "C08.axes", "EIG.run/unpack", "mu, pfactors, N, W unpacked in the returned order",
              "calc_pfactor results unpacked in a different order than returned", r.W())
    # most associated state = arg-max along the state axis of that mode's row, named via x_name
    ok = Q.has("$i = list($t).index(max($t))", rp.fn) and Q.has("$v.append(x_name[$i])", rp.fn)
    ctx.check(ok, "C08.axes", "EIG.report/most-associated", "arg-max over the mode's row indexes x_name",
              "most-associated state no longer the arg-max of the mode's participation row", rp.W())


def rule_run(ctx, repo):
    r = F.method(repo, "EIG", "run", EIG)
    order = [r.calls("self.calc_As"), r.calls("self.calc_pfactor"), r.calls("self._store_stats")]
    ok = all(order)
    if ok:
        ok = r.before(order[0], order[1])[0] and r.before(order[1], order[2])[0]
    ctx.check(ok, "C08.formula", "EIG.run/order", "calc_As -> calc_pfactor -> _store_stats",
              "eigen-analysis steps out of order", r.W())


def rule_sweep(ctx, repo):
    """a swept parameter may be the time constant of a state: the write must go through Model.set/alter (which maintain dae.Tf and
    TDS.Teye, C11.tconst) or be followed by a refresh of the time constants before the state matrix is rebuilt."""
    f = F.method(repo, "EIG", "sweep", EIG)
    direct = []
    for n in walk_noscope(f.fn):
        if isinstance(n, (ast.Assign, ast.AugAssign)):
            for t in (n.targets if isinstance(n, ast.Assign) else [n.target]):
                if isinstance(t, ast.Subscript) and (dotted(t.value) or "").endswith(".v") and not (dotted(t.value) or "").startswith("self."):
                    direct.append(n)
    via_set = [c for c in calls_in(f.fn) if (dotted(c.func) or "").endswith((".owner.set", ".owner.alter", ".set", ".alter"))
               and "owner" in src(c.func)]
    refresh = f.calls("_store_tf")
    cas = f.calls("self.calc_As")
    ok = (not direct and bool(via_set)) or (bool(refresh) and bool(cas) and f.before(refresh, cas)[0])
    ctx.check(ok, "C08.sweep", "EIG.sweep/parameter-write", "swept values are written through Model.set/alter (or Tf is refreshed) before calc_As",
              "sweep writes the parameter array directly (%s) and never refreshes dae.Tf: sweeping the time constant of a differential "
              "equation leaves T^-1 in the state matrix at its old value" % [src(d) for d in direct][:1], f.W(direct[0]) if direct else f.W())
    if via_set:
        from rules import c11
        ms, gates = c11.tconst_gates(repo)
        tf = [g_ for g_ in gates if g_[0] == "dae.Tf"]
        bad = [g_ for g_ in tf if g_[2]]
        ctx.check(bool(tf) and not bad, "C08.sweep", "Model.set/dae.Tf", "the setter used by sweep writes dae.Tf (read by calc_As) unconditionally",
                  "Model.set %s: a swept time constant does not reach T^-1 of the state matrix" % (
                      "gates the dae.Tf write by `%s`" % src(bad[0][2][0].test) if bad else "no longer writes dae.Tf"), ms.W(bad[0][1]) if bad else ms.W())
    # re-linearisation of every sweep point: rules/c08_sweep.py (C08.fresh/EIG.sweep/jacobian).  The first version of this rule accepted
    # `TDS.itm_step()` before calc_As, which re-evaluates the Jacobians only under its lazy-update conditions -- the defect.


def rule_fresh(ctx, repo):
    """The state matrix is built from dae.fx/fy/gx/gy: on every path from the entry of EIG.run to calc_As the Jacobians are
    re-evaluated at the current point (a call that reaches System.j_update) -- also when the time-domain routine is already
    initialised (parameters may have been altered, a simulation may have moved the operating point)."""
    from engine.effects import Effects
    E = Effects(repo)
    run = F.method(repo, "EIG", "run", EIG)
    pc = F.method(repo, "EIG", "_pre_check", EIG)
    cas = run.calls("self.calc_As")
    if not cas:
        raise AnalysisError("EIG.run: calc_As call vanished")

    def evaluators(f):
        out = []
        for n in f.g.nodes():
            a = f.g.data(n).get("ast")
            if a is None or f.g.data(n)["kind"] not in ("stmt", "test"):
                continue
            expr = a.test if f.g.data(n)["kind"] == "test" and hasattr(a, "test") else a
            for c in [x for x in ast.walk(expr) if isinstance(x, ast.Call)]:
                if dotted(c.func) == "self._pre_check":
                    continue            # analysed path by path below
                if E.call_reaches(f.ci, f.fn, c, {"System.j_update"}):
                    out.append(n)
                    break
        return out
    ev_run = evaluators(run)
    ok_run, _ = run.g.must_pass(run.g.entry, cas[0], ev_run) if ev_run else (False, None)
    # the evaluation may sit in _pre_check: then every path through _pre_check that returns a true status passes one
    ev_pc = evaluators(pc)
    pcs = run.calls("self._pre_check")
    ok_pc = False
    wit = ""
    if pcs and ev_pc:
        rets = [r for r in pc.returns() if not (isinstance(pc.g.data(r)["ast"].value, ast.Constant) and pc.g.data(r)["ast"].value.value is False)]
        ok_pc = True
        # a path that sets the returned status to False is a refusal, not a way into calc_As
        refuse = [n for n in pc.g.nodes() if pc.g.data(n)["kind"] == "stmt" and isinstance(pc.g.data(n)["ast"], ast.Assign)
                  and isinstance(pc.g.data(n)["ast"].value, ast.Constant) and pc.g.data(n)["ast"].value.value is False
                  and any(isinstance(pc.g.data(r)["ast"].value, ast.Name) and pc.g.data(r)["ast"].value.id == dotted(pc.g.data(n)["ast"].targets[0])
                          for r in rets)]
        for r in rets:
            good, p = pc.g.must_pass(pc.g.entry, r, ev_pc + refuse)
            if not good:
                ok_pc = False
                wit = pc.g.fmt_path(p)
    ctx.check(ok_run or ok_pc, "C08.fresh", "EIG.run/jacobian", "Jacobians re-evaluated (a call reaching System.j_update) on every path to calc_As",
              "calc_As can be reached without re-evaluating the Jacobians: path %s of _pre_check (time-domain routine already initialised) "
              "-- after an alter() or a simulation the state matrix is built from stale fx/fy/gx/gy" % wit, pc.W())


def run(ctx):
    ctx.rule("C08.fresh", "effect/call-graph: the Jacobians are re-evaluated on every path from EIG.run to calc_As", 1)
    ctx.rule("C08.partition", "the three sign-count predicates are pairwise disjoint and exhaustive over all order types of "
             "Re(mu) relative to -tol < 0 < tol", 1)
    ctx.rule("C08.formula", "symbolic execution of _reduce in a non-commutative algebra: result == diag(1/T')(fx - fy gy^-1 gx); "
             "argument order; step order", 4)
    ctx.rule("C08.scaling", "typestate 'T-scaled': blocks of self.As may only be re-reduced with unit time constants", 1)
    ctx.rule("C08.reorder", "swap targets filtered against zstate_idx (dataflow, any idiom); reordering permutation idiom: visits leading nz_counts positions, targets used once, symmetric; "
             "2x2 partition at nz_counts", 3)
    ctx.rule("C08.axes", "axis-label inference (state/mode) through eig, solve, .T, *, @, subscripts: no index or element-wise "
             "product mixes axes; returned orientation matches the report", 5)
    ctx.rule("C08.sweep", "parameter sweeps keep dae.Tf / Jacobians current ('every operating point, including after parameter sweeps')", 2)
    ctx.assume("numpy.linalg.eig returns eigenvectors as columns; kvxopt linsolve(A, B) overwrites B with A^-1 B")
    ctx.assume("numerical accuracy of eig/linsolve and 'every operating point' are declined")
    repo = Repo()
    rule_partition(ctx, repo)
    rule_formula(ctx, repo)
    rule_scaling(ctx, repo)
    rule_axes(ctx, repo)
    rule_run(ctx, repo)
    rule_sweep(ctx, repo)
    rule_fresh(ctx, repo)
    from rules import c08_sweep, c08_derived, c08_eval
    c08_sweep.run_rule(ctx, repo)
    c08_derived.run_rule(ctx, repo)
    c08_derived.every_path_rule(ctx, repo)
    c08_eval.run_rule(ctx, repo)
