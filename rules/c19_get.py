"""C19.registry/GroupBase.get -- a group lookup returns the values the devices have, whatever mixture of numeric and string values the
queried field holds and whatever the order of the query.

Indices may be numbers or strings, in one group.  A result container chosen from the first value (a float array after a number) converts a
later string ('7' -> 7.0: the reference then points at another device) or raises for a non-numeric one.  Decided by evaluation
(engine/tinyexec.py, NumPy passed through) of GroupBase.get on a stand-in group with two member models."""
import numpy as np

from engine.pysrc import F
from engine.tinyexec import TinyExec, Fake
from engine.ordertype import Unsupported

GROUP = "andes/models/group.py"


def run_rule(ctx, repo):
    f = F.method(repo, "GroupBase", "get", GROUP)

    class _P(Fake):
        def __init__(self, v):
            self.v = v

    class _M(Fake):
        def __init__(self, name, uid, bus, m):
            self.class_name, self.uid = name, uid
            self.__dict__["bus"] = _P(bus)
            self.__dict__["M"] = _P(m)

        def idx2uid(self, idx):
            return self.uid[idx]
    ma = _M("A", {"GA": 0, "GC": 1}, [1, 5], np.array([6.0, 7.0]))
    mb = _M("B", {"GB": 0, "GD": 1}, ["7", "B2"], np.array([8.0, 9.0]))

    class _G(Fake):
        class_name = "Grp"

        def _check_src(self, src):
            pass

        def _check_idx(self, idx):
            pass

        def _1d_vectorize(self, idx):
            single = not isinstance(idx, (list, tuple, np.ndarray))
            return ([idx] if single else list(idx)), single

        def idx2model(self, idx, allow_none=False):
            own = {"GA": ma, "GC": ma, "GB": mb, "GD": mb}
            return [None if i is None else own[i] for i in idx]
    stubs = {"np.zeros": np.zeros, "np.array": np.array, "np.asarray": np.asarray, "np.empty": np.empty}
    want = {"GA": 1, "GC": 5, "GB": "7", "GD": "B2"}
    bad, und = [], None
    for q in (["GA", "GB"], ["GB", "GA"], ["GA", "GD"], ["GD", "GA", "GC"], ["GA", "GC"], ["GB", "GD"], "GB", "GA"):
        try:
            got = TinyExec(repo, "GroupBase", GROUP, stubs=stubs).call("get", _G(), "bus", q)
        except Unsupported as ex:
            und = str(ex)
            break
        except Exception as ex:      # noqa
            bad.append("get('bus', %r) raises %s(%s)" % (q, type(ex).__name__, ex))
            continue
        seq = list(got) if isinstance(q, list) else [got]
        exp = [want[i] for i in (q if isinstance(q, list) else [q])]
        ok = len(seq) == len(exp) and all((isinstance(e, str) and isinstance(g, str) and g == e) or (not isinstance(e, str) and not isinstance(g, str) and float(g) == float(e))
                                          for g, e in zip(seq, exp))
        if not ok:
            bad.append("get('bus', %r) returns %r, the devices hold %r" % (q, seq, exp))
    if not und:
        try:
            m = TinyExec(repo, "GroupBase", GROUP, stubs=stubs).call("get", _G(), "M", ["GB", "GA"])
            if not (isinstance(m, np.ndarray) and list(m) == [8.0, 6.0]):
                bad.append("numerical query no longer returns an array: %r" % (m,))
        except Unsupported as ex:
            und = str(ex)
    if und:
        ctx.undecided("C19.registry", "GroupBase.get/mixed-values", "evaluator: %s" % und, f.W())
    else:
        ctx.check(not bad, "C19.registry", "GroupBase.get/mixed-values", "values come back as the devices hold them, for every order of the query",
                  "; ".join(bad[:2]) + " -- a device that refers to bus '7' through a group is attached to bus 7 (another device), or a valid "
                  "query fails depending on its order", f.W())
