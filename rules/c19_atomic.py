"""C19.registry/ModelData.add/atomic -- a rejected device leaves the model as it was.

Parameter `add` methods reject a device (duplicate value of a unique parameter: IndexError; missing mandatory parameter: ValueError)
AFTER ModelData.add has entered the device in `uid`, counted it and appended the earlier parameters.  Unless that is undone, the model
keeps a half-added ghost: the group's counter does not know it, the next automatic idx duplicates it within the model, lookups by that
idx fail.  Decided by evaluation (engine/tinyexec.py) of ModelData.add on a stand-in model whose k-th parameter rejects the value, for
every k: afterwards `uid`, `n` and the length of every parameter list are what they were."""
from collections import OrderedDict

from engine.pysrc import F
from engine.tinyexec import TinyExec, Fake
from engine.ordertype import Unsupported

MODELDATA = "andes/core/model/modeldata.py"


def run_rule(ctx, repo):
    f = F.method(repo, "ModelData", "add", MODELDATA)

    class _P(Fake):
        def __init__(self, n0, fail=None):
            self.v, self.fail = list(range(n0)), fail

        def add(self, value=None):
            if self.fail is not None:
                raise self.fail
            self.v.append(value)

    class _M(Fake):
        class_name = "M"
    bad, und = [], None
    names = ["idx", "u", "name", "bus", "x"]
    for k in range(len(names) + 1):
        for exc in (ValueError("mandatory"), IndexError("unique")):
            m = _M()
            m.uid, m.n = {"d0": 0, "d1": 1}, 2
            m.params = OrderedDict((nm, _P(2, exc if i == k else None)) for i, nm in enumerate(names))
            raised = None
            try:
                TinyExec(repo, "ModelData", MODELDATA, stubs={"logger.warning": lambda *a, **kw: None, "np.isnan": lambda x: x != x}).call(
                    "add", m, idx="d2", u=1, bus=7, x=0.5)
            except Unsupported as ex:
                und = str(ex)
                break
            except (ValueError, IndexError) as ex:
                raised = ex
            lens = sorted({len(p.v) for p in m.params.values()})
            if k < len(names):
                if raised is None:
                    bad.append("parameter `%s` rejects the device but add() does not raise" % names[k])
                elif m.uid != {"d0": 0, "d1": 1} or m.n != 2 or lens != [2]:
                    bad.append("after `%s` rejected the device (%s): uid=%s n=%d parameter lengths=%s" % (
                        names[k], type(raised).__name__, sorted(m.uid), m.n, lens))
            elif raised is not None or m.uid.get("d2") != 2 or m.n != 3 or lens != [3]:
                bad.append("an accepted device is not registered completely: uid=%s n=%d lengths=%s" % (sorted(m.uid), m.n, lens))
        if und:
            break
    if und:
        ctx.undecided("C19.registry", "ModelData.add/atomic", "evaluator: %s" % und, f.W())
    else:
        ctx.check(not bad, "C19.registry", "ModelData.add/atomic", "a device rejected by one of its parameters leaves uid, n and every parameter list unchanged",
                  "; ".join(bad[:2]) + " -- the ghost device is unknown to the group: the next automatic idx duplicates it within the model and "
                  "lookups by that idx fail", f.W())
