"""C10 -- variable addressing is a bijection and external links follow device indices.

Decided: the address blocks of DAE.request_address tile [begin, end) in both layouts (affine identities by
normal form); alloc/advance pairing in set_address; external links are driven by idx2uid(indexer) /
group.get(idx=indexer) (def-use); slot names pair idx with address; one reader for Model/Group.get."""
import ast

import sympy as sp

from engine import astq as Q
from engine.cfg import walk_noscope
from engine.pyexpr import to_sympy, PyExprError
from engine.pysrc import Repo, F, dotted, src, calls_in
from engine.report import AnalysisError

DAE = "andes/variables/dae.py"
SYSTEM = "andes/system.py"
VAR = "andes/core/var.py"
PARAM = "andes/core/param.py"
SERVICE = "andes/core/service.py"
GROUP = "andes/models/group.py"
MODEL = "andes/core/model/model.py"


def rule_tiling(ctx, repo):
    f = F.method(repo, "DAE", "request_address", DAE)
    fn = f.fn
    a = [p.arg for p in fn.args.args]
    if a[1:5] != ["array_name", "ndevice", "nvar", "collate"]:
        raise AnalysisError("DAE.request_address signature changed: %s" % a)
    begin, nd, nv, i = sp.symbols("begin ndevice nvar i", integer=True)
    e0 = Q.first("$b = self.__dict__[$c]", fn)[1]
    e1 = Q.first("$e = $b + ndevice * nvar", fn, e0)[1] if e0 else None
    if e1 is None:
        e1 = Q.first("$e = $b + nvar * ndevice", fn, e0)[1] if e0 else None
    if e1 is None:
        ctx.undecided("C10.tiling", "DAE.request_address", "begin/end definitions not recognised", f.W())
        return
    bname, ename = src(e1["b"]), src(e1["e"])
    ren = {bname: begin, ename: begin + nd * nv, "ndevice": nd, "nvar": nv}
    # the two layout branches
    t = f.tests(lambda c: c.strip() in ("not collate", "collate"))
    if not t:
        ctx.undecided("C10.tiling", "DAE.request_address", "collate branch not recognised", f.W())
        return
    pol = src(f.g.data(t[0])["ast"].test).strip() == "not collate"
    branches = {"contiguous": "true" if pol else "false", "collated": "false" if pol else "true"}
    kk = sp.Symbol("k", integer=True)

    def progression(x, ren2):
        """(element(k), count) of an index-array expression built from np.arange, + and * with scalars"""
        if isinstance(x, ast.Call) and dotted(x.func) == "np.arange" and not x.keywords:
            ar = [to_sympy(y, ren2) for y in x.args]
            if len(ar) == 1:
                return kk, ar[0], None
            st = ar[2] if len(ar) > 2 else sp.Integer(1)
            return ar[0] + st * kk, sp.ceiling((ar[1] - ar[0]) / st), ar[1]
        if isinstance(x, ast.BinOp) and isinstance(x.op, (ast.Add, ast.Mult, ast.Sub)):
            for arr, sc, arr_left in ((x.left, x.right, True), (x.right, x.left, False)):
                try:
                    el, cnt, stop = progression(arr, ren2)
                except PyExprError:
                    continue
                c = to_sympy(sc, ren2)
                if isinstance(x.op, ast.Add):
                    return el + c, cnt, None
                if isinstance(x.op, ast.Mult):
                    return el * c, cnt, None
                if arr_left:
                    return el - c, cnt, None
                return c - el, cnt, None
        raise PyExprError("not an arithmetic progression: %s" % src(x))

    for layout, lab in branches.items():
        apps = []
        for n in f.g.nodes():
            if f.g.data(n)["kind"] == "stmt" and f.g.guarded_by(n, t[0], lab):
                m_ = Q.match("$o.append($x)", f.g.data(n)["ast"])
                if m_:
                    apps.append((n, m_["x"]))
        loopvar = None
        for lp, e in Q.loops(fn, "range(nvar)", "$k"):
            loopvar = src(e["k"])
        if len(apps) != 1 or loopvar is None:
            ctx.undecided("C10.tiling", "request_address/%s" % layout, "block allocation `out.append(<index array>)` in a loop over range(nvar) not recognised", f.W())
            continue
        n, x = apps[0]
        ren2 = dict(ren)
        ren2[loopvar] = i
        try:
            el, cnt, stop = progression(x, ren2)
        except PyExprError as ex:
            ctx.undecided("C10.tiling", "request_address/%s" % layout, "front-end: %s" % ex, f.W(n))
            continue
        end = begin + nd * nv
        start = el.subs(kk, 0)
        step = sp.expand(el.subs(kk, 1) - start)
        if layout == "contiguous":
            obl = {"start(0) = begin": sp.expand(start.subs(i, 0) - begin),
                   "start(i+1) = start(i) + ndevice": sp.expand(start.subs(i, i + 1) - start - nd),
                   "step = 1": sp.expand(step - 1),
                   "block length = ndevice": sp.expand((stop - start - nd) if stop is not None else (cnt - nd))}
        else:
            obl = {"start(i) = begin + i": sp.expand(start - begin - i),
                   "step = nvar": sp.expand(step - nv),
                   "ndevice elements": sp.expand((stop - end) if stop is not None else (cnt - nd))}
        bad = {k_: v for k_, v in obl.items() if v != 0}
        if not bad:
            ctx.ok("C10.tiling", "request_address/%s" % layout, "blocks tile [begin, begin + ndevice*nvar): " + "; ".join(obl), f.W(n))
            continue
        # the obligations are sufficient, not necessary: a violation needs a concrete (ndevice, nvar, begin) whose blocks do not
        # partition the requested range
        witness = None
        for ndv in range(1, 5):
            for nvv in range(1, 5):
                for b0 in (0, 3):
                    got = []
                    for iv in range(nvv):
                        sub = {nd: ndv, nv: nvv, begin: b0, i: iv}
                        c_ = int(cnt.subs(sub))
                        got += [int(el.subs(sub).subs(kk, j)) for j in range(max(c_, 0))]
                    if sorted(got) != list(range(b0, b0 + ndv * nvv)) and witness is None:
                        witness = "ndevice=%d nvar=%d begin=%d gives addresses %s, requested range is [%d, %d)" % (
                            ndv, nvv, b0, got, b0, b0 + ndv * nvv)
        if witness:
            ctx.violation("C10.tiling", "request_address/%s" % layout, "address blocks do not tile the requested range (%s): %s" % (
                "; ".join("%s fails by %s" % kv for kv in bad.items()), witness), f.W(n))
        else:
            ctx.undecided("C10.tiling", "request_address/%s" % layout, "unrecognised but not refuted layout: " + "; ".join(bad), f.W(n))
    # the counter is advanced to end, after the blocks were cut from the old value
    adv = [n for n in f.g.nodes() if f.g.data(n)["kind"] == "stmt" and Q.match("self.__dict__[$c] = %s" % ename, f.g.data(n)["ast"])]
    ok = bool(adv) and f.after([t[0]], adv)[0]
    ctx.check(ok, "C10.tiling", "request_address/counter", "counter := end after allocation",
              "the size counter is not advanced to the end of the allocated range", f.W())
    # counter table
    i_ = F.method(repo, "DAE", "__init__", DAE)
    tab = None
    for n in walk_noscope(i_.fn):
        if isinstance(n, ast.Assign) and dotted(n.targets[0]) == "self._array_and_counter" and isinstance(n.value, ast.Dict):
            tab = {k.value: v.value for k, v in zip(n.value.keys, n.value.values)}
    want = {"x": "n", "f": "n", "y": "m", "g": "m"}
    ctx.check(tab is not None and all(tab.get(k) == v for k, v in want.items()), "C10.tiling", "DAE._array_and_counter",
              "x,f -> n ; y,g -> m", "array/counter table changed: %s" % tab, i_.W())


def rule_set_address(ctx, repo):
    f = F.method(repo, "System", "set_address", SYSTEM)
    fn = f.fn
    # phase 1: request with the model's own counts and collate flag; i-th block to i-th variable
    ok = False
    e = Q.first("$xa = self.dae.request_address('x', ndevice=$nd, nvar=len($m.states), collate=$c)", fn)[1]
    e2 = Q.first("$ya = self.dae.request_address('y', ndevice=$nd, nvar=len($m.algebs), collate=$c)", fn, {k: v for k, v in (e or {}).items() if k in ("nd", "m", "c")})[1] if e else None
    if e and e2:
        okx = any(Q.has("$it.set_address(%s[$i], contiguous=$cc)" % src(e["xa"]), lp, ee)
                  for lp, ee in Q.loops(fn, "enumerate(%s.states.values())" % src(e["m"]), "($i, $it)"))
        oky = any(Q.has("$it.set_address(%s[$i], contiguous=$cc)" % src(e2["ya"]), lp, ee)
                  for lp, ee in Q.loops(fn, "enumerate(%s.algebs.values())" % src(e["m"]), "($i, $it)"))
        ok = okx and oky and src(e["nd"]) in ("ndevice", "%s.n" % src(e["m"]))
    ctx.check(ok, "C10.alloc", "System.set_address/phase1", "x blocks <- states, y blocks <- algebs, i-th block to i-th variable",
              "internal variables no longer receive the i-th block requested for their own array", f.W())
    # phase 3: arange(C, C + k) followed by C += k with the identical k
    n_pairs = 0
    bad = []
    for c in ("p", "q"):
        e = Q.first("$it.set_address(np.arange(self.dae.%s, self.dae.%s + $k))" % (c, c), fn)[1]
        if e is None:
            bad.append("no np.arange(dae.%s, dae.%s + k) allocation" % (c, c))
            continue
        k = src(e["k"])
        alloc = [n for n in f.g.nodes() if f.g.data(n)["kind"] == "stmt" and
                 Q.match("$it.set_address(np.arange(self.dae.%s, self.dae.%s + %s))" % (c, c, k), f.g.data(n)["ast"])]
        adv = [n for n in f.g.nodes() if f.g.data(n)["kind"] == "stmt" and Q.match("self.dae.%s += %s" % (c, k), f.g.data(n)["ast"])]
        n_pairs += 1
        if not adv:
            bad.append("dae.%s is not advanced by the allocated length %s" % (c, k))
        else:
            # every allocation is followed by the advance before the next allocation
            if f.g.cycle_avoiding(alloc[0], adv) or not f.g.must_pass(alloc[0], f.g.exit, adv)[0]:
                bad.append("an allocation from dae.%s can be followed by another one (or by the exit) without advancing the counter" % c)
    ctx.check(not bad and n_pairs == 2, "C10.alloc", "System.set_address/phase3", "arange(C, C+k) paired with C += k for h and i",
              "; ".join(bad), f.W())
    # skip guards agree between phase 1 and 3; flag set only at the end of phase 3
    flag = [n for n in f.g.nodes() if f.g.data(n)["kind"] == "stmt" and Q.match("$m.flags.address = True", f.g.data(n)["ast"])]
    guards = [tn for tn in f.g.nodes() if f.g.data(tn)["kind"] == "test" and Q.match("$m.flags.address is True", f.g.data(tn)["ast"].test)]
    zero = [tn for tn in f.g.nodes() if f.g.data(tn)["kind"] == "test" and Q.match("$m.n == 0", f.g.data(tn)["ast"].test)]
    ctx.check(len(flag) == 1 and len(guards) == 2 and len(zero) == 2, "C10.alloc", "System.set_address/guards",
              "phases 1 and 3 skip the same models (already addressed / empty); flag set once in phase 3",
              "skip guards of the address phases differ (%d address guards, %d empty guards, %d flag writes)" % (len(guards), len(zero), len(flag)), f.W())
    rs = f.calls("self.dae.resize_arrays")
    sv = f.calls("self.set_var_arrays")
    an = f.calls("self.dae.alloc_or_extend_names")
    ok = bool(rs and sv and an and flag) and f.before(flag, rs)[0] is False or (bool(rs and sv and an) and f.before(rs, sv)[0] and f.before(sv, an)[0])
    ok = bool(rs and sv and an) and f.before(rs, sv)[0] and f.before(sv, an)[0]
    ctx.check(ok, "C10.alloc", "System.set_address/finalise", "resize_arrays -> set_var_arrays -> alloc_or_extend_names",
              "array resizing / view binding / name allocation out of order", f.W())


def rule_resize(ctx, repo):
    """second addressing phase: the global vectors are EXTENDED (leading values, i.e. the power-flow solution, are kept) and each
    vector is sized by its own counter."""
    r = F.method(repo, "DAE", "resize_arrays", DAE)
    want = {"x": "n", "y": "m", "f": "n", "g": "m", "h": "p", "i": "q", "Tf": "n"}
    got = {}
    e_sig = [x.arg for x in F.method(repo, "DAE", "_extend_or_slice", DAE).fn.args.args][1:]
    fills = {}

    def _bound(call):
        """arguments of a call bound to the parameter names of _extend_or_slice (positional or keyword spelling)"""
        b = dict(zip(e_sig, call.args))
        b.update({k.arg: k.value for k in call.keywords if k.arg})
        return b
    for n in walk_noscope(r.fn):
        if isinstance(n, ast.Assign) and isinstance(n.value, ast.Call) and dotted(n.value.func) == "self._extend_or_slice" and len(e_sig) >= 3:
            b = _bound(n.value)
            tgt, arr, size = dotted(n.targets[0]), b.get(e_sig[0]), b.get(e_sig[1])
            if tgt and arr is not None and size is not None and dotted(arr) == tgt and tgt.startswith("self.") and (dotted(size) or "").startswith("self."):
                got[tgt[5:]] = dotted(size)[5:]
                fills[tgt[5:]] = src(b[e_sig[2]]) if e_sig[2] in b else None
    bad = {k: got.get(k) for k, v in want.items() if got.get(k) != v}
    ctx.check(not bad, "C10.resize", "DAE.resize_arrays", "each vector resized with its own counter (x,f,Tf->n; y,g->m; h->p; i->q)",
              "vector/counter pairing in resize_arrays changed: %s" % bad, r.W())
    ok = fills.get("Tf") == "np.ones"
    ctx.check(ok, "C10.resize", "DAE.resize_arrays/Tf", "new time-constant slots default to 1 (identity mass matrix)",
              "new Tf slots are no longer filled with ones", r.W())
    e = F.method(repo, "DAE", "_extend_or_slice", DAE)
    a = [x.arg for x in e.fn.args.args]
    ok = Q.has("%s = np.append(%s, %s(%s - len(%s)))" % (a[1], a[1], a[3], a[2], a[1]), e.fn) and \
        (Q.has("%s = %s[0:%s]" % (a[1], a[1], a[2]), e.fn) or Q.has("%s = %s[:%s]" % (a[1], a[1], a[2]), e.fn))
    t = e.tests("%s > len(%s)" % (a[2], a[1]))
    ctx.check(ok and bool(t), "C10.resize", "DAE._extend_or_slice", "growth appends (existing leading values kept), shrink slices from 0",
              "array growth no longer preserves the existing leading values (the power-flow solution would be lost at TDS start)", e.W())
    n_ = F.method(repo, "DAE", "alloc_or_extend_names", DAE)
    spec = None
    for x in walk_noscope(n_.fn):
        if isinstance(x, ast.Assign) and dotted(x.targets[0]) == "specs" and isinstance(x.value, ast.Dict):
            spec = {k.value: src(v) for k, v in zip(x.value.keys, x.value.values)}
    wantn = {"x_name": "self.n", "y_name": "self.m", "h_name": "self.p", "i_name": "self.q", "x_tex_name": "self.n", "y_tex_name": "self.m"}
    ctx.check(spec is not None and all(spec.get(k) == v for k, v in wantn.items()), "C10.resize", "DAE.alloc_or_extend_names",
              "name lists sized by the counter of their vector; existing names kept (extend)", "name list / counter pairing changed: %s" % spec, n_.W())
    sv = F.method(repo, "System", "set_var_arrays", SYSTEM)
    ok = sum(1 for lp, e2 in Q.loops(sv.fn, "$m.cache.$c.values()", "$v") if e2["c"] in ("vars_int", "vars_ext")
             and Q.has("$v.set_arrays(self.dae, inplace=inplace, alloc=alloc)", lp, e2)) == 2
    ctx.check(ok, "C10.resize", "System.set_var_arrays", "every internal and external variable re-bound to the (possibly new) DAE arrays",
              "not all variables are re-bound after the vectors were resized (stale views)", sv.W())
    iv = F.method(repo, "BaseVar", "_set_arrays_inplace", VAR)
    ok = Q.has("$s = slice(self.a[0], self.a[-1] + 1)", iv.fn) and Q.has("self.v = dae.__dict__[self.v_code][$s]", iv.fn) and \
        Q.has("self.e = dae.__dict__[self.e_code][$s]", iv.fn)
    ctx.check(ok, "C10.resize", "BaseVar._set_arrays_inplace", "in-place view = dae.<code>[a[0] : a[-1]+1] of the variable's own vector",
              "in-place views no longer slice the variable's own address range", iv.W())


def rule_links(ctx, repo):
    # ExtVar.link_external
    f = F.method(repo, "ExtVar", "link_external", VAR)
    fn = f.fn
    a = [p.arg for p in fn.args.args]
    ext = a[1]
    # model branch
    e = Q.first("$uid = %s.idx2uid(self.indexer.v)" % ext, fn)[1]
    ok = e is not None and Q.has("self.a = $ov.a[$uid]", fn, e) and Q.has("$ov = %s.__dict__[self.src]" % ext, fn)
    # the full-range definition is reachable only without an indexer (either orientation of the test)
    full = Q.first("$uid = np.arange(%s.n, dtype=int)" % ext, fn, e)[0] if e else None
    guarded = False
    if full is not None:
        fulln = [n for n in f.g.nodes() if f.g.data(n)["kind"] == "stmt" and f.g.data(n)["ast"] is full]
        for tn in f.g.nodes():
            if f.g.data(tn)["kind"] != "test" or not hasattr(f.g.data(tn)["ast"], "test"):
                continue
            tt = f.g.data(tn)["ast"].test
            if Q.match("self.indexer is not None", tt) is not None and fulln and f.g.guarded_by(fulln[0], tn, "false"):
                guarded = True
            if Q.match("self.indexer is None", tt) is not None and fulln and f.g.guarded_by(fulln[0], tn, "true"):
                guarded = True
    ok = ok and guarded and full is not None
    ctx.check(ok, "C10.link", "ExtVar.link_external/model", "a = source.a[idx2uid(indexer.v)] (full range iff no indexer)",
              "external variable addresses are no longer taken at the positions idx2uid(indexer.v) of the source variable", f.W())
    # group branch
    e = Q.first("self.a = %s.get(src=self.src, idx=self._idx, attr='a', allow_none=self.allow_none, default=0).astype(int)" % ext, fn)[0]
    ok = e is not None and (Q.has("self._idx = self.indexer.v", fn) and Q.has("self._idx = np.concatenate([np.array($i) for $i in self.indexer.v])", fn))
    ctx.check(ok, "C10.link", "ExtVar.link_external/group", "a = group.get(src, idx=indexer-derived, attr='a')",
              "group-linked external variable addresses no longer follow the indexer", f.W())
    # type guard raises
    rs = [n for n in walk_noscope(fn) if isinstance(n, ast.Raise) and "TypeError" in src(n)]
    ctx.check(len(rs) >= 2, "C10.link", "ExtVar.link_external/type-guard", "v_code mismatch raises on both branches",
              "linking a state through an algebraic external variable (or vice versa) is no longer rejected", f.W())
    # ExtParam
    p = F.method(repo, "ExtParam", "link_external", PARAM)
    a = [x.arg for x in p.fn.args.args]
    e = Q.first("$uid = %s.idx2uid(self.indexer.v)" % a[1], p.fn)[1]
    ok = e is not None and Q.has("self.v = $pi.v[$uid]", p.fn, e) and Q.has("self.vin = $pi.vin[$uid]", p.fn, e) and \
        Q.has("self.pu_coeff = $pi.pu_coeff[$uid]", p.fn, e)
    ctx.check(ok, "C10.link", "ExtParam.link_external/model", "v, vin, pu_coeff taken at idx2uid(indexer.v)",
              "external parameter values no longer follow the indexer", p.W())
    # every definition of the position vector that does not come from the indexer is reachable only when there is no indexer
    if e is not None:
        un = src(e["uid"])
        defs = [st for st in walk_noscope(p.fn) if isinstance(st, ast.Assign) and any(dotted(t) == un for t in st.targets)]
        bad = []
        for st in defs:
            if "indexer" in src(st.value):
                continue
            chain = Q.condition_chain(p.fn, st) or []
            implied = False
            for c in chain:
                if not hasattr(c, "test") or not any(y is st for b_ in (c.body,) for x in b_ for y in ast.walk(x)):
                    continue        # st is in the else branch of c
                conj = c.test.values if isinstance(c.test, ast.BoolOp) and isinstance(c.test.op, ast.And) else [c.test]
                if any(Q.match("self.indexer is None", t) is not None for t in conj):
                    implied = True
            if not implied:
                bad.append("`%s` (guard: %s)" % (src(st), " / ".join(src(c.test) for c in chain if hasattr(c, "test")) or "none"))
        ctx.check(not bad, "C10.link", "ExtParam.link_external/positional", "positional read only when the parameter has no indexer",
                  "position-based definition %s can be taken although an indexer exists: values are then read by position, not from the "
                  "device named by the idx" % "; ".join(bad), p.W())
    n_get = 0
    for c in calls_in(p.fn):
        if dotted(c.func) == "%s.get" % a[1]:
            kw = {k.arg: src(k.value) for k in c.keywords}
            if kw.get("src") == "self.src" and kw.get("idx") == "self.indexer.v":
                n_get += 1
    ctx.check(n_get == 3, "C10.link", "ExtParam.link_external/group", "group.get(src, idx=indexer.v, attr=v|vin|pu_coeff)",
              "group-linked external parameter no longer reads v/vin/pu_coeff through the indexer (%d of 3 reads)" % n_get, p.W())
    # ExtService
    s = F.method(repo, "ExtService", "link_external", SERVICE)
    a = [x.arg for x in s.fn.args.args]
    ok = any(dotted(c.func) == "%s.get" % a[1] and {k.arg: src(k.value) for k in c.keywords}.get("idx") == "self.indexer.v"
             and {k.arg: src(k.value) for k in c.keywords}.get("src") == "self.src"
             and {k.arg: src(k.value) for k in c.keywords}.get("attr") == "self.attr" for c in calls_in(s.fn))
    ctx.check(ok, "C10.link", "ExtService.link_external", "v = ext.get(src, idx=indexer.v, attr)",
              "external service no longer reads through the indexer", s.W())


def rule_names(ctx, repo):
    f = F.function(repo, SYSTEM, "_set_xy_name")
    fn = f.fn
    ok = False
    for lp, e in Q.loops(fn, "vars_dict.items()", "($name, $item)"):
        for lp2, e2 in Q.loops(lp, "zip($idx.v, $item.a)", "($ii, $addr)", e):
            if Q.has("dests[0][$addr] = f'{$name} {_append_model_name($mn, $ii)}'", lp2, e2):
                ok = True
    ok = ok and Q.has("$idx = mdl.idx", fn)
    ctx.check(ok, "C10.names", "_set_xy_name", "name built from idx.v[k] is written at item.a[k]",
              "slot names no longer pair the device idx with the address of the same position", f.W())
    s = F.method(repo, "System", "set_dae_names", SYSTEM)
    ok = Q.has("_set_xy_name($m, $m.states, (self.dae.x_name, self.dae.x_tex_name))", s.fn) and \
        Q.has("_set_xy_name($m, $m.algebs, (self.dae.y_name, self.dae.y_tex_name))", s.fn)
    ctx.check(ok, "C10.names", "System.set_dae_names", "states -> x_name, algebs -> y_name",
              "state/algebraic names are written to the wrong name list", s.W())


def rule_one_reader(ctx, repo):
    g = F.method(repo, "GroupBase", "get", GROUP)
    fn = g.fn
    e = Q.first("$models = self.idx2model($idx, allow_none=allow_none)", fn)[1]
    ok = e is not None
    if ok:
        ok = False
        for lp, e2 in Q.loops(fn, "enumerate($idx)", "($i, $one)", {"idx": e["idx"]}):
            e3 = Q.first("$uid = $models[$i].idx2uid($one)", lp, dict(e2, models=e["models"]))[1]
            if e3 and Q.has("$inst = $models[$i].__dict__[src]", lp, e3) and Q.has("$val = $inst.__dict__[attr][$uid]", lp, e3):
                ok = True
    ctx.check(ok, "C10.reader", "GroupBase.get", "value = owning_model.<src>.<attr>[owning_model.idx2uid(idx)]",
              "group reads no longer resolve through idx2model + the owning model's idx2uid", g.W())
    m = F.method(repo, "Model", "get", MODEL)
    e = Q.first("$uid = self.idx2uid(idx)", m.fn)[1]
    ok = e is not None and Q.has("return self.__dict__[src].__dict__[attr][$uid]", m.fn, e)
    ctx.check(ok, "C10.reader", "Model.get", "value = self.<src>.<attr>[idx2uid(idx)]", "model reads no longer resolve idx through idx2uid", m.W())
    o = F.method(repo, "Model", "_one_idx2uid", MODEL)
    ok = Q.has("return self.uid[idx]", o.fn) and any(isinstance(n, ast.Raise) for n in walk_noscope(o.fn))
    ctx.check(ok, "C10.reader", "Model._one_idx2uid", "uid[idx], unknown idx raises", "unknown idx no longer raises KeyError", o.W())


def run(ctx):
    ctx.rule("C10.tiling", "affine identities: the blocks cut by DAE.request_address tile [begin, begin+ndevice*nvar) in both "
             "layouts; counter advanced; array/counter table", 4)
    ctx.rule("C10.alloc", "set_address: i-th block to i-th variable; arange(C, C+k) paired with C += k; guards agree; finalise order", 4)
    ctx.rule("C10.resize", "second addressing phase: vectors extended with their own counters keeping leading values; names extended; "
             "views re-bound", 6)
    ctx.rule("C10.link", "external variable / parameter / service links data-depend on idx2uid(indexer) or group.get(idx=indexer); "
             "type mismatch raises", 6)
    ctx.rule("C10.names", "slot names pair idx.v[k] with a[k]", 2)
    ctx.rule("C10.reader", "Model.get and Group.get resolve through the same idx->uid map", 3)
    ctx.assume("per-case runtime facts (device order, string vs numeric idx) are declined; numpy arange/fancy-index semantics")
    repo = Repo()
    rule_tiling(ctx, repo)
    rule_set_address(ctx, repo)
    rule_resize(ctx, repo)
    rule_links(ctx, repo)
    rule_names(ctx, repo)
    rule_one_reader(ctx, repo)
