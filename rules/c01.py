"""C01 -- converged power flow satisfies the AC network equations of the input data.

Decided clauses (DESIGN 3/C01): element equations == textbook references (normal forms);
residual assembly; verdict dominated by the bare-tolerance test on the full residual;
linear-system layout.  Convergence itself is declined (numerical)."""
import ast
import itertools

import sympy as sp

from engine import dsl, elab, tv
from engine import astq as Q
from engine.cfg import walk_noscope
from engine.pysrc import Repo, F, dotted, src, calls_in
from engine.report import AnalysisError
from refs import network_refs as NR

PFLOW = "andes/routines/pflow.py"
SYSTEM = "andes/system.py"
MODEL = "andes/core/model/model.py"


def erase_regularisers(e):
    """additive regularisers |c| <= 1e-6 -> 0 (r+1e-8)."""
    rep = {f: sp.S.Zero for f in e.atoms(sp.Float) if abs(float(f)) <= 1e-6}
    return e.xreplace(rep) if rep else e


class Elem:
    """a model's equations with its ConstService chain inlined (so services are checked, not trusted)."""

    def __init__(self, model):
        self.m = model
        self.st = dsl.SymTab(model)
        self.svc = {}
        for n, s in model.services.items():
            if type(s).__name__ == "ConstService" and s.v_str is not None and s.v_numeric is None:
                self.svc[self.st.get(n)] = dsl.parse_dsl(s.v_str, self.st)

    def inline(self, e):
        for _ in range(8):
            hit = e.free_symbols & set(self.svc)
            if not hit:
                break
            e = e.xreplace({s: self.svc[s] for s in hit})
        return e

    def eq(self, vname, regime=None):
        v = self.m.cache.all_vars[vname]
        e = dsl.parse_dsl(v.e_str, self.st) if v.e_str is not None else sp.S.Zero
        e = self.inline(e)
        e = erase_regularisers(e)
        if regime is not None:
            t = sp.Symbol("dae_t")
            tval = -1 if regime == "pflow" else 1

            def ev(ind):
                c = ind.args[0]
                if c.free_symbols == {t}:
                    return sp.S.One if bool(c.subs(t, tval)) else sp.S.Zero
                return ind
            e = e.replace(lambda x: isinstance(x, dsl.Indicator), ev)
        return e


def to_real(e, st):
    """map reference symbols (plain real symbols) onto the model's symbol table by name."""
    rep = {}
    for s in e.free_symbols:
        if s.name in st:
            rep[s] = st.get(s.name)
        else:
            raise dsl.DSLError("reference needs %r which the model does not declare" % s.name)
    return e.xreplace(rep)


def complex_norm(e):
    """expand re()/im() of complex rational service chains into real rational functions."""
    try:
        return sp.expand(e, complex=True)
    except Exception:
        return e


def compare(ctx, rule, construct, got, ref, whr, flags):
    got = complex_norm(got)
    v, stage = dsl.equal(got, ref, flags=flags)
    if v == "equal":
        ctx.ok(rule, construct, "== textbook reference (%s)" % stage, whr)
    elif v == "differ":
        try:
            d = sp.factor(sp.simplify(dsl.reduce_idempotent(sp.expand(got - ref), flags)))
        except Exception:
            d = "?"
        ctx.violation(rule, construct, "differs from the textbook reference; declared - reference = %s" % str(d)[:400], whr)
    else:
        ctx.undecided(rule, construct, "cannot decide (%s)" % stage, whr)


def rule_elements(ctx, models):
    def need(name):
        if name not in models:
            raise AnalysisError("anchor model vanished: %s" % name)
        return models[name]

    # ---- Line (pi model with tap/phase shift and asymmetric shunts)
    m = need("Line")
    el = Elem(m)
    u = el.st.get("u")
    refs = NR.line_refs()
    for vn, ref in refs.items():
        if vn not in m.cache.all_vars:
            raise AnalysisError("Line.%s vanished" % vn)
        var = m.cache.all_vars[vn]
        w = elab.locate(m, vn)
        compare(ctx, "C01.element", "Line.%s.e_str" % vn, el.eq(vn), to_real(ref, el.st), w, {u})
        src_, idxr = NR.LINE_LINKS[vn]
        ok = getattr(var, "model", None) == "Bus" and var.src == src_ and getattr(var.indexer, "name", None) == idxr
        ctx.check(ok, "C01.link", "Line.%s" % vn, "Bus.%s via %s" % (src_, idxr),
                  "injection row is linked to Bus.%s via %s, textbook terminal is Bus.%s via %s" % (
                      var.src, getattr(var.indexer, "name", None), src_, idxr), w)

    # ---- shunts
    for name, (gn, bn) in (("Shunt", ("g", "b")), ("ShuntTD", ("g", "b")), ("ShuntSw", ("geff", "beff"))):
        m = need(name)
        el = Elem(m)
        for vn, ref in NR.shunt_refs(gn, bn).items():
            var = m.cache.all_vars[vn]
            compare(ctx, "C01.element", "%s.%s.e_str" % (name, vn), el.eq(vn), to_real(ref, el.st),
                    elab.locate(m, vn), {el.st.get("u")})
            ctx.check(var.model == "Bus" and var.src == vn and var.indexer.name == "bus", "C01.link", "%s.%s" % (name, vn),
                      "Bus.%s via bus" % vn, "row linked to Bus.%s via %s" % (var.src, var.indexer.name), elab.locate(m, vn))

    # ---- PQ, both regimes
    m = need("PQ")
    el = Elem(m)
    fl = tv.flags_of(m, el.st) | {el.st.get("u")}
    for regime, rr in NR.pq_refs().items():
        for vn, ref in rr.items():
            compare(ctx, "C01.element", "PQ.%s.e_str[%s]" % (vn, regime), el.eq(vn, regime), to_real(ref, el.st),
                    elab.locate(m, vn), fl)
    for vn in ("a", "v"):
        var = m.cache.all_vars[vn]
        ctx.check(var.model == "Bus" and var.src == vn and var.indexer.name == "bus", "C01.link", "PQ.%s" % vn,
                  "Bus.%s via bus" % vn, "row linked to Bus.%s via %s" % (var.src, var.indexer.name), elab.locate(m, vn))

    # ---- PV / Slack
    for name, refs in (("PV", NR.pv_refs()), ("Slack", NR.slack_refs())):
        m = need(name)
        el = Elem(m)
        fl = tv.flags_of(m, el.st) | {el.st.get("u")}
        for vn, ref in refs.items():
            if vn not in m.cache.all_vars:
                raise AnalysisError("%s.%s vanished" % (name, vn))
            compare(ctx, "C01.element", "%s.%s.e_str" % (name, vn), el.eq(vn), to_real(ref, el.st), elab.locate(m, vn), fl)
        for vn in ("a", "v"):
            var = m.cache.all_vars[vn]
            ctx.check(var.model == "Bus" and var.src == vn and var.indexer.name == "bus", "C01.link", "%s.%s" % (name, vn),
                      "Bus.%s via bus" % vn, "row linked to Bus.%s via %s" % (var.src, var.indexer.name), elab.locate(m, vn))
        # set-point variables force the bus value (setter) and start from the set-point
        v = m.cache.all_vars["v"]
        ctx.check(v.v_setter is True and v.v_str is not None, "C01.setpoint", "%s.v" % name,
                  "voltage set-point written into the bus (v_setter)", "bus voltage no longer initialised from the set-point",
                  elab.locate(m, "v"))
        if name == "Slack":
            a = m.cache.all_vars["a"]
            ctx.check(a.v_setter is True and a.v_str is not None, "C01.setpoint", "Slack.a",
                      "angle reference written into the bus", "bus angle no longer initialised from the reference",
                      elab.locate(m, "a"))

    # ---- Jumper
    m = need("Jumper")
    el = Elem(m)
    for vn, ref in NR.jumper_refs().items():
        compare(ctx, "C01.element", "Jumper.%s.e_str" % vn, el.eq(vn), to_real(ref, el.st), elab.locate(m, vn), {el.st.get("u")})
    for vn, (s_, ix) in NR.LINE_LINKS.items():
        var = m.cache.all_vars[vn]
        ctx.check(var.model == "Bus" and var.src == s_ and var.indexer.name == ix, "C01.link", "Jumper.%s" % vn,
                  "Bus.%s via %s" % (s_, ix), "row linked to Bus.%s via %s" % (var.src, var.indexer.name), elab.locate(m, vn))

    # ---- Bus: pure accumulation rows
    m = need("Bus")
    for vn in ("a", "v"):
        v = m.cache.all_vars[vn]
        ctx.check(v.e_str is None and type(v).__name__ == "Algeb", "C01.element", "Bus.%s.e_str" % vn,
                  "bus rows are pure sums of device injections", "Bus.%s carries its own equation term %r" % (vn, v.e_str),
                  elab.locate(m, vn))


# quantity kinds of the network-element parameters (textbook: series impedances convert with Z-base, shunt / charging
# admittances with Y-base); the equations above are only the physical ones if every parameter is converted to the system base
UNIT_KIND = {
    "Line": {"r": "z", "x": "z", "b": "y", "g": "y", "b1": "y", "g1": "y", "b2": "y", "g2": "y"},
    "Shunt": {"g": "y", "b": "y"},
    "ShuntTD": {"g": "y", "b": "y"},
    "ShuntSw": {"g": "y", "b": "y"},
}
KINDS = ("power", "ipower", "voltage", "current", "z", "y", "r", "g", "dc_voltage", "dc_current")


def rule_units(ctx, models):
    for name, table in UNIT_KIND.items():
        m = models[name]
        for pn, kind in table.items():
            if pn not in m.params:
                raise AnalysisError("%s.%s vanished" % (name, pn))
            flags = sorted(k for k in KINDS if m.params[pn].property.get(k))
            ctx.check(flags == [kind], "C01.units", "%s.%s" % (name, pn), "declared as `%s`: converted from the device base" % kind,
                      "parameter %s.%s is declared with unit flags %s but is a `%s` quantity: it is %s, so data given on a device base "
                      "different from the system base enters the network equations unconverted" % (
                          name, pn, flags or "none", kind, "not converted" if not flags else "converted with the wrong ratio"),
                      elab.locate(m, pn))
    # tap, phi are dimensionless; status is not converted
    m = models["Line"]
    for pn in ("tap", "phi", "u"):
        flags = sorted(k for k in KINDS if m.params[pn].property.get(k))
        ctx.check(not flags, "C01.units", "Line.%s" % pn, "dimensionless: not converted", "Line.%s must not be base-converted (%s)" % (pn, flags),
                  elab.locate(m, pn))


# ---------------------------------------------------------------------------

def _continue_conds(fn):
    """conditions of `if c: continue` statements inside the single for loop of a cache predicate, and loop var."""
    loops = [n for n in walk_noscope(fn) if isinstance(n, ast.For)]
    if len(loops) != 1:
        return None, None
    lp = loops[0]
    var = dotted(lp.target.elts[1]) if isinstance(lp.target, ast.Tuple) and len(lp.target.elts) == 2 else dotted(lp.target)
    conds = []
    for s in lp.body:
        if isinstance(s, ast.If) and len(s.body) == 1 and isinstance(s.body[0], ast.Continue) and not s.orelse:
            conds.append(s.test)
        elif isinstance(s, ast.Assign):
            pass
        else:
            return None, None
    return var, conds


def _eval_cond(c, var, val):
    """evaluate a condition over attributes of `var` given val: attr -> python value."""
    if isinstance(c, ast.BoolOp):
        vs = [_eval_cond(x, var, val) for x in c.values]
        return all(vs) if isinstance(c.op, ast.And) else any(vs)
    if isinstance(c, ast.UnaryOp) and isinstance(c.op, ast.Not):
        return not _eval_cond(c.operand, var, val)
    if isinstance(c, ast.Compare) and len(c.ops) == 1:
        l, r = _term(c.left, var, val), _term(c.comparators[0], var, val)
        op = c.ops[0]
        if isinstance(op, ast.Is):
            return l is r
        if isinstance(op, ast.IsNot):
            return l is not r
        if isinstance(op, ast.Eq):
            return l == r
        if isinstance(op, ast.NotEq):
            return l != r
    if isinstance(c, (ast.Attribute, ast.Name, ast.Constant)):
        return bool(_term(c, var, val))
    raise AnalysisError("unsupported predicate shape: %s" % src(c))


def _term(e, var, val):
    if isinstance(e, ast.Constant):
        return e.value
    d = dotted(e)
    if d and d.startswith(var + "."):
        a = d[len(var) + 1:]
        if a in val:
            return val[a]
    raise AnalysisError("unsupported predicate term: %s" % src(e))


def rule_assembly(ctx, repo):
    # adder/setter predicates partition the non-inplace variables with an equation
    for kind, attrs in (("e", ("e_inplace", "e_str", "e_setter")), ("v", ("v_inplace", "v_str", "v_iter", "v_setter"))):
        fa = F.method(repo, "Model", "_%s_adders" % kind, MODEL)
        fs = F.method(repo, "Model", "_%s_setters" % kind, MODEL)
        va, ca = _continue_conds(fa.fn)
        vs, cs = _continue_conds(fs.fn)
        if ca is None or cs is None:
            raise AnalysisError("cache predicate Model._%s_adders/_setters changed shape" % kind)
        bad = []
        n = 0
        dom = {"e_inplace": (True, False), "v_inplace": (True, False), "e_setter": (True, False), "v_setter": (True, False),
               "e_str": (None, "x"), "v_str": (None, "x"), "v_iter": (None, "x")}
        for combo in itertools.product(*[dom[a] for a in attrs]):
            val = dict(zip(attrs, combo))
            in_a = not any(_eval_cond(c, va, val) for c in ca)
            in_s = not any(_eval_cond(c, vs, val) for c in cs)
            if kind == "e":
                should = (val["e_inplace"] is False) and (val["e_str"] is not None)
            else:
                should = (val["v_inplace"] is False) and not (val["v_str"] is None and val["v_iter"] is None)
            n += 1
            if in_a and in_s:
                bad.append("%s in both adders and setters" % val)
            if (in_a or in_s) != should:
                bad.append("%s: collected=%s expected=%s" % (val, in_a or in_s, should))
            if should and in_s != (val[kind + "_setter"] is True):
                bad.append("%s: setter flag not honoured" % val)
        ctx.check(not bad, "C01.partition", "Model._%s_adders/_%s_setters" % (kind, kind),
                  "%d flag valuations: disjoint, exhaustive, setter flag honoured" % n, "; ".join(bad[:3]), fa.W())

    # store_adder_setter registers every member under its own code
    f = F.method(repo, "System", "store_adder_setter", SYSTEM)
    need = {("v_adders", "_adders", "v_code"), ("e_adders", "_adders", "e_code"),
            ("v_setters", "_setters", "v_code"), ("e_setters", "_setters", "e_code"),
            ("v_getters", "_getters", "v_code")}
    got = set()
    for lp, e in Q.loops(f.fn, "$m.cache.$coll.values()", "$var"):
        for reg in ("_adders", "_setters", "_getters"):
            r = Q.first("self.%s[$var.$code].append($var)" % reg, lp, e)[1]
            if r:
                got.add((e["coll"], reg, r["code"]))
    ctx.check(need <= got, "C01.assembly", "System.store_adder_setter",
              "each cache collection registered under its own code", "missing/mis-filed registrations: %s" % sorted(need - got), f.W())
    ok, wit = f.before(f.calls("self._clear_adder_setter"), f.calls("append"))
    ctx.check(ok, "C01.assembly", "System.store_adder_setter/clear-first", "registries cleared before refilling",
              "registrations accumulate across calls: " + wit, f.W())

    # _e_to_dae: adders accumulate (several devices per bus!), setters overwrite afterwards
    f = F.method(repo, "System", "_e_to_dae", SYSTEM)
    add = Q.loops(f.fn, "self._adders[$name]", "$var")
    sett = Q.loops(f.fn, "self._setters[$name]", "$var")
    ok_add = any(Q.has("np.add.at(self.dae.__dict__[$name], $var.a, $var.e)", lp, e) for lp, e in add)
    ok_set = any(Q.has("np.put(self.dae.__dict__[$name], $var.a, $var.e)", lp, e) for lp, e in sett)
    ctx.check(ok_add, "C01.assembly", "System._e_to_dae/adders",
              "np.add.at(dae.<name>, var.a, var.e): unbuffered accumulation",
              "device residuals are no longer accumulated with np.add.at into dae.<name>[var.a] (several devices per bus overwrite)", f.W())
    ctx.check(ok_set, "C01.assembly", "System._e_to_dae/setters", "np.put after adders",
              "setter equations no longer written with np.put", f.W())
    if add and sett:
        a_nodes = [n for n in f.g.nodes() if f.g.data(n)["ast"] is add[0][0] and f.g.data(n)["kind"] == "loop"]
        s_nodes = [n for n in f.g.nodes() if f.g.data(n)["ast"] is sett[0][0] and f.g.data(n)["kind"] == "loop"]
        ok = bool(a_nodes and s_nodes) and not f.g.reachable(s_nodes[0], a_nodes[0], avoid=[n for n in f.g.nodes()
                                                                                           if f.g.data(n)["kind"] == "loop" and n not in (a_nodes[0], s_nodes[0])])
        ctx.check(ok, "C01.assembly", "System._e_to_dae/order", "setters applied after adders for the same array",
                  "setter loop can run before the adder loop of the same array", f.W())
    # fg_to_dae collects both f and g
    f = F.method(repo, "System", "fg_to_dae", SYSTEM)
    c = [x for x in calls_in(f.fn) if dotted(x.func) == "self._e_to_dae"]
    names = set()
    for x in c:
        for a in x.args:
            for k in ast.walk(a):
                if isinstance(k, ast.Constant):
                    names.add(k.value)
    ctx.check({"f", "g"} <= names, "C01.assembly", "System.fg_to_dae", "collects f and g",
              "fg_to_dae no longer collects both f and g (got %s)" % sorted(names), f.W())

    # PFlow.fg_update: clear before model updates, collection after
    f = F.method(repo, "PFlow", "fg_update", PFLOW)
    clr = f.calls("dae.clear_fg")
    upd = f.calls("system.f_update") + f.calls("system.g_update")
    col = f.calls("system.fg_to_dae")
    if not upd:
        raise AnalysisError("PFlow.fg_update: f_update/g_update calls vanished")
    ok, wit = f.before(clr, upd)
    ctx.check(ok, "C01.assembly", "PFlow.fg_update/clear-first", "dae.clear_fg() dominates the model updates",
              "residual arrays not cleared before accumulation: " + wit, f.W())
    ok, wit = f.after(upd, col)
    ctx.check(ok, "C01.assembly", "PFlow.fg_update/collect-last", "fg_to_dae() post-dominates the model updates",
              "model residuals not collected into dae: " + wit, f.W())
    ok = len(f.calls("system.f_update")) >= 1 and len(f.calls("system.g_update")) >= 1 \
        and all("self.models" in src(x) for x in calls_in(f.fn) if dotted(x.func) in ("system.f_update", "system.g_update"))
    ctx.check(ok, "C01.assembly", "PFlow.fg_update/models", "both f and g of the power-flow model set",
              "f_update/g_update not both evaluated on self.models", f.W())


def rule_verdict(ctx, repo):
    f = F.method(repo, "PFlow", "nr_solve", PFLOW)
    sets = [n for n in f.assigns("self.converged") if Q.match("self.converged = True", f.g.data(n)["ast"])]
    if not sets:
        raise AnalysisError("PFlow.nr_solve: `self.converged = True` vanished")
    e0 = Q.first("$mis = self.nr_step()", f.fn)[1]
    ok = e0 is not None
    detail = "converged=True not guarded by `mis < self.config.tol`"
    if ok:
        tests = []
        for tn in f.g.nodes():
            d = f.g.data(tn)
            if d["kind"] == "test":
                c = d["ast"].test
                if Q.match("$mis < self.config.tol", c, e0) or Q.match("$mis <= self.config.tol", c, e0):
                    tests.append(tn)
                elif isinstance(c, ast.Compare) and src(c.left) == src(e0["mis"]):
                    detail = "convergence test is `%s`: threshold is not the bare configured tolerance" % src(c)
        ok = bool(tests) and all(any(f.g.guarded_by(s, t, "true") for t in tests) for s in sets)
    ctx.check(ok, "C01.verdict", "PFlow.nr_solve/converged", "converged=True only under mis < config.tol (bare)",
              detail, f.W(sets[0]))
    # no other write of converged=True in the routine's Newton path
    ctx.check(len(sets) == 1, "C01.verdict", "PFlow.nr_solve/single-success", "one success assignment",
              "%d assignments of converged=True" % len(sets), f.W())
    # non-success exits exist: max_iter, NaN, divergence
    t = [src(f.g.data(n)["ast"].test) for n in f.g.nodes() if f.g.data(n)["kind"] == "test"]
    need = {"max_iter": any("self.config.max_iter" in x and (">" in x or "<" in x) for x in t),
            "nan": any("isnan" in x for x in t)}
    ctx.check(all(need.values()), "C01.verdict", "PFlow.nr_solve/failure-exits", "iteration-limit and NaN exits present",
              "missing failure exit(s): %s" % [k for k, v in need.items() if not v], f.W())

    # mis is the max-abs over the WHOLE f and g
    g = F.method(repo, "PFlow", "nr_step", PFLOW)
    fn = g.fn
    rets = [n for n in walk_noscope(fn) if isinstance(n, ast.Return)]
    e = None
    if len(rets) == 1 and rets[0].value is not None:
        # any max-type reduction of the two maxima (which reducer is NaN-safe is C17.nan's business)
        for form in ("$mis = max(abs($fmax), abs($gmax))", "$mis = np.maximum(abs($fmax), abs($gmax))",
                     "$mis = np.maximum(np.abs($fmax), np.abs($gmax))", "$mis = np.max(np.abs([$fmax, $gmax]))",
                     "$mis = np.max(np.abs(np.array([$fmax, $gmax])))", "$mis = np.fmax(abs($fmax), abs($gmax))"):
            e = Q.first(form, fn, {"mis": rets[0].value})[1]
            if e is not None:
                break
    ok = e is not None
    if ok:
        e1 = Q.first("$gidx = np.argmax(np.abs($sys.dae.g))", fn, e)[1]
        ok = e1 is not None and Q.has("$gmax = $sys.dae.g[$gidx]", fn, e1)
        e2 = Q.first("$fidx = np.argmax(np.abs($sys.dae.f))", fn, e)[1]
        ok = ok and e2 is not None and Q.has("$fmax = $sys.dae.f[$fidx]", fn, e2)
    ctx.check(ok, "C01.verdict", "PFlow.nr_step/mismatch", "mis = max(|f|_inf, |g|_inf) over the full residual vectors",
              "returned mismatch is no longer the max-abs over the whole dae.f and dae.g", g.W())
    # residual evaluated in this step before it is measured
    ok, wit = g.before(g.calls("self.fg_update"), g.returns())
    ctx.check(ok, "C01.verdict", "PFlow.nr_step/fresh-residual", "fg_update() precedes the measurement",
              "mismatch measured without re-evaluating the residual: " + wit, g.W())

    # run(): verdict -> exit code and return value
    r = F.method(repo, "PFlow", "run", PFLOW)
    # the exit code depends on the verdict (assigned or added; conditional expression or guarded increment -- C17.exit decides which is right)
    ok = Q.has("$s.exit_code = 0 if self.converged else 1", r.fn) or Q.has("$s.exit_code += 0 if self.converged else 1", r.fn) or any(
        isinstance(t, ast.If) and Q.match("not self.converged", t.test) is not None and
        any(isinstance(x, ast.AugAssign) and (dotted(x.target) or "").endswith("exit_code") for b in t.body for x in ast.walk(b))
        for t in ast.walk(r.fn))
    rets = r.returns()
    ok2 = all(src(r.g.data(n)["ast"].value) in ("self.converged", "False") for n in rets)
    ctx.check(ok and ok2, "C01.verdict", "PFlow.run/report", "returns self.converged; exit_code mirrors it",
              "run() no longer returns/exports the convergence flag faithfully", r.W())
    # solution copy only on the converged branch
    cp = r.assigns("self.x_sol") + r.assigns("self.y_sol")
    tests = r.tests(lambda c: c.strip() in ("not self.converged",))
    ok = bool(tests) and bool(cp) and all(r.g.guarded_by(n, tests[0], "false") for n in cp)
    ctx.check(ok, "C01.verdict", "PFlow.run/solution-copy", "x_sol/y_sol stored only when converged",
              "power-flow solution copy is not confined to the converged branch", r.W())


def rule_linear(ctx, repo):
    g = F.method(repo, "PFlow", "nr_step", PFLOW)
    fn = g.fn
    # rhs = [-f; -g] split at dae.n; the negation and the whole-array read may be spelt any way (engine/astq.negated)
    e, halves = None, set()
    for st_ in walk_noscope(fn):
        if isinstance(st_, ast.Assign) and len(st_.targets) == 1:
            neg = Q.negated(st_.value)
            if neg is None:
                continue
            m1 = Q.match("self.res[:$s.dae.n]", st_.targets[0])
            m2 = Q.match("self.res[$s.dae.n:]", st_.targets[0])
            if m1 and Q.match("$s.dae.f", neg, m1):
                e = e or m1
                halves.add("f")
            if m2 and Q.match("$s.dae.g", neg, m2):
                halves.add("g")
    ok = e is not None and halves == {"f", "g"}
    ctx.check(ok, "C01.linear", "PFlow.nr_step/rhs", "rhs = [-f; -g]", "right-hand side is not [-f; -g] split at dae.n", g.W())
    ok = e is not None and Q.has("self.A = sparse([[$s.dae.fx, $s.dae.gx], [$s.dae.fy, $s.dae.gy]])", fn, e)
    ctx.check(ok, "C01.linear", "PFlow.nr_step/matrix", "A = [[fx, fy],[gx, gy]] (kvxopt block columns)",
              "iteration matrix is not sparse([[fx, gx],[fy, gy]]) (kvxopt lists are block COLUMNS)", g.W())
    ok = Q.has("self.inc = self.solver.solve(self.A, self.res)", fn) and Q.has("self.inc = self.solver.linsolve(self.A, self.res)", fn)
    ctx.check(ok, "C01.linear", "PFlow.nr_step/solve", "inc = solve(A, res) on both solver paths",
              "solve/linsolve no longer both solve A*inc = res", g.W())
    ok = e is not None and Q.has("$s.dae.x += np.ravel(self.inc[:$s.dae.n])", fn, e) and \
        Q.has("$s.dae.y += np.ravel(self.inc[$s.dae.n:])", fn, e)
    ctx.check(ok, "C01.linear", "PFlow.nr_step/update", "x += inc[:n]; y += inc[n:]",
              "Newton increment not added to x,y split at dae.n (sign table: A*inc = -F, x += inc)", g.W())
    ok, wit = g.after(g.assigns("system.dae.y", aug=True) + g.assigns("system.dae.x", aug=True), g.calls("system.vars_to_models"))
    ctx.check(ok, "C01.linear", "PFlow.nr_step/propagate", "vars_to_models() after the update",
              "updated x,y not propagated to the models: " + wit, g.W())
    # Jacobian refresh conditions: full NR always rebuilds
    tests = g.tests(lambda c: "dishonest" in c)
    ju = g.calls("system.j_update")
    ok = bool(tests) and bool(ju) and all(g.g.guarded_by(n, tests[0], "true") for n in ju) and \
        Q.match("self.config.method != 'dishonest' or self.niter < self.config.n_factorize", g.g.data(tests[0])["ast"].test) is not None
    ctx.check(ok, "C01.linear", "PFlow.nr_step/jacobian", "Jacobian rebuilt every iteration unless dishonest & niter >= n_factorize",
              "Jacobian rebuild condition changed", g.W())


def run(ctx):
    ctx.rule("C01.element", "declared bus-injection / set-point equations (ConstService chain inlined, regulariser erased) "
             "== independent textbook reference (pi-model with tap, phase shift and asymmetric shunts; shunts; PQ both regimes; "
             "PV; Slack; Jumper) by sympy normal form, symbolic in all parameters", 28)
    ctx.rule("C01.link", "every injection row is linked to the Bus variable/terminal of the textbook", 20)
    ctx.rule("C01.units", "network-element parameters carry the unit flag of their physical kind (z for series impedance, y for "
             "shunt/charging admittance), so calc_pu_coeff converts them (table from the textbook, cross-checked with C11.coeff)", 17)
    ctx.rule("C01.setpoint", "PV/Slack set-points are written into the bus variables", 3)
    ctx.rule("C01.partition", "adder/setter predicates partition the variables (exhaustive over flag valuations)", 2)
    ctx.rule("C01.assembly", "residual assembly: register all, accumulate with np.add.at, setters after adders, clear before, "
             "collect after", 9)
    ctx.rule("C01.verdict", "converged=True only under mis < bare config.tol, mis = max-abs of full f and g freshly evaluated; "
             "verdict exported", 7)
    ctx.rule("C01.linear", "Newton linear system layout and update signs", 6)
    ctx.assume("convergence from a flat start, numeric residual values and independence from device order are runtime facts: declined")
    ctx.assume("sympy normal forms over R; status/flag symbols are 0/1 valued (z**k -> z)")
    ctx.assume("kvxopt sparse([[a,b],[c,d]]) takes block columns (documented)")
    repo = Repo()
    models = elab.load_models()
    rule_elements(ctx, models)
    rule_units(ctx, models)
    rule_assembly(ctx, repo)
    rule_verdict(ctx, repo)
    rule_linear(ctx, repo)
    ctx.extra["exhaustive"] = False
