"""C09.history -- Delay / Average / Derivative / Sampling against their definitions, by abstract interpretation of the source.

The components only COMPARE time stamps (with the stored last time and with 0) and move or linearly combine input samples, so
their behaviour over "every sequence of time stamps" factors through the finite set of order patterns of a call sequence:
each call is an ADVANCE (t > last), a REPEAT (t == last, a further Newton iteration of the same step) or a REWIND (t < last, the
step was rejected and retried with a smaller step).  All patterns up to length L are enumerated; the method source is walked by
engine/ainterp.py on arrays whose time stamps are concrete representatives of the pattern and whose input samples are symbols;
the resulting symbolic output is compared with the definition evaluated on the ACCEPTED history:

    history S: t == 0 -> [(0, u)];  ADVANCE -> append (t, u);  REPEAT -> last value := u;  REWIND -> last sample := (t, u)
    Delay(step, d)   : value of the sample d places before the last one (the first sample while fewer exist)
    Delay(time, T)   : linear interpolation of S at  t_last - T  (the first sample while t_last - t_first <= T)
    Average(step, d) : trapezoidal time average over the last d+1 samples
    Derivative       : (v_last - v_prev) / (t_last - t_prev); 0 at t = 0 and on the call that rewinds

Nothing of Andes is executed: the interpreter reads the AST.  Bound: L calls after the initial one (L = 5 quick, 6 thorough).
"""
import itertools

import numpy as np
import sympy as sp

from engine.ainterp import AInterp
from engine.ordertype import Unsupported
from engine.pysrc import F

DISC = "andes/core/discrete.py"


def times_for(pattern, steps):
    """concrete representative time stamps: ADVANCE by steps[k], REPEAT same, REWIND to the midpoint of (previous accepted, last)"""
    ts, acc = [0.0], [0.0]
    k = 0
    for p in pattern:
        if p == "A":
            t = acc[-1] + steps[k % len(steps)]
            k += 1
            acc.append(t)
        elif p == "R":
            t = acc[-1]
        else:   # rewind
            prev = acc[-2] if len(acc) > 1 else 0.0
            t = prev + 0.5 * (acc[-1] - prev)
            acc[-1] = t
        ts.append(t)
    return ts


def history(ts, us):
    S = []
    for t, u in zip(ts, us):
        if t == 0 or not S:
            S = [(t, u)]
        elif t > S[-1][0]:
            S.append((t, u))
        elif t == S[-1][0]:
            S[-1] = (t, u)
        else:
            S[-1] = (t, u)
        yield list(S)


def ref_delay_step(S, d):
    return S[-1 - d][1] if len(S) > d else S[0][1]


def ref_delay_time(S, T):
    tl = S[-1][0]
    if tl - S[0][0] <= T:
        return S[0][1]
    tq = tl - T
    for (t0, v0), (t1, v1) in zip(S[:-1], S[1:]):
        if t0 <= tq <= t1 and t1 > t0:
            return v0 + (tq - t0) * (v1 - v0) / (t1 - t0)
    return S[0][1]


def ref_average_step(S, d):
    if len(S) == 1:
        return S[0][1]
    W = S[-(d + 1):]
    num = sum(sp.Rational(1, 2) * (a[1] + b[1]) * (b[0] - a[0]) for a, b in zip(W[:-1], W[1:]))
    return num / (W[-1][0] - W[0][0])


def ref_derivative(S, rewound):
    if len(S) == 1 or rewound:
        return sp.Integer(0)
    return (S[-1][1] - S[-2][1]) / (S[-1][0] - S[-2][0])


def ref_sampling(S, interval, offset=0.0):
    ts, held = S[0][0], S[0][1]
    for t, u in S[1:]:
        if t - offset - ts > interval:
            held, ts = u, t
    return held


TIME_ATTRS = ("t", "_last_t", "_prev_t")


def _time_arrays(repo, cls, o):
    """time-stamp storage exactly as the source allocates it (dtype matters: an integer array truncates the stamps written to it):
    the assignments to self.t / self._last_t in __init__ and list2array of the class and its bases are evaluated in MRO order"""
    import ast as _ast
    it = AInterp(repo, cls, DISC, o)
    for meth in ("__init__", "list2array"):
        for ci in reversed(repo.mro(cls, DISC)):
            fn = ci.methods.get(meth)
            if fn is None:
                continue
            for st in _ast.walk(fn):
                if isinstance(st, _ast.Assign) and len(st.targets) == 1 and isinstance(st.targets[0], _ast.Attribute) and \
                        isinstance(st.targets[0].value, _ast.Name) and st.targets[0].value.id == "self" and st.targets[0].attr in TIME_ATTRS:
                    # respect the mode guard of Delay.list2array
                    guard_ok = True
                    for g in _ast.walk(fn):
                        if isinstance(g, _ast.If) and any(x is st for b in (g.body,) for x in _ast.walk(_ast.Module(body=b, type_ignores=[]))):
                            try:
                                guard_ok = bool(it.ev(g.test, {"n": 1}))
                            except Unsupported:
                                guard_ok = True
                        elif isinstance(g, _ast.If) and any(x is st for x in _ast.walk(_ast.Module(body=g.orelse, type_ignores=[]))):
                            try:
                                guard_ok = not bool(it.ev(g.test, {"n": 1}))
                            except Unsupported:
                                guard_ok = True
                    if not guard_ok:
                        continue
                    try:
                        o[st.targets[0].attr] = np.array(it.ev(st.value, {"n": 1}))
                    except Unsupported:
                        pass
    return o


def _obj(cls, mode, delay):
    if cls == "Sampling":
        return dict(interval=delay, offset=0.0, rewind=False, v=np.zeros(1, dtype=object), _last_v=np.zeros(1, dtype=object),
                    _last_t=np.array([0.0]), indices=np.array([0]))
    o = dict(mode=mode, delay=delay, rewind=False, enable=True)
    if mode == "step":
        o["_v_mem"] = np.zeros((1, delay + 1), dtype=object)
        o["t"] = np.zeros(delay + 1)
    else:
        o["_v_mem"] = np.zeros((1, 1), dtype=object)
        o["t"] = np.array([0.0])
    o["v"] = np.zeros(1, dtype=object)
    return o


def _same(a, b):
    """equality of two expressions that are linear in the input symbols, coefficients compared with a float tolerance"""
    try:
        d = sp.expand(sp.sympify(a) - sp.sympify(b))
        return all(abs(float(c)) < 1e-9 for c in d.as_coefficients_dict().values())
    except Exception:
        return False


def run_component(ctx, repo, cls, mode, delays, ref, L, steps_list, label, split=False):
    """split=True reports three constructs: sequences of ADVANCE calls only, sequences with a REPEAT, sequences with a REWIND
    (classified by the calls made up to the first deviating output)"""
    f = F.method(repo, cls, "check_var", DISC)
    n = bad = undec = 0
    first_bad = None
    per = {"advance": [0, 0, None], "repeat": [0, 0, None], "rewind": [0, 0, None]}
    delays = delays if isinstance(delays, (list, tuple)) else [delays]
    for plen in range(1, L + 1):
        for pattern in itertools.product("ARW", repeat=plen):
            if pattern[0] != "A":
                continue            # the first call after t = 0 can only advance
            for steps, delay in itertools.product(steps_list, delays):
                ts = times_for(pattern, steps)
                us = [sp.Symbol("u%d" % k) for k in range(len(ts))]
                o = _time_arrays(repo, cls, _obj(cls, mode, delay))
                it = AInterp(repo, cls, DISC, o)
                try:
                    out = None
                    for k, (t, u, S) in enumerate(zip(ts, us, history(ts, us))):
                        o["u.v"] = np.array([u], dtype=object)
                        it.call("check_var", dae_t=t)
                        out = o["v"][0]
                        rew = k > 0 and pattern[k - 1] == "W"
                        want = ref(S, delay, rew)
                        n += 1
                        pre = pattern[:k]
                        kind = "rewind" if "W" in pre else "repeat" if "R" in pre else "advance"
                        per[kind][0] += 1
                        if not _same(out, want):
                            bad += 1
                            msg = "delay=%s, calls t=%s (pattern 0%s): after call %d the output is %s, the definition gives %s" % (
                                delay, [round(x, 3) for x in ts[:k + 1]], "".join(pattern[:k]), k, sp.simplify(out), sp.simplify(want))
                            per[kind][1] += 1
                            per[kind][2] = per[kind][2] or msg
                            if first_bad is None:
                                first_bad = msg
                            break
                except Unsupported as ex:
                    undec += 1
                    if undec == 1:
                        ctx.undecided("C09.history", label, "interpreter: %s" % ex, f.W())
                    break
                except (IndexError, ValueError, ZeroDivisionError, TypeError) as ex:
                    bad += 1
                    if first_bad is None:
                        first_bad = "calls t=%s: the method would raise %s: %s" % ([round(x, 3) for x in ts], type(ex).__name__, ex)
    ctx.count("history_obligations_" + label.replace("/", "_"), n)
    if undec and not bad:
        return
    if split:
        for kind, (nn, nb, msg) in per.items():
            ctx.check(nb == 0, "C09.history", "%s/%s" % (label, kind), "%d outputs agree with the definition" % nn,
                      "%d of the checked sequences deviate; first: %s" % (nb, msg), f.W())
        return
    ctx.check(bad == 0, "C09.history", label, "%d outputs over all call-order patterns up to length %d agree with the definition" % (n, L),
              "%d of the checked sequences deviate; first: %s" % (bad, first_bad), f.W())


def run(ctx, repo):
    L = 6 if ctx.tier == "thorough" else 5
    uni = [(1.0,)]
    mixed = [(1.0,), (0.4, 1.0, 1.7), (1.7, 0.4, 0.4, 1.0)]
    for d in (1, 2, 3):
        run_component(ctx, repo, "Delay", "step", d, lambda S, dd, rew: ref_delay_step(S, dd), L, uni, "Delay/step/delay=%d" % d)
    for d in (1, 2):
        run_component(ctx, repo, "Average", "step", d, lambda S, dd, rew: ref_average_step(S, dd), L, mixed[:2], "Average/step/delay=%d" % d)
    run_component(ctx, repo, "Derivative", "step", 1, lambda S, dd, rew: ref_derivative(S, rew), L, mixed[:2], "Derivative")
    run_component(ctx, repo, "Sampling", None, (1.5, 0.9), lambda S, dd, rew: ref_sampling(S, dd), min(L, 5), mixed, "Sampling", split=True)
    run_component(ctx, repo, "Delay", "time", (1.0, 0.5, 2.5), lambda S, dd, rew: ref_delay_time(S, dd), min(L, 5), mixed, "Delay/time", split=True)
