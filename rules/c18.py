"""C18 -- control blocks realise their documented transfer functions from steady state.

Each block class is elaborated inside a synthetic host model through the real export path; the exported
equations are Laplace-transformed and solved as a linear system over Q(s, params); Y/U is compared (zero test on
the cancelled difference) with an independent table transcribed from the class docstrings; initial values must
balance every equation for a constant input; limited variants reduce to the unlimited block inside the limits;
every constructor parameter must reach an equation or a sub-component."""
import ast
import inspect

import sympy as sp

from engine import blockelab, dsl
from engine.pysrc import Repo, dotted, src
from engine.cfg import walk_noscope
from engine.report import AnalysisError, where

BLOCK = "andes/core/block.py"
s = sp.Symbol("s")


def P(*names):
    return [sp.Symbol(n, real=True) for n in names]


K, T, D, T1, T2, T3, T4, kp, ki, kd, Td, R = P("K", "T", "D", "T1", "T2", "T3", "T4", "kp", "ki", "kd", "Td", "R")

LIM = dict(lower=("param",), upper=("param",))
# block -> (ctor argument spec, documented transfer function, output variable suffix)
SPECS = {
    "Gain": (dict(u=("var",), K=("param",)), K, "y"),
    "Integrator": (dict(u=("var",), T=("param",), K=("param",), y0=("const", 0.0)), K / (s * T), "y"),
    "IntegratorAntiWindup": (dict(u=("var",), T=("param",), K=("param",), y0=("const", 0.0), **LIM), K / (s * T), "y"),
    "Lag": (dict(u=("var",), T=("param",), K=("param",), D=("param",)), K / (D + s * T), "y"),
    "LagAntiWindup": (dict(u=("var",), T=("param",), K=("param",), D=("param",), **LIM), K / (D + s * T), "y"),
    # the lag variants accept `D` like Lag (their class diagrams show K/(D + sT), or they inherit Lag's parameter list): the spec passes it
    "LagFreeze": (dict(u=("var",), T=("param",), K=("param",), freeze=("var",), D=("param",)), K / (D + s * T), "y"),
    "LagAWFreeze": (dict(u=("var",), T=("param",), K=("param",), freeze=("var",), D=("param",), **LIM), K / (D + s * T), "y"),
    "LagRate": (dict(u=("var",), T=("param",), K=("param",), rate_lower=("param",), rate_upper=("param",), D=("param",)), K / (D + s * T), "y"),
    "LagAntiWindupRate": (dict(u=("var",), T=("param",), K=("param",), rate_lower=("param",), rate_upper=("param",), D=("param",), **LIM),
                          K / (D + s * T), "y"),
    "Washout": (dict(u=("var",), T=("param",), K=("param",)), s * K / (1 + s * T), "y"),
    "WashoutOrLag": (dict(u=("var",), T=("param",), K=("param",)), s * K / (1 + s * T), "y"),
    "LeadLag": (dict(u=("var",), T1=("param",), T2=("param",), K=("param",)), K * (1 + s * T1) / (1 + s * T2), "y"),
    "LeadLagLimit": (dict(u=("var",), T1=("param",), T2=("param",), **LIM), (1 + s * T1) / (1 + s * T2), "y"),
    "Lag2ndOrd": (dict(u=("var",), K=("param",), T1=("param",), T2=("param",)), K / (1 + s * T1 + s ** 2 * T2), "y"),
    "LeadLag2ndOrd": (dict(u=("var",), T1=("param",), T2=("param",), T3=("param",), T4=("param",), zero_out=("const", True)),
                      (1 + s * T3 + s ** 2 * T4) / (1 + s * T1 + s ** 2 * T2), "y"),
    "PIController": (dict(u=("var",), kp=("param",), ki=("param",)), kp + ki / s, "y"),
    "PIFreeze": (dict(u=("var",), kp=("param",), ki=("param",), freeze=("var",)), kp + ki / s, "y"),
    "PIAWHardLimit": (dict(u=("var",), kp=("param",), ki=("param",), aw_lower=("param",), aw_upper=("param",), **LIM), kp + ki / s, "y"),
    "PITrackAW": (dict(u=("var",), kp=("param",), ki=("param",), ks=("param",), **LIM), kp + ki / s, "y"),
    "PITrackAWFreeze": (dict(u=("var",), kp=("param",), ki=("param",), ks=("param",), freeze=("var",), **LIM), kp + ki / s, "y"),
    "PIDController": (dict(u=("var",), kp=("param",), ki=("param",), kd=("param",), Td=("param",)), kp + ki / s + s * kd / (1 + s * Td), "y"),
    "PIDAWHardLimit": (dict(u=("var",), kp=("param",), ki=("param",), kd=("param",), Td=("param",), aw_lower=("param",),
                            aw_upper=("param",), **LIM), kp + ki / s + s * kd / (1 + s * Td), "y"),
    "PIDTrackAW": (dict(u=("var",), kp=("param",), ki=("param",), kd=("param",), Td=("param",), ks=("param",), **LIM),
                   kp + ki / s + s * kd / (1 + s * Td), "y"),
    "GainLimiter": (dict(u=("var",), K=("param",), R=("param",), **LIM), K * R, "y"),
}
# documented zero-time-constant bypass cases: (block, {param: 0}, {flag suffix: value}, reduced transfer function)
BYPASS = [
    ("LeadLag", {"T1": 0, "T2": 0}, {"LT1_z1": 1, "LT1_z0": 0, "LT2_z1": 1, "LT2_z0": 0}, K),
    ("WashoutOrLag", {"K": 0}, {"LT_z1": 1, "LT_z0": 0}, 1 / (1 + s * T)),
    ("LeadLag2ndOrd", {"T1": 0, "T2": 0, "T3": 0, "T4": 0},
     {"LT1_z1": 1, "LT2_z1": 1, "LT3_z1": 1, "LT4_z1": 1, "LT1_z0": 0, "LT2_z0": 0, "LT3_z0": 0, "LT4_z0": 0}, sp.Integer(1)),
]
# limited variant -> unlimited sibling (must coincide inside the limits)
SIBLINGS = {"IntegratorAntiWindup": "Integrator", "LagAntiWindup": "Lag", "LagFreeze": "Lag", "LagAWFreeze": "Lag",
            "LagRate": "Lag", "LagAntiWindupRate": "Lag", "LeadLagLimit": "LeadLag", "PIAWHardLimit": "PIController",
            "PITrackAW": "PIController", "PIFreeze": "PIController", "PITrackAWFreeze": "PIController",
            "PIDAWHardLimit": "PIDController", "PIDTrackAW": "PIDController"}

INPUT = "xin"


class BlockIR:
    def __init__(self, cls_name, argspec):
        args = {}
        self.inputs = []
        for a, sp_ in argspec.items():
            args[a] = sp_
        # the model base class already owns a parameter called `u`: rename the input variable
        self.host = _host(cls_name, args)
        self.m = self.host
        self.st = dsl.SymTab(self.host)
        self.vars = [n for n in self.host.cache.all_vars if n.startswith("B_")]
        self.flag_syms = {}
        for dn, d in self.host.discrete.items():
            for fn_ in d.get_names():
                self.flag_syms[fn_] = (type(d).__name__, self.st.get(fn_))

    def inside_flags(self, override=None):
        """valuation 'inside all limits, no freeze, generic (non-zero) parameters'."""
        val = {}
        for name, (cls, sym) in self.flag_syms.items():
            suffix = name.split("_")[-1]
            if cls == "LessThan":
                val[sym] = {"z0": 1, "z1": 0}.get(suffix, sym)
            else:
                val[sym] = {"zi": 1, "zl": 0, "zu": 0, "zur": 0, "zlr": 0}.get(suffix, 0)
        if "freeze" in self.st:
            val[self.st.get("freeze")] = 0
        for k, v in (override or {}).items():
            val[self.st.get("B_" + k)] = v
        return val

    def equations(self):
        """[(var, time-constant or None, rhs expression)]"""
        out = []
        for n in self.vars:
            v = self.host.cache.all_vars[n]
            e = dsl.parse_dsl(v.e_str, self.st) if v.e_str is not None else sp.S.Zero
            tc = None
            if type(v).__name__ == "State":
                tc = self.st.get(v.t_const.name) if v.t_const is not None else sp.S.One
            out.append((n, tc, e))
        return out


def _host(cls_name, args):
    import andes.core.block as B     # noqa (imported by blockelab)
    a2 = {}
    for a, spec in args.items():
        a2[a] = spec
    # build with the input variable named INPUT
    from andes.core import ModelData, Model, NumParam, Algeb
    cls = getattr(B, cls_name, None)
    if cls is None:
        raise AnalysisError("block class vanished: %s" % cls_name)

    class Host(ModelData, Model):
        def __init__(self):
            ModelData.__init__(self)
            Model.__init__(self, system=None, config=None)
            kw = {}
            for a, spec in a2.items():
                if spec[0] == "param":
                    setattr(self, a, NumParam(default=1.0, tex_name=a, info=a))
                    kw[a] = getattr(self, a)
                elif spec[0] == "var":
                    nm = INPUT if a == "u" else a
                    setattr(self, nm, Algeb(tex_name=nm, info=nm, v_str="0", e_str="0"))
                    kw[a] = getattr(self, nm)
                else:
                    kw[a] = spec[1]
            if "name" in inspect.signature(cls.__init__).parameters:
                kw["name"] = "B"
            try:
                self.B = cls(**kw)
            except TypeError as e:
                raise AnalysisError("block %s constructor signature changed: %s" % (cls_name, e))
    Host.__name__ = "Host" + cls_name
    return Host()


def transfer_function(ir, flagval, params0=None):
    """Y(s)/U(s) of the exported equations, symbolic in all parameters."""
    u = ir.st.get(INPUT)
    syms = [ir.st.get(n) for n in ir.vars]
    eqs = []
    for n, tc, e in ir.equations():
        e = e.xreplace(flagval)
        if params0:
            e = e.xreplace({ir.st.get(k): sp.Integer(v) for k, v in params0.items()})
        x = ir.st.get(n)
        if tc is not None:
            tcv = tc.xreplace({ir.st.get(k): sp.Integer(v) for k, v in (params0 or {}).items()}) if isinstance(tc, sp.Basic) else tc
            eqs.append(sp.expand(tcv * s * x - e))
        else:
            eqs.append(sp.expand(e))
    # drop constants unrelated to the input (x0, ref are literal 0.0 here)
    A, b = sp.linear_eq_to_matrix(eqs, syms)
    sol = sp.linsolve((A, b), syms)
    if not sol:
        return None
    sol = list(sol)[0]
    y = dict(zip(ir.vars, sol))
    return y, u


def tf_equal(a, b):
    d = sp.cancel(sp.together(dsl.norm_floats(a) - b))
    if d == 0:
        return True, d
    nz = dsl.numeric_nonzero(d)
    return (False if nz else None), d


def rule_tf(ctx, irs):
    for name, (argspec, ref, out) in SPECS.items():
        ir = irs[name]
        c = "%s" % name
        w = where(BLOCK, irs_line(name))
        try:
            res = transfer_function(ir, ir.inside_flags())
        except Exception as e:
            ctx.undecided("C18.tf", c, "linear elimination failed: %r" % e, w)
            continue
        if res is None:
            ctx.undecided("C18.tf", c, "no unique solution", w)
            continue
        y, u = res
        got = sp.cancel(sp.together(y["B_" + out] / u))
        # map host symbols to the reference symbols by name
        got = got.xreplace({x: sp.Symbol(x.name, real=True) for x in got.free_symbols if x.name != "s"})
        ok, d = tf_equal(got, ref)
        if ok is None:
            ctx.undecided("C18.tf", c, "cannot decide %s vs %s" % (got, ref), w)
        else:
            ctx.check(ok, "C18.tf", c, "Y/U = %s (as documented)" % sp.factor(got),
                      "derived transfer function %s differs from the documented %s" % (sp.factor(got), ref), w)
    for name, p0, flags, ref in BYPASS:
        ir = irs[name]
        c = "%s[%s]" % (name, ",".join("%s=0" % k for k in p0))
        w = where(BLOCK, irs_line(name))
        try:
            res = transfer_function(ir, ir.inside_flags(flags), p0)
        except Exception as e:
            ctx.undecided("C18.bypass", c, "linear elimination failed: %r" % e, w)
            continue
        if res is None:
            ctx.undecided("C18.bypass", c, "no unique solution", w)
            continue
        y, u = res
        got = sp.cancel(sp.together(y["B_y"] / u))
        got = got.xreplace({x: sp.Symbol(x.name, real=True) for x in got.free_symbols if x.name != "s"})
        ok, d = tf_equal(got, ref)
        if ok is None:
            ctx.undecided("C18.bypass", c, "cannot decide", w)
        else:
            ctx.check(ok, "C18.bypass", c, "reduces to %s" % ref, "bypass case gives %s, documented %s" % (got, ref), w)
        # the flag valuation assumed above is the one the LessThan wiring produces for these parameter values
        blk = ir.host.B
        bad = []
        for fl, val in flags.items():
            dn = fl.rsplit("_", 1)[0]
            d = getattr(blk, dn, None)
            if d is None:
                bad.append("discrete %s vanished" % dn)
                continue
            watched = d.u.name
            if type(d).__name__ != "LessThan" or not d.equal or getattr(d.bound, "v", None) not in (0, 0.0):
                bad.append("%s is not LessThan(., 0, equal=True)" % dn)
        ctx.check(not bad, "C18.bypass", c + "/wiring", "flags come from LessThan(param <= 0) components",
                  "; ".join(bad), w)


_lines = {}


def irs_line(name):
    return _lines.get(name, 1)


def rule_balance(ctx, irs):
    """constant input: every equation balances when every variable is at its declared initial value."""
    for name in SPECS:
        ir = irs[name]
        w = where(BLOCK, irs_line(name))
        flagval = ir.inside_flags()
        init = {}
        for n in ir.vars:
            v = ir.host.cache.all_vars[n]
            init[ir.st.get(n)] = dsl.parse_dsl(v.v_str, ir.st).xreplace(flagval) if v.v_str is not None else sp.S.Zero
        # resolve references between initial values
        for _ in range(6):
            init = {k: (e.xreplace(init) if isinstance(e, sp.Basic) else e) for k, e in init.items()}
        res = {}
        for n, tc, e in ir.equations():
            res[n] = sp.simplify(e.xreplace(flagval).xreplace(init))
        u = ir.st.get(INPUT)
        # integrating states (no self feedback): equilibrium requires their input at its zero
        ucond = None
        for n, tc, e in ir.equations():
            if tc is not None and res[n] != 0:
                ee = e.xreplace(flagval)
                # pure integrator: no direct feedback of the state into its own derivative (pole at s = 0)
                if sp.diff(ee, ir.st.get(n)) == 0 and u in res[n].free_symbols:
                    solu = sp.solve(res[n], u)
                    if len(solu) == 1:
                        ucond = solu[0]
        for n, r in res.items():
            c = "%s.%s" % (name, n[2:])
            rr = sp.simplify(r.subs(u, ucond)) if ucond is not None else r
            if rr == 0:
                ctx.ok("C18.balance", c, "e_str[v := v_str] == 0" + (" (integrator input at its zero)" if ucond is not None else ""), w)
            else:
                nz = dsl.numeric_nonzero(rr)
                if nz:
                    ctx.violation("C18.balance", c, "declared initial values do not balance the equation for a constant input: "
                                  "residual %s" % sp.factor(rr), w)
                else:
                    ctx.undecided("C18.balance", c, "residual %s" % rr, w)


def rule_siblings(ctx, irs):
    for lim, base in SIBLINGS.items():
        w = where(BLOCK, irs_line(lim))
        try:
            a = transfer_function(irs[lim], irs[lim].inside_flags())
            b = transfer_function(irs[base], irs[base].inside_flags())
        except Exception as e:
            ctx.undecided("C18.sibling", "%s~%s" % (lim, base), repr(e), w)
            continue
        if a is None or b is None:
            ctx.undecided("C18.sibling", "%s~%s" % (lim, base), "no solution", w)
            continue
        ga = sp.cancel(a[0]["B_y"] / a[1])
        gb = sp.cancel(b[0]["B_y"] / b[1])
        ren = lambda e: e.xreplace({x: sp.Symbol(x.name, real=True) for x in e.free_symbols if x.name != "s"})   # noqa: E731
        ga, gb = ren(ga), ren(gb)
        # parameters the limited variant does not have take their default (D=1, K=1)
        for p in gb.free_symbols - ga.free_symbols - {s}:
            gb = gb.subs(p, 1)
        ok, d = tf_equal(ga, gb)
        if ok is None:
            ctx.undecided("C18.sibling", "%s~%s" % (lim, base), "cannot decide", w)
        else:
            ctx.check(ok, "C18.sibling", "%s~%s" % (lim, base), "inside the limits == %s" % base,
                      "inside the limits %s gives %s but %s gives %s" % (lim, ga, base, gb), w)


def rule_param_use(ctx, repo):
    """every constructor parameter stored by a block reaches an equation string, a sub-block or a discrete component."""
    import andes.core.block as B
    n = 0
    for ci in repo.classes.values():
        for c in ci:
            if c.path != BLOCK or "__init__" not in c.methods or c.name in ("Block", "Piecewise", "PIControllerNumeric"):
                continue
            init = c.methods["__init__"]
            # a parameter the constructor accepts is read by it (stored, or handed to the base constructor): a parameter that is
            # accepted and silently dropped (`LagFreeze(..., D=2)` used to pass `D=1` on) changes nothing where the caller expects it to
            sig = [a_.arg for a_ in init.args.args[1:] + init.args.kwonlyargs]
            read = {x.id for x in ast.walk(init) if isinstance(x, ast.Name) and isinstance(x.ctx, ast.Load)}
            for p_ in sig:
                if p_ not in read:
                    ctx.violation("C18.param-use", "%s.__init__/%s/ignored" % (c.name, p_),
                                  "constructor parameter `%s` of %s is accepted and never read: the caller's value is silently dropped" % (p_, c.name),
                                  repo.W(c, init))
            stored = {}
            for st_ in walk_noscope(init):
                if isinstance(st_, ast.Assign) and len(st_.targets) == 1:
                    t = dotted(st_.targets[0]) or ""
                    if t.startswith("self.") and isinstance(st_.value, ast.Call) and dotted(st_.value.func) == "dummify" \
                            and st_.value.args and isinstance(st_.value.args[0], ast.Name):
                        stored[t[5:]] = st_
            if not stored:
                continue
            # uses: self.<p> anywhere in the class (own methods and MRO) other than the storing assignment
            uses = {p: 0 for p in stored}
            for k in repo.mro(c.name, c.path):
                for fn in k.methods.values():
                    for node in ast.walk(fn):
                        if isinstance(node, ast.Attribute) and isinstance(node.value, ast.Name) and node.value.id == "self" \
                                and node.attr in uses and not isinstance(node.ctx, ast.Store):
                            uses[node.attr] += 1
            for p, cnt in uses.items():
                n += 1
                ctx.check(cnt > 0, "C18.param-use", "%s.%s" % (c.name, p), "parameter reaches an equation / sub-component",
                          "constructor parameter `%s` is stored but never used by any equation, sub-block or discrete component "
                          "of %s" % (p, c.name), repo.W(c, stored[p]))
    ctx.count("ctor_params", n)


def rule_gates(ctx, irs_unused):
    """HVGate / LVGate / DeadBand1 against their definitions using the LessThan / DeadBand flag semantics."""
    a, b = sp.symbols("u1 u2", real=True)
    for name, want in (("HVGate", "max"), ("LVGate", "min")):
        h = _host2(name)
        st = dsl.SymTab(h)
        v = h.cache.all_vars["B_y"]
        e = dsl.parse_dsl(v.e_str, st)
        z0, z1 = st.get("B_lt_z0"), st.get("B_lt_z1")
        lt = h.B.lt
        strict = not lt.equal
        # orderings of (u1, u2): <, =, >   with z1 = [u1 < u2] (or <=), z0 = not z1
        bad = []
        for rel, u1v, u2v in (("<", 1, 2), ("=", 2, 2), (">", 3, 2)):
            z1v = (u1v < u2v) if strict else (u1v <= u2v)
            val = sp.solve(e.xreplace({z1: int(z1v), z0: int(not z1v), st.get("u1"): u1v, st.get("u2"): u2v}), st.get("B_y"))
            expect = max(u1v, u2v) if want == "max" else min(u1v, u2v)
            if not val or val[0] != expect:
                bad.append("u1 %s u2: y = %s, %s is %s" % (rel, val, want, expect))
        ok_wire = lt.u.name == "u1" and lt.bound.name == "u2"
        ctx.check(not bad and ok_wire, "C18.gate", name, "y = %s(u1, u2) for all three orderings" % want,
                  "; ".join(bad) or "LessThan not wired as (u1 < u2)", where(BLOCK, irs_line(name)))


def _host2(cls_name):
    from andes.core import ModelData, Model, Algeb
    import andes.core.block as B

    class Host(ModelData, Model):
        def __init__(self):
            ModelData.__init__(self)
            Model.__init__(self, system=None, config=None)
            self.u1 = Algeb(tex_name="u1", info="u1", v_str="0", e_str="0")
            self.u2 = Algeb(tex_name="u2", info="u2", v_str="0", e_str="0")
            self.B = getattr(B, cls_name)(u1=self.u1, u2=self.u2, name="B")
    return Host()


def rule_tconst_numeric(ctx, irs):
    """A block may be given its time constant as a plain number (or a config value): the number must reach the exported State's
    t_const (from where System._store_tf fills dae.Tf) exactly like a parameter does.  Every block is elaborated a second time
    with its time-constant arguments replaced by distinct numbers; each State whose t_const is parameter P in the symbolic
    elaboration must then carry the number given for P."""
    n = 0
    for name, (argspec, ref, out) in SPECS.items():
        sym = irs[name]
        tparams = [a for a, sp_ in argspec.items() if sp_[0] == "param" and a.startswith("T")]
        states = {vn: v for vn, v in sym.host.cache.all_vars.items() if vn.startswith("B_") and type(v).__name__ == "State"}
        if not tparams or not any(getattr(v.t_const, "name", None) in tparams for v in states.values()):
            continue
        values = {a: 0.25 * (k + 1) for k, a in enumerate(tparams)}
        spec2 = {a: (("const", values[a]) if a in values else sp_) for a, sp_ in argspec.items()}
        try:
            num = _host(name, spec2)
            nvars = num.cache.all_vars
        except Exception as ex:     # e.g. zero_out flags on plain numbers are not supported by the block
            ctx.undecided("C18.tconst", name, "cannot be elaborated with numeric time constants: %s" % str(ex)[:80], where(BLOCK, _lines.get(name, 1)))
            continue
        bad = []
        for vn, v in states.items():
            pn = getattr(v.t_const, "name", None)
            if pn not in values:
                continue
            n += 1
            v2 = nvars.get(vn)
            tv = getattr(getattr(v2, "t_const", None), "v", None)
            if v2 is None or tv is None or float(tv) != values[pn]:
                bad.append("state %s: time constant %s given as %g arrives as %s" % (vn, pn, values[pn], "None" if tv is None else tv))
        ctx.check(not bad, "C18.tconst", name, "numeric time constants reach the exported states",
                  "; ".join(bad) + " -- dae.Tf keeps the default 1 for such a state and the block realises another transfer function",
                  where(BLOCK, _lines.get(name, 1)))
    ctx.count("numeric_tconst_states", n)


def run(ctx):
    ctx.rule("C18.tconst", "blocks elaborated with numeric time constants: the number reaches State.t_const", 8)
    ctx.rule("C18.tf", "Laplace-domain elimination of the exported equations (limiters inside, freeze off, generic parameters) "
             "== documented transfer function, as rational functions in Q(s, params)", 22)
    ctx.rule("C18.bypass", "documented zero-time-constant bypass cases reduce to the documented function; flags come from "
             "LessThan(param <= 0)", 6)
    ctx.rule("C18.balance", "constant input: e_str[v := v_str] == 0 for every exported variable (integrators with the input at its zero)", 40)
    ctx.rule("C18.sibling", "limited/freezable variants == their unlimited sibling inside the limits", 12)
    ctx.rule("C18.param-use", "every stored constructor parameter is used", 60)
    ctx.rule("C18.gate", "HVGate/LVGate == max/min over all orderings of the inputs", 2)
    ctx.assume("reference transfer functions transcribed from the class docstrings (table in rules/c18.py)")
    ctx.assume("sympy linear solve / cancel over Q(s, params); limiter semantics from C09")
    repo = Repo()
    blockelab._import_andes()
    # line numbers of block classes for reports
    for ci in repo.classes.values():
        for c in ci:
            if c.path == BLOCK:
                _lines[c.name] = c.node.lineno
    irs = {}
    import logging
    logging.disable(logging.CRITICAL)
    for name, (argspec, ref, out) in SPECS.items():
        if name not in _lines:
            raise AnalysisError("block class vanished: %s" % name)
        irs[name] = BlockIR(name, argspec)
    rule_tf(ctx, irs)
    rule_balance(ctx, irs)
    rule_siblings(ctx, irs)
    rule_param_use(ctx, repo)
    rule_gates(ctx, irs)
    rule_tconst_numeric(ctx, irs)
    ctx.extra["exhaustive"] = False
