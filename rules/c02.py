"""C02 -- generated numerical code computes exactly the declared model equations.

Translation validation (DESIGN 3/C02): every generated function of every model is
parsed as text and compared with an independent parse of the declared strings."""
import ast

import sympy as sp

from engine import dsl, elab, tv
from engine.pysrc import Repo, F, dotted, norm, calls_in, src, attrs_in
from engine.cfg import walk_noscope
from engine import astq as Q
from engine.report import AnalysisError, where

SYMPROC = "andes/core/symprocessor.py"
MODEL = "andes/core/model/model.py"
SYSTEM = "andes/system.py"


def cmp_into(ctx, rule, construct, a, b, whr, flags=None, stats=None):
    try:
        v, stage = dsl.equal(a, b, flags=flags)
    except Exception as e:   # kernel failure is never a verdict
        ctx.undecided(rule, construct, "kernel error %r" % e, whr)
        return "undecided"
    if stats is not None:
        stats[stage] = stats.get(stage, 0) + 1
    if v == "equal":
        ctx.ok(rule, construct, stage, whr, nontrivial=(stage != "structural"))
    elif v == "differ":
        ctx.violation(rule, construct, "declared: %s  ||  generated: %s  (%s)" % (
            str(a)[:300], str(b)[:300], stage), whr)
    else:
        ctx.undecided(rule, construct, "declared: %s || generated: %s (%s)" % (str(a)[:120], str(b)[:120], stage), whr)
    return v


def check_signature(ctx, mt, fname, args_table, whr):
    """generated signature == stored *_args (the runtime binds positionally), and every
    parameter is an input the model provides."""
    g = mt.gen.funcs[fname]
    c = "%s.%s" % (mt.name, fname)
    if args_table is None:
        ctx.violation("C02.binding", c, "no stored argument list for generated function", whr)
        return
    if list(g.params) != list(args_table):
        ctx.violation("C02.binding", c, "signature %s != stored args %s" % (g.params[:12], list(args_table)[:12]), whr)
        return
    prov = mt.providable()
    missing = [p for p in g.params if p not in prov]
    if missing:
        ctx.violation("C02.binding", c, "parameters %s are not inputs the model provides at run time" % missing, whr)
        return
    ctx.ok("C02.binding", c, "%d params" % len(g.params), whr, nontrivial=len(g.params) > 0)


def run_models(ctx, models, gens):
    stats = {}
    nfun = 0
    for name, m in models.items():
        try:
            mt = tv.ModelTV(name, m, gens[name])
        except dsl.DSLError as e:
            ctx.undecided("C02.body", name, "front-end: %s" % e)
            continue
        gen = gens[name]
        T = gen.tables
        fl = tv.flags_of(m, mt.st)
        sx, sy, allv = mt.var_order()

        # ---- f / g bodies
        for fname, order, args in (("f_update", sx, "f_args"), ("g_update", sy, "g_args")):
            whr0 = elab.locate(m, order[0]) if order else name
            if fname not in gen.funcs:
                # generator says: all equations are zero
                for vn in order:
                    try:
                        e = mt.eq(vn)
                    except dsl.DSLError as ex:
                        ctx.undecided("C02.body", "%s.%s[%s]" % (name, fname, vn), str(ex))
                        continue
                    if e != 0:
                        ctx.violation("C02.body", "%s.%s[%s]" % (name, fname, vn),
                                      "no %s generated but %s.e_str = %s is not zero" % (fname, vn, e),
                                      elab.locate(m, vn))
                    else:
                        ctx.ok("C02.body", "%s.%s[%s]" % (name, fname, vn), "zero/absent", nontrivial=False)
                continue
            nfun += 1
            g = gen.funcs[fname]
            check_signature(ctx, mt, fname, T.get(args), whr0)
            els = g.elements()
            if len(els) != len(order):
                ctx.violation("C02.body", "%s.%s" % (name, fname),
                              "returns %d values for %d variables (positional binding to %s)" % (
                                  len(els), len(order), order), whr0)
                continue
            for vn, el in zip(order, els):
                c = "%s.%s[%s]" % (name, fname, vn)
                w = elab.locate(m, vn)
                try:
                    a = mt.eq(vn)
                    b = mt.gen_expr(el, g.params)
                except dsl.DSLError as ex:
                    if "free name" in str(ex):
                        ctx.violation("C02.binding", c, str(ex), w)
                    else:
                        ctx.undecided("C02.body", c, str(ex), w)
                    continue
                cmp_into(ctx, "C02.body", c, a, b, w, fl, stats)

        # ---- sequential services
        nonseq = []
        for sn, inst in m.services.items():
            if inst.sequential is True:
                fname = sn + "_svc"
                if inst.v_str is None:
                    continue
                c = "%s.%s" % (name, fname)
                w = elab.locate(m, sn)
                if fname not in gen.funcs:
                    ctx.violation("C02.body", c, "service with v_str has no generated function", w)
                    continue
                nfun += 1
                g = gen.funcs[fname]
                check_signature(ctx, mt, fname, T.get("s_args", {}).get(sn), w)
                try:
                    a = mt.decl(inst.v_str)
                    b = mt.gen_expr(g.ret, g.params)
                except dsl.DSLError as ex:
                    (ctx.violation if "free name" in str(ex) else ctx.undecided)("C02.body", c, str(ex), w)
                    continue
                cmp_into(ctx, "C02.body", c, a, b, w, fl, stats)
            else:
                nonseq.append(sn)

        # ---- non-sequential services: tuple order == consumer's enumeration order
        if nonseq:
            c = "%s.sns_update" % name
            w = elab.locate(m, nonseq[0])
            consumer = list(m.services_var_nonseq.keys())
            if consumer != nonseq:
                ctx.violation("C02.binding", c, "generator order %s != consumer order %s" % (nonseq, consumer), w)
            elif "sns_update" not in gen.funcs:
                ctx.violation("C02.body", c, "non-sequential services declared but no sns_update generated", w)
            else:
                nfun += 1
                g = gen.funcs["sns_update"]
                check_signature(ctx, mt, "sns_update", T.get("sns_args"), w)
                els = g.elements()
                if len(els) != len(nonseq):
                    ctx.violation("C02.body", c, "returns %d values for %d services" % (len(els), len(nonseq)), w)
                else:
                    for sn, el in zip(nonseq, els):
                        v_str = m.services[sn].v_str
                        try:
                            a = mt.decl(v_str if v_str is not None else "0")
                            b = mt.gen_expr(el, g.params)
                        except dsl.DSLError as ex:
                            ctx.undecided("C02.body", "%s[%s]" % (c, sn), str(ex), w)
                            continue
                        cmp_into(ctx, "C02.body", "%s[%s]" % (c, sn), a, b, elab.locate(m, sn), fl, stats)

        # ---- explicit initialisers
        for vn, var in m.cache.all_vars.items():
            if var.v_str is None:
                continue
            fname = vn + "_ia"
            c = "%s.%s" % (name, fname)
            w = elab.locate(m, vn)
            if fname not in gen.funcs:
                ctx.violation("C02.body", c, "variable with v_str has no generated initialiser", w)
                continue
            nfun += 1
            g = gen.funcs[fname]
            check_signature(ctx, mt, fname, T.get("ia_args", {}).get(vn), w)
            try:
                a = mt.decl(var.v_str)
                b = mt.gen_expr(g.ret, g.params)
            except dsl.DSLError as ex:
                (ctx.violation if "free name" in str(ex) else ctx.undecided)("C02.body", c, str(ex), w)
                continue
            cmp_into(ctx, "C02.body", c, a, b, w, fl, stats)

        # ---- iterative initialisers: groups from the stored init_seq + single v_iter variables
        groups = []
        for item in T.get("init_seq", []):
            if isinstance(item, list):
                groups.append(item)
            elif item in m.cache.all_vars and m.cache.all_vars[item].v_iter is not None:
                groups.append([item])
        for grp in groups:
            gname = "_".join(grp)
            w = elab.locate(m, grp[0])
            for suffix, tab in (("_ii", "ii_args"), ("_ij", "ij_args")):
                fname = gname + suffix
                c = "%s.%s" % (name, fname)
                if fname not in gen.funcs:
                    ctx.violation("C02.body", c, "iterative group has no generated function", w)
                    continue
                nfun += 1
                g = gen.funcs[fname]
                check_signature(ctx, mt, fname, T.get(tab, {}).get(gname), w)
                rows = g.matrix()
                if rows is None:
                    ctx.undecided("C02.body", c, "unrecognised return shape", w)
                    continue
                try:
                    decl = []
                    for vn in grp:
                        vi = m.cache.all_vars[vn].v_iter
                        if vi is None:
                            raise dsl.DSLError("group member %s has no v_iter" % vn)
                        decl.append(mt.decl(vi))
                    if suffix == "_ii":
                        want = [[e] for e in decl]
                    else:
                        want = [[sp.diff(e, mt.st.get(v2)) for v2 in grp] for e in decl]
                    if len(rows) != len(want) or any(len(r) != len(x) for r, x in zip(rows, want)):
                        ctx.violation("C02.body", c, "shape %dx? differs from declared group %s" % (len(rows), grp), w)
                        continue
                    for i, (r, x) in enumerate(zip(rows, want)):
                        for j, (el, xe) in enumerate(zip(r, x)):
                            b = mt.gen_expr(el, g.params)
                            cmp_into(ctx, "C02.body", "%s[%d,%d]" % (c, i, j), xe, b, w, fl, stats)
                except dsl.DSLError as ex:
                    (ctx.violation if ("free name" in str(ex) or "no v_iter" in str(ex)) else ctx.undecided)(
                        "C02.body", c, str(ex), w)

        # ---- unexpected functions (writer emits something no declaration asks for)
        expected_suffix = ("_update", "_svc", "_ia", "_ii", "_ij")
        for fn in gen.funcs:
            if not fn.endswith(expected_suffix):
                ctx.violation("C02.names", "%s.%s" % (name, fn), "generated function with unknown role")

    ctx.extra["programs"] = nfun
    ctx.extra["disagreements_checked"] = sum(v for k, v in stats.items() if k != "structural")
    ctx.extra["stages"] = stats
    ctx.count("models", len(models))


# ---------------------------------------------------------------------------
# AST rules on the consumers / writer / hash
# ---------------------------------------------------------------------------

def rule_consumers(ctx, repo):
    """Model.f_update/g_update bind ret[i] to the i-th variable of the same ordered collection
    the generator enumerated; _input is keyed by instance.name."""
    want = {"f_update": ("f", "f_args", "states_and_ext"),
            "g_update": ("g", "g_args", "algebs_and_ext")}
    for meth, (callee, args, coll) in want.items():
        ci, fn = repo.method("Model", meth, MODEL)
        c = "Model.%s" % meth
        ok = False
        detail = "no loop binding ret[i] of self.calls.%s(*self.%s) to the i-th variable of cache.%s" % (callee, args, coll)
        e0 = Q.first("$ret = self.calls.%s(*self.%s)" % (callee, args), fn)[1]
        if e0 is not None:
            for lp, e in Q.loops(fn, "enumerate(self.cache.%s.values())" % coll, "($i, $v)", e0):
                if Q.has("$v.e += $ret[$i]", lp, e) and Q.has("$v.e[:] = $ret[$i]", lp, e):
                    ok = True
                    detail = "ret[i] -> var.e over cache.%s" % coll
            if not ok:
                others = [src(l.iter) for l, _ in Q.loops(fn, "enumerate($x)", None)]
                if others:
                    detail += "; loop enumerates %s" % others
        ctx.check(ok, "C02.consumer", c, detail, detail, repo.W(ci, fn))

    # generator enumerates the same collections
    ci, fn = repo.method("SymProcessor", "generate_equations", SYMPROC)
    ctx.check(_gen_eq_order(fn),
              "C02.consumer", "SymProcessor.generate_equations",
              "f<-states_and_ext, g<-algebs_and_ext", "generator no longer pairs f with states_and_ext and g with algebs_and_ext",
              repo.W(ci, fn))

    # s_update_var: non-sequential tuple bound by index over services_var_nonseq
    ci, fn = repo.method("Model", "s_update_var", MODEL)
    ok = False
    e0 = Q.first("$ret = self.calls.sns(*self.sns_args)", fn)[1]
    if e0 is not None:
        for lp, e in Q.loops(fn, "enumerate(self.services_var_nonseq.values())", "($i, $inst)", e0):
            if Q.has("$inst.v[:] = $ret[$i]", lp, e):
                ok = True
    ctx.check(ok, "C02.consumer", "Model.s_update_var", "sns ret[idx] over services_var_nonseq",
              "sns results no longer bound to services_var_nonseq in order", repo.W(ci, fn))
    # sequential services: own function with own argument list
    ok = False
    for lp, e in Q.loops(fn, "self.services_var_seq.items()", "($n, $inst)"):
        e1 = Q.first("$f = self.calls.s[$n]", lp, e)[1]
        if e1 and Q.has("$inst.v[:] = $f(*self.s_args[$n])", lp, e1):
            ok = True
    ctx.check(ok, "C02.consumer", "Model.s_update_var/seq", "calls.s[name](*s_args[name]) -> that service",
              "sequential VarService no longer evaluated with its own function/arguments", repo.W(ci, fn))

    # refresh_inputs_arg binds names through self._input[arg] for every arg table
    ci, fn = repo.method("Model", "refresh_inputs_arg", MODEL)
    # decided by evaluation (engine/tinyexec.py): a stand-in model whose inputs are tags and whose `calls` tables list argument names
    from engine.tinyexec import TinyExec, Fake
    from engine.ordertype import Unsupported

    class _Obj(Fake):
        pass
    mdl, calls = _Obj(), _Obj()
    mdl._input = {nm: ("input", nm) for nm in ("a", "b", "c", "d", "u")}
    calls.f_args, calls.g_args, calls.sns_args = ["b", "a"], ["c"], ["u", "d", "a"]
    calls.j_args = {"fx0": ["a", "c"], "gy1": ["b"]}
    calls.s_args = {"s1": ["d", "u"], "s2": []}
    calls.ia_args = {"v1": ["a"]}
    calls.ii_args = {"v2": ["b", "d"]}
    calls.ij_args = {"v2": ["c"]}
    mdl.calls = calls
    for k_ in ("j_args", "s_args", "ia_args", "ii_args", "ij_args"):
        setattr(mdl, k_, {"stale": ["x"]})
    miss = []
    try:
        TinyExec(repo, "Model", MODEL, stubs={"OrderedDict": dict}).call("refresh_inputs_arg", mdl)
        for k_ in ("f_args", "g_args", "sns_args"):
            if getattr(mdl, k_, None) != [("input", x) for x in getattr(calls, k_)]:
                miss.append("%s = %s" % (k_, getattr(mdl, k_, None)))
        for k_ in ("j_args", "s_args", "ia_args", "ii_args", "ij_args"):
            want = {fn_: [("input", x) for x in names] for fn_, names in getattr(calls, k_).items()}
            got = getattr(mdl, k_, None)
            if not isinstance(got, dict) or any(got.get(fn_) != w_ for fn_, w_ in want.items()):
                miss.append("%s = %s" % (k_, got))
    except Unsupported as ex:
        ctx.undecided("C02.consumer", "Model.refresh_inputs_arg", "evaluator: %s" % ex, repo.W(ci, fn))
        miss = None
    if miss is not None:
        ctx.check(not miss, "C02.consumer", "Model.refresh_inputs_arg",
                  "all 8 argument tables bound by name", "argument tables not bound by name through self._input: %s" % sorted(miss),
                  repo.W(ci, fn))

    # refresh_inputs keys by instance.name / get_names over the registries providable() assumes
    ci, fn = repo.method("Model", "refresh_inputs", MODEL)
    regs = set()
    for reg in ("num_params", "services", "services_ext", "services_ops"):
        for lp, e in Q.loops(fn, "self.%s.values()" % reg, "$inst"):
            if Q.has("self._input[$inst.name] = $inst.v", lp, e):
                regs.add(reg)
    for lp, e in Q.loops(fn, "self.cache.all_vars.values()", "$inst"):
        if Q.has("self._input[$inst.name] = $inst.v", lp, e):
            regs.add("all_vars")
    for lp, e in Q.loops(fn, "self.discrete.values()", "$inst"):
        for lp2, e2 in Q.loops(lp, "zip($inst.get_names(), $inst.get_values())", "($n, $v)", e):
            if Q.has("self._input[$n] = $v", lp2, e2):
                regs.add("discrete")
    for lp, e in Q.loops(fn, "self.config.as_dict(refresh=True).items()", "($k, $v)"):
        if Q.has("self._input[$k] = np.array($v)", lp, e):
            regs.add("config")
    for k in ("__zeros", "__ones", "__falses", "__trues", "sys_f", "sys_mva", "dae_t"):
        if Q.has("self._input['%s'] = $x" % k, fn):
            regs.add(k)
    need = {"num_params", "services", "services_ext", "services_ops", "all_vars", "discrete", "config",
            "__zeros", "__ones", "__falses", "__trues", "sys_f", "sys_mva", "dae_t"}
    ctx.check(need <= regs, "C02.consumer", "Model.refresh_inputs", "every registry keyed by its declared name",
              "inputs no longer provided under their declared names: %s" % sorted(need - regs), repo.W(ci, fn))
    # placeholder semantics: zeros/ones/falses/trues
    sem = {"__zeros": "np.zeros(self.n)", "__ones": "np.ones(self.n)", "__falses": "np.full(self.n, False)",
           "__trues": "np.full(self.n, True)"}
    bad = [k for k, v in sem.items() if not Q.has("self._input['%s'] = %s" % (k, v), fn)]
    ctx.check(not bad, "C02.consumer", "Model.refresh_inputs/placeholders", "select placeholders have their literal meaning",
              "select placeholder(s) %s no longer bound to zeros/ones/False/True" % bad, repo.W(ci, fn))


def _gen_eq_order(fn):
    """vars_list and eqn_names literal lists pair states_and_ext with 'f' and algebs_and_ext with 'g'."""
    vl = en = None
    for n in walk_noscope(fn):
        if isinstance(n, ast.Assign) and len(n.targets) == 1:
            t = dotted(n.targets[0])
            if t == "vars_list" and isinstance(n.value, ast.List):
                vl = [dotted(e) for e in n.value.elts]
            if t == "eqn_names" and isinstance(n.value, ast.List):
                en = [getattr(e, "value", None) for e in n.value.elts]
    if not vl or not en or len(vl) != len(en):
        return False
    pairs = dict(zip(en, vl))
    return pairs.get("f") == "self.cache.states_and_ext" and pairs.get("g") == "self.cache.algebs_and_ext"


def rule_writer_reader(ctx, repo):
    """names written by generate_pycode == names read by System._expand_pycode."""
    ci, wfn = repo.method("SymProcessor", "generate_pycode", SYMPROC)
    written = set()
    for c in calls_in(wfn):
        if dotted(c.func) == "self._rename_func" and len(c.args) >= 2:
            a = c.args[1]
            if isinstance(a, ast.Constant):
                written.add(a.value)
            elif isinstance(a, ast.JoinedStr):
                written.add("".join("{}" if isinstance(v, ast.FormattedValue) else v.value for v in a.values))
    ci2, rfn = repo.method("System", "_expand_pycode", SYSTEM)
    read = set()
    inner = {id(v) for j in walk_noscope(rfn) if isinstance(j, ast.JoinedStr) for v in j.values}
    for n in walk_noscope(rfn):
        if id(n) in inner:
            continue
        if isinstance(n, ast.Constant) and isinstance(n.value, str) and (
                n.value.endswith("_update") or n.value in ("md5",)):
            read.add(n.value)
        if isinstance(n, ast.JoinedStr):
            read.add("".join("{}" if isinstance(v, ast.FormattedValue) else v.value for v in n.values))
        if isinstance(n, ast.BinOp) and isinstance(n.op, ast.Add) and isinstance(n.right, ast.Constant) \
                and isinstance(n.right.value, str) and n.right.value.startswith("_"):
            read.add("{}" + n.right.value)
    read = {r for r in read if r.endswith(("_update", "_svc", "_ia", "_ii", "_ij"))}
    ctx.anchor("generate_pycode writes %s" % sorted(written), repo.W(ci, wfn))
    ctx.check(written == read and len(written) >= 7, "C02.writer_reader", "generate_pycode/_expand_pycode",
              "names %s" % sorted(written), "written %s != read %s" % (sorted(written), sorted(read)), repo.W(ci2, rfn))
    # dilled_vars are written and read through the same list, md5 written and read
    wt, rt = norm(wfn), norm(rfn)
    ctx.check("for name in dilled_vars" in wt and "for item in dilled_vars" in rt and "md5 = " in wt
              and "'md5'" in rt, "C02.writer_reader", "dilled_vars+md5",
              "both sides iterate shared.dilled_vars; md5 written and read",
              "dilled_vars/md5 no longer handled symmetrically", repo.W(ci2, rfn))


# attributes of declarations the generator *reads* and that influence emitted code
def rule_hash(ctx, repo):
    """Model.get_md5 must cover every declaration attribute the generator consumes."""
    ci, fn = repo.method("Model", "get_md5", MODEL)
    # what get_md5 hashes: (registry, attribute) pairs
    hashed = set()
    conditional = []
    for n in walk_noscope(fn):
        if isinstance(n, ast.For):
            reg = dotted(n.iter) or ""
            reg = reg.replace("self.", "").replace(".items()", "").replace(".keys()", "").replace(".values()", "")
            if reg.endswith(".as_dict()"):
                reg = reg[:-len(".as_dict()")]
            loopvars = [dotted(e) for e in (n.target.elts if isinstance(n.target, ast.Tuple) else [n.target])]
            for c in calls_in(n):
                if dotted(c.func) == "md5.update":
                    for a in attrs_in(c):
                        for lv in loopvars:
                            if a == lv:
                                hashed.add((reg, "<name>"))
                            elif lv and a.startswith(lv + "."):
                                attr = a[len(lv) + 1:].split(".")[0]
                                # the update may be conditional only on the presence of the SAME attribute: an update that also
                                # depends on another attribute (elif chain, extra condition) leaves some declarations unhashed
                                g_ = _guards_of(n, c)
                                foreign = [x for x in g_ if not _only_mentions(x[0], lv, attr)]
                                if foreign:
                                    conditional.append((reg, attr, src(foreign[0][0]), foreign[0][1]))
                                else:
                                    hashed.add((reg, attr))
    ctx.anchor("get_md5 hashes %s" % sorted(hashed), repo.W(ci, fn))
    for reg, attr, cond, pol in conditional:
        if (reg, attr) not in hashed:
            ctx.violation("C02.hash", "%s.%s/conditional" % (reg, attr),
                          "`%s` is hashed only when `%s` is %s: for the other declarations an edit of `%s` leaves the checksum unchanged and "
                          "stale generated code is used" % (attr, cond, pol, attr), repo.W(ci, fn))
    # what the generator consumes (from reading symprocessor.py; confirmed instance by instance):
    consumed = [
        ("cache.all_vars", "e_str", "generate_equations"),
        ("cache.all_vars", "v_str", "generate_dependency"),
        ("cache.all_vars", "v_iter", "generate_dependency"),
        ("cache.all_vars", "diag_eps", "generate_jacobians"),
        ("cache.all_vars", "<name>", "generate_symbols"),
        ("cache.all_params", "<name>", "generate_symbols"),
        ("config", "<name>", "generate_symbols"),
        ("services", "v_str", "generate_services"),
        ("services", "sequential", "generate_services"),
        ("services", "<name>", "generate_services"),
        ("discrete", "export_flags", "generate_symbols (get_names)"),
        ("services_subs", "v_str", "generate_subs_expr"),
        ("cache.vars_int", "deps", "generate_dependency"),
        ("services", "vtype", "generate_symbols (complex/real assumption changes printed code)"),
    ]
    # verify the generator still reads those attributes (anchor), then demand hash coverage
    sp_ci = repo.cls("SymProcessor", SYMPROC)
    sp_text = norm(sp_ci.node)
    equiv = {"cache.vars_int": ["cache.all_vars", "cache.vars_int"], "cache.all_vars": ["cache.all_vars"],
             "cache.all_params": ["cache.all_params"], "services_subs": ["services_subs"]}
    for reg, attr, user in consumed:
        c = "%s.%s" % (reg, attr)
        probe = {"<name>": None, "export_flags": "get_names"}.get(attr, attr)
        if probe and ("." + probe) not in sp_text:
            # generator no longer consumes it: nothing to demand
            ctx.ok("C02.hash", c, "generator no longer reads .%s" % probe, nontrivial=False)
            continue
        regs = equiv.get(reg, [reg])
        ok = any((r, attr) in hashed for r in regs)
        ctx.check(ok, "C02.hash", c, "hashed (used by %s)" % user,
                  "`%s` of `%s` is consumed by SymProcessor.%s but is not fed to md5 in Model.get_md5: "
                  "editing it leaves stale generated code in use" % (attr, reg, user), repo.W(ci, fn))


def _guards_of(loop, call):
    """[(test, polarity)] of the if/elif conditions enclosing `call` inside `loop`."""
    out = []

    def rec(stmts, conds):
        for st in stmts:
            if isinstance(st, ast.If):
                if any(x is call for b_ in st.body for x in ast.walk(b_)):
                    return rec(st.body, conds + [(st.test, True)])
                if any(x is call for b_ in st.orelse for x in ast.walk(b_)):
                    return rec(st.orelse, conds + [(st.test, False)])
            elif any(x is call for x in ast.walk(st)):
                if isinstance(st, (ast.For, ast.While, ast.With, ast.Try)):
                    return rec(getattr(st, "body", []), conds)
                return conds
        return conds
    return rec(loop.body, out)


def _only_mentions(test, lv, attr):
    names = {dotted(x) for x in ast.walk(test) if isinstance(x, ast.Attribute) and (dotted(x) or "").startswith(lv + ".")}
    return all(n_ == "%s.%s" % (lv, attr) for n_ in names)


def rule_undill(ctx, repo):
    """stale code is never silently used: undill regenerates stale models / reloads on failure."""
    ci, fn = repo.method("System", "undill", SYSTEM)
    g = repo.cfg(fn)
    prep = g.find(lambda n: isinstance(n, ast.Call) and dotted(n.func) == "self.prepare")
    stale = g.find(lambda n: isinstance(n, ast.Call) and dotted(n.func) == "self._find_stale_models")
    ctx.check(len(prep) >= 2 and len(stale) >= 1, "C02.staleness", "System.undill",
              "prepare() reachable on load failure and on stale models",
              "undill no longer calls _find_stale_models/prepare on both the failure and the stale path",
              repo.W(ci, fn))
    # the stale-model prepare passes models=stale_models
    ok = any(isinstance(c, ast.Call) and dotted(c.func) == "self.prepare" and
             any(k.arg == "models" and dotted(k.value) == "stale_models" for k in c.keywords)
             for c in calls_in(fn))
    ctx.check(ok, "C02.staleness", "System.undill/models=stale_models", "incremental prepare gets the stale set",
              "incremental prepare does not receive the stale model set", repo.W(ci, fn))
    # on the path where loaded is False a *full* prepare runs (guarded test)
    tests = [n for n in g.nodes(lambda n, d: d["kind"] == "test") if "loaded is False" in src(g.data(n)["ast"].test)
             or "not loaded" in src(g.data(n)["ast"].test)]
    ok = False
    for t in tests:
        region = g.branch_region(t, "true")
        ok = ok or any(p in region for p in prep)
    ctx.check(ok, "C02.staleness", "System.undill/load-failure", "failed load => prepare()",
              "failed load no longer leads to prepare()", repo.W(ci, fn))
    # _find_stale_models compares stored md5 with get_md5()
    ci2, f2 = repo.method("System", "_find_stale_models", SYSTEM)
    t = norm(f2)
    ctx.check("get_md5()" in t and "md5" in t.replace("get_md5", "") and ("!=" in t), "C02.staleness", "System._find_stale_models",
              "calls.md5 != get_md5()", "stale test no longer compares calls.md5 with get_md5()", repo.W(ci2, f2))
    # prepare stores md5 *of the current declarations* before generating
    ci3, f3 = repo.method("Model", "prepare", MODEL)
    g3 = repo.cfg(f3)
    md = g3.find(lambda n: isinstance(n, ast.Call) and dotted(n.func) == "self.get_md5")
    wr = g3.find(lambda n: isinstance(n, ast.Call) and dotted(n.func) == "self.syms.generate_pycode")
    ok = bool(md and wr) and all(g3.must_pass(g3.entry, w, md)[0] for w in wr)
    ctx.check(ok, "C02.staleness", "Model.prepare", "md5 computed before pycode is written",
              "pycode can be written without a fresh md5", repo.W(ci3, f3))


def rule_determinism(ctx, repo):
    """every iteration over a set-typed value in symprocessor.py that feeds argument order is sorted."""
    ci = repo.cls("SymProcessor", SYMPROC)
    n_sites = 0
    for fn in ci.methods.values():
        for n in walk_noscope(fn):
            # expr.free_symbols / set(...) used as an iterable or converted to list without sorted()
            if isinstance(n, (ast.For, ast.comprehension)):
                it = n.iter
                s = src(it)
                if ("free_symbols" in s or s.startswith("set(")) and "sorted(" not in s:
                    # allowed when the loop only tests membership / raises (order-insensitive)
                    body = n.body if isinstance(n, ast.For) else []
                    order_insensitive = all(isinstance(b, (ast.If, ast.Raise, ast.Pass, ast.Expr)) for b in body) and \
                        not any(isinstance(x, ast.Call) and dotted(x.func) and dotted(x.func).endswith((".append", ".extend"))
                                for b in body for x in ast.walk(b))
                    n_sites += 1
                    ctx.check(order_insensitive, "C02.determinism", "SymProcessor.%s:%s" % (fn.name, s[:40]),
                              "set iteration is order-insensitive",
                              "iteration over an unordered set feeds emitted code / argument order", repo.W(ci, n if isinstance(n, ast.For) else fn))
            if isinstance(n, ast.Call) and dotted(n.func) == "list" and n.args and "set(" in src(n.args[0]):
                # list(set(..)) must be wrapped in sorted
                n_sites += 1
                parents_sorted = "sorted(" + src(n) in norm(fn)
                ctx.check(parents_sorted, "C02.determinism", "SymProcessor.%s:%s" % (fn.name, src(n)[:40]),
                          "list(set()) is sorted", "list(set(...)) used without sorted()", repo.W(ci, n))
    # module-level helper
    f = repo.func(SYMPROC, "_store_deps")
    t = norm(f)
    n_sites += 1
    ctx.check("sorted(sympified.free_symbols" in t or "sorted(" in t, "C02.determinism", "_store_deps",
              "free_symbols sorted", "free_symbols iterated unsorted in _store_deps", where(SYMPROC, f))
    ctx.count("determinism_sites", n_sites)


def tv_sensitivity(ctx, models, gens, per_model=12, seed=0):
    """thorough: mutate generated functions in memory; every provably non-equivalent mutant must be reported."""
    import random
    from engine import tvmut
    rnd = random.Random(seed)
    total = caught = skipped = 0
    missed = []
    kinds = {}
    for name, m in models.items():
        gen = gens[name]
        try:
            mt = tv.ModelTV(name, m, gen)
        except dsl.DSLError:
            continue
        fl = tv.flags_of(m, mt.st)
        sx, sy, allv = mt.var_order()
        funcs = [f for f in gen.funcs.values() if f.ret is not None]
        rnd.shuffle(funcs)
        for gf in funcs[:per_model]:
            # declared counterpart (list of expressions) and stored args for this function
            try:
                if gf.name == "f_update":
                    decl, args = [mt.eq(v) for v in sx], gen.tables.get("f_args")
                elif gf.name == "g_update":
                    decl, args = [mt.eq(v) for v in sy], gen.tables.get("g_args")
                elif gf.name.endswith("_svc"):
                    sn = gf.name[:-4]
                    decl, args = [mt.decl(m.services[sn].v_str)], gen.tables["s_args"].get(sn)
                elif gf.name.endswith("_ia"):
                    vn = gf.name[:-3]
                    decl, args = [mt.decl(m.cache.all_vars[vn].v_str)], gen.tables["ia_args"].get(vn)
                else:
                    continue
            except Exception:
                continue
            for kind, mf in tvmut.mutants_of(gf, rnd, k=2):
                try:
                    els = mf.elements()
                    if list(mf.params) != list(args):
                        verdict = "violation"      # binding rule
                        nonequiv = True
                    else:
                        got = [mt.gen_expr(e, mf.params) for e in els]
                        if len(got) != len(decl):
                            continue
                        # is the mutant provably different from the original generated function?
                        orig = [mt.gen_expr(e, gf.params) for e in gf.elements()]
                        nonequiv = any(dsl.numeric_nonzero(sp.expand(a - b), flags=fl) is True for a, b in zip(orig, got)
                                       if isinstance(a, sp.Basic) and isinstance(b, sp.Basic) and not dsl.is_bool(a) and not dsl.is_bool(b))
                        if not nonequiv:
                            skipped += 1
                            continue
                        verdict = "ok"
                        for a, b in zip(decl, got):
                            v, _ = dsl.equal(a, b, flags=fl, deep=False)
                            if v == "differ":
                                verdict = "violation"
                                break
                except dsl.DSLError:
                    verdict = "violation"        # free name / unknown construct is reported by the body rule
                    nonequiv = True
                except Exception:
                    skipped += 1
                    continue
                total += 1
                kinds[kind] = kinds.get(kind, 0) + 1
                if verdict == "violation":
                    caught += 1
                else:
                    missed.append("%s.%s/%s" % (name, gf.name, kind))
    ctx.extra["tv_sensitivity"] = dict(mutants=total, caught=caught, skipped_equivalent_or_unparsed=skipped, kinds=kinds, missed=missed[:20])
    print("   tv sensitivity: %d/%d non-equivalent mutants of generated functions reported (%d skipped)" % (caught, total, skipped))
    return missed


def regeneration(ctx, models, gens):
    """thorough: regenerate all code in a fresh interpreter with a different hash seed; the second generation must validate
    against the declarations as well (functional identity), and textual identity is recorded."""
    import os
    import shutil
    import subprocess
    import sys
    import tempfile
    from engine import pycode
    from engine.report import REPO, VERIF, Ctx
    d = tempfile.mkdtemp(prefix="andes_verif_regen_")
    try:
        code = ("import sys; sys.path.insert(0, %r); import logging; logging.disable(logging.CRITICAL); "
                "from engine import elab; import shutil; d, err = elab.generate_pycode(); "
                "import os; [shutil.move(os.path.join(d, f), os.path.join(%r, f)) for f in os.listdir(d)]; shutil.rmtree(d, ignore_errors=True); "
                "print('ERRORS', err)") % (VERIF, d)
        env = dict(os.environ, PYTHONHASHSEED="4242", VERIF_REPO=REPO, PYTHONDONTWRITEBYTECODE="1")
        pr = subprocess.run([sys.executable, "-W", "ignore", "-c", code], env=env, capture_output=True, text=True, timeout=1800)
        if "ERRORS {}" not in pr.stdout:
            raise AnalysisError("second generator run failed: %s" % (pr.stdout + pr.stderr)[-300:])
        gens2 = pycode.load_dir(d, list(models))
        same = sum(1 for n in models if gens2[n].text == gens[n].text)
        diff = [n for n in models if gens2[n].text != gens[n].text]
        sub = Ctx("C02", tier="quick", level="translation_validation")
        run_models(sub, models, gens2)
        bad = [r for r in sub.results if r["verdict"] == "violation"]
        ctx.extra["regeneration"] = dict(files=len(models), textually_identical=same, different=diff[:10], second_generation_violations=len(bad),
                                         second_generation_instances=len(sub.results))
        for r in bad[:10]:
            ctx.violation("C02.regen", r["construct"], "second generation (PYTHONHASHSEED=4242) disagrees with the declarations: " + r["detail"], r["where"])
        ctx.check(not bad, "C02.regen", "all models", "%d/%d files textually identical across two generations with different hash seeds; the second "
                  "generation validates against the declarations (%d instances)" % (same, len(models), len(sub.results)),
                  "second generation is not functionally identical")
        print("   regeneration: %d/%d files textually identical; second generation: %d violations" % (same, len(models), len(bad)))
    finally:
        shutil.rmtree(d, ignore_errors=True)


def rule_loaded(ctx, repo, models, gens):
    """Every generated initialiser is loaded: the generator emits `<name>_ii` / `<name>_ij` for each entry of its iterative-init table;
    System._expand_pycode loads them by walking `init_seq`.  The loader's selection predicate is read from its AST (which kinds of
    init_seq items it handles) and applied to every model's generated `init_seq`; a generated function outside the loaded set is dead
    code -- Model.init silently skips that initialiser."""
    f = F.method(repo, "System", "_expand_pycode", SYSTEM)
    handles_list = handles_str = False
    for lp in [l for l in ast.walk(f.fn) if isinstance(l, ast.For) and "init_seq" in src(l.iter)]:
        for t in [x for x in ast.walk(lp) if isinstance(x, ast.If)]:
            if "_ii" in src(t) or "calls.ii" in src(t):
                tt = src(t.test)
                if "isinstance" in tt and "list" in tt:
                    handles_list = True
                if "isinstance" in tt and "str" in tt:
                    handles_str = True
                if t.orelse and ("_ii" in "".join(src(x) for x in t.orelse)):
                    handles_str = True
        if not any(isinstance(x, ast.If) for x in ast.walk(lp)) and "_ii" in src(lp):
            handles_list = handles_str = True
    if not (handles_list or handles_str):
        ctx.undecided("C02.consumer", "_expand_pycode/iterative-init", "loader of the iterative initialisers not recognised", f.W())
        return
    n = 0
    for name, g_ in gens.items():
        gen = sorted(k[:-3] for k in g_.funcs if k.endswith("_ii"))
        seq = g_.tables.get("init_seq") or []
        loaded = set()
        for item in seq:
            if isinstance(item, list) and handles_list:
                loaded.add("_".join(item))
            elif isinstance(item, str) and handles_str:
                loaded.add(item)
        dead = [x for x in gen if x not in loaded]
        if gen:
            n += 1
            ctx.check(not dead, "C02.consumer", "%s/iterative-init" % name, "%d generated iterative initialiser(s), all loaded" % len(gen),
                      "generated but never loaded: %s -- the loader only takes %s entries of init_seq, so Model.init skips these declared "
                      "`v_iter` initialisers silently (generated in-process they would run)" % (
                          ", ".join(x + "_ii" for x in dead), "multi-variable (list)" if handles_list and not handles_str else "some"),
                      elab.locate(models[name], dead[0].split("_")[0]) if dead else "")
    ctx.count("models_with_iterative_init", n)


NPFUNC = "andes/thirdparty/npfunc.py"


def rule_runtime(ctx, repo):
    """The generated functions call a small runtime library (andes/thirdparty/npfunc.py); "the executed function returns the
    declared value for any argument values" needs these helpers to be pure: no module-level mutable state read or written,
    an `out=` buffer handed to NumPy is the caller's or freshly allocated in the call."""
    mod = repo.module(NPFUNC)
    mutable = set()
    for n in mod.body:
        if isinstance(n, ast.Assign):
            v = n.value
            is_mut = isinstance(v, (ast.Dict, ast.List, ast.Set, ast.ListComp, ast.DictComp)) or \
                (isinstance(v, ast.Call) and (dotted(v.func) or "") in ("dict", "list", "set", "OrderedDict", "defaultdict", "np.zeros",
                                                                    "np.empty", "np.ones", "np.array"))
            if is_mut:
                mutable.update(t.id for t in n.targets if isinstance(t, ast.Name))
    nfun = 0
    for name, fn in repo.funcs.get(NPFUNC, {}).items():
        nfun += 1
        params = {a.arg for a in fn.args.args + fn.args.kwonlyargs}
        used = sorted({x.id for x in ast.walk(fn) if isinstance(x, ast.Name) and x.id in mutable and x.id not in params})
        glob = [g for g in ast.walk(fn) if isinstance(g, (ast.Global, ast.Nonlocal))]
        issues = []
        if used:
            issues.append("uses the module-level mutable object(s) %s" % ", ".join(used))
        if glob:
            issues.append("declares global state")
        # out= buffers
        for c in calls_in(fn):
            for k in c.keywords:
                if k.arg == "out" and isinstance(k.value, ast.Name) and k.value.id not in params:
                    defs = [st for st in walk_noscope(fn) if isinstance(st, ast.Assign) and any(dotted(t) == k.value.id for t in st.targets)]
                    fresh = defs and all(isinstance(d.value, ast.Call) and (dotted(d.value.func) or "").split(".")[-1] in
                                         ("zeros_like", "zeros", "empty_like", "empty", "ones_like", "full_like", "copy", "array") for d in defs)
                    if not fresh:
                        issues.append("`out=%s` of `%s` is not allocated in the call" % (k.value.id, dotted(c.func)))
                elif k.arg == "out" and isinstance(k.value, ast.Name) and k.value.id in params:
                    # a parameter defaulted to None and re-bound in the call: every re-binding must allocate
                    defs = [st for st in walk_noscope(fn) if isinstance(st, ast.Assign) and any(dotted(t) == k.value.id for t in st.targets)]
                    stale = [d for d in defs if not (isinstance(d.value, ast.Call) and (dotted(d.value.func) or "").split(".")[-1] in
                                                     ("zeros_like", "zeros", "empty_like", "empty", "ones_like", "full_like", "copy", "array"))]
                    if stale:
                        issues.append("default output buffer `%s = %s` is not a fresh allocation: results of earlier calls show through where "
                                      "the operation is masked" % (k.value.id, src(stale[0].value)))
        ctx.check(not issues, "C02.runtime", "npfunc.%s" % name, "pure (no shared state, output buffer allocated per call)",
                  "; ".join(issues), "%s:%d" % (NPFUNC, fn.lineno))
    if nfun == 0:
        raise AnalysisError("runtime helper library %s has no functions" % NPFUNC)
    # re-import after regeneration: a package object taken from sys.modules is reloaded before it is used
    f = F.function(repo, SYSTEM, "import_pycode")
    issues = []
    for st in walk_noscope(f.fn):
        if isinstance(st, ast.Assign):
            for x in ast.walk(st.value):
                d = dotted(x) if isinstance(x, (ast.Attribute, ast.Subscript, ast.Call)) else None
                if d and d.startswith("sys.modules"):
                    issues.append("`%s` takes the package from sys.modules without reloading its sub-modules" % src(st))
    calls = [c for c in calls_in(f.fn) if dotted(c.func) == "reload_submodules"]
    r = repo.funcs.get(SYSTEM, {}).get("reload_submodules")
    reloads = r is not None and any(dotted(c.func) == "importlib.reload" for c in calls_in(r))
    if not calls or not reloads:
        issues.append("no reload of an already imported package (reload_submodules / importlib.reload)")
    ctx.check(not issues, "C02.staleness", "import_pycode/reload", "an already imported pycode package is reloaded (importlib.reload of every sub-module)",
              "; ".join(issues) + ": code regenerated in this process is written to disk but the old callables, argument lists and md5 stay in use",
              f.W())


def run(ctx):
    ctx.rule("C02.runtime", "runtime helpers called by generated code are pure", 1)
    ctx.rule("C02.body", "i-th element of every generated function == own parse of the declared string of the i-th "
             "variable/service of the collection the runtime enumerates (SubsService substituted), by normal form", 1500)
    ctx.rule("C02.binding", "generated signature == stored *_args element-wise (runtime binds positionally); free names "
             "of the body are parameters; every parameter is provided by Model.refresh_inputs", 1500)
    ctx.rule("C02.consumer", "Model.f_update/g_update/s_update_var/refresh_inputs* enumerate the same ordered collections "
             "as the generator and bind by name", 8)
    ctx.rule("C02.writer_reader", "function/table names written by generate_pycode == names read by _expand_pycode", 2)
    ctx.rule("C02.hash", "every declaration attribute consumed by the generator is covered by Model.get_md5", 10)
    ctx.rule("C02.staleness", "undill regenerates on load failure and for stale models; md5 stored before writing", 5)
    ctx.rule("C02.determinism", "set iterations in the generator are sorted before they influence emitted code", 3)
    ctx.assume("sympy is the normal-form kernel (expand/cancel/simplify zero tests); identities over R/C, not IEEE-754")
    ctx.assume("elaboration runs declarative model constructors only (system=None); generator is run as a build step and only its output text is analysed")
    ctx.assume("numpy contract of select/less/greater/real/imag/... as documented")

    repo = Repo()
    models, gens, cached = tv.load_all()
    ctx.extra["generator_cache_hit"] = cached
    run_models(ctx, models, gens)
    if ctx.tier == "thorough":
        ctx.rule("C02.regen", "regenerating from unchanged models under a different hash seed yields functionally identical code", 1)
        regeneration(ctx, models, gens)
        missed = tv_sensitivity(ctx, models, gens)
        if missed:
            raise AnalysisError("translation validator is blind to %d mutants of generated code, e.g. %s" % (len(missed), missed[:3]))
    rule_consumers(ctx, repo)
    rule_loaded(ctx, repo, models, gens)
    rule_writer_reader(ctx, repo)
    rule_hash(ctx, repo)
    rule_undill(ctx, repo)
    rule_determinism(ctx, repo)
    rule_runtime(ctx, repo)
    ctx.extra["explanation_tv"] = ("programs = generated functions compared; disagreements_checked = element pairs that "
                                   "needed more than structural equality")
    # TV-level samples
    for r in ctx.results:
        if r["rule"] == "C02.body" and r["detail"] not in ("structural", "zero/absent"):
            ctx.sample(dict(construct=r["construct"], verdict=r["verdict"], stage=r["detail"][:120], where=r["where"]))
    for r in ctx.results[:3]:
        ctx.sample(dict(construct=r["construct"], verdict=r["verdict"], stage=r["detail"][:120], where=r["where"]))
