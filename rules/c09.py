"""C09 -- limiters and other discrete components enforce their documented semantics.

Finite abstract interpretation: the check_var/check_eq methods are interpreted (engine.minterp) on one
representative per order type of their inputs x all constructor options; flags must be exhaustive, mutually
exclusive and agree with the comparisons; clamp algebra of the anti-windup limiter; x_set producer/consumer
layout; evaluation order; self-comparison lint; exhaustiveness of the time case splits."""
import ast
import itertools

from engine import astq as Q
from engine.cfg import walk_noscope
from engine.minterp import MethodInterp
from engine.ordertype import Unsupported, weak_orderings, Interp
from engine.pysrc import Repo, F, dotted, src, calls_in
from engine.report import AnalysisError

DISC = "andes/core/discrete.py"
TDS = "andes/routines/tds.py"
PFLOW = "andes/routines/pflow.py"
SYSTEM = "andes/system.py"
DAEINT = "andes/routines/daeint.py"


def limiter_state(o, equal, no_lower, no_upper, sl, su, enable, zu0=0.0, zl0=0.0, zi0=1.0, allow_adjust=True):
    Lp, Up, u = o["L"], o["U"], o["u"]
    return {
        "self.enable": enable, "self.no_lower": no_lower, "self.no_upper": no_upper, "self.equal": equal,
        "self.allow_adjust": allow_adjust, "self.sign_lower.v": sl, "self.sign_upper.v": su,
        "self.lower.v": Lp * sl, "self.upper.v": Up * su, "self.u.v": u,
        "self.zu": zu0, "self.zl": zl0, "self.zi": zi0,
    }


def rule_limiter(ctx, repo):
    total = 0
    for cls in ("Limiter", "HardLimiter", "DeadBand"):
        ci = repo.cls(cls, DISC)
        bad = []
        n = 0
        equals = (True, False)
        for o in weak_orderings(["u", "L", "U"]):
            for equal, (nl, nu), sl, su, enable in itertools.product(
                    equals, ((False, False), (True, False), (False, True)), (1, -1), (1, -1), (True, False)):
                st = limiter_state(o, equal, nl, nu, sl, su, enable)
                mi = MethodInterp(repo, cls, DISC, st, skip_calls=("do_adjust_upper", "do_adjust_lower"))
                try:
                    mi.call_in(cls, "check_var", kwargs={"is_init": False})
                except Unsupported as e:
                    ctx.undecided("C09.limiter", "%s.check_var" % cls, "front-end: %s" % e, repo.W(ci, ci.node))
                    bad = None
                    break
                n += 1
                zu, zl, zi = bool(mi.s["self.zu"]), bool(mi.s["self.zl"]), bool(mi.s["self.zi"])
                u, L, U = o["u"], o["L"], o["U"]
                if not enable:
                    if (mi.s["self.zu"], mi.s["self.zl"], mi.s["self.zi"]) != (0.0, 0.0, 1.0):
                        bad.append("disabled limiter changed its default flags")
                    continue
                ezu = ((u >= U) if equal else (u > U)) if not nu else False
                ezl = ((u <= L) if equal else (u < L)) if not nl else False
                ezi = not (ezu or ezl)
                if (zu, zl, zi) != (ezu, ezl, ezi):
                    bad.append("u%sL, u%sU, equal=%s no_lower=%s no_upper=%s signs=(%d,%d): flags (zu,zl,zi)=%s expected %s" % (
                        _rel(u, L), _rel(u, U), equal, nl, nu, sl, su, (int(zu), int(zl), int(zi)), (int(ezu), int(ezl), int(ezi))))
                if L < U and (int(zu) + int(zl) + int(zi)) != 1:
                    bad.append("flags not one-hot for lower < upper")
            if bad is None:
                break
        if bad is None:
            continue
        total += n
        ctx.check(not bad, "C09.limiter", "%s.check_var" % cls,
                  "%d order types x options: zu/zl agree with the comparisons, zi = not(zu or zl), one-hot, disabled => defaults" % n,
                  "; ".join(sorted(set(bad))[:3]), repo.W(ci, ci.node))
    # LessThan / IsEqual
    ci = repo.cls("LessThan", DISC)
    bad = []
    n = 0
    for o in weak_orderings(["u", "b"]):
        for equal, enable, cache, ev in itertools.product((True, False), (True, False), (True, False), (True, False)):
            st = {"self.enable": enable, "self.cache": cache, "self._eval": ev, "self.equal": equal, "self.u.v": o["u"],
                  "self.bound.v": o["b"], "self.z0": 7, "self.z1": 9}
            mi = MethodInterp(repo, "LessThan", DISC, st)
            try:
                mi.call_in("LessThan", "check_var")
            except Unsupported as e:
                ctx.undecided("C09.limiter", "LessThan.check_var", "front-end: %s" % e, repo.W(ci, ci.node))
                bad = None
                break
            n += 1
            if not enable or (cache and ev):
                if (mi.s["self.z0"], mi.s["self.z1"]) != (7, 9):
                    bad.append("flags changed although disabled / cached")
                continue
            e1 = (o["u"] <= o["b"]) if equal else (o["u"] < o["b"])
            if (bool(mi.s["self.z1"]), bool(mi.s["self.z0"])) != (e1, not e1):
                bad.append("u%sbound equal=%s: z1=%s z0=%s" % (_rel(o["u"], o["b"]), equal, mi.s["self.z1"], mi.s["self.z0"]))
        if bad is None:
            break
    if bad is not None:
        total += n
        ctx.check(not bad, "C09.limiter", "LessThan.check_var", "%d cases: z1 = [u < (<=) bound], z0 = not z1; cache/enable honoured" % n,
                  "; ".join(sorted(set(bad))[:3]), repo.W(ci, ci.node))
    ci = repo.cls("IsEqual", DISC)
    bad = []
    for o in weak_orderings(["u", "b"]):
        st = {"self.enable": True, "self.cache": False, "self._eval": False, "self.u.v": o["u"], "self.bound.v": o["b"], "self.z1": 9}
        mi = MethodInterp(repo, "IsEqual", DISC, st)
        try:
            mi.call_in("IsEqual", "check_var")
            if bool(mi.s["self.z1"]) != (o["u"] == o["b"]):
                bad.append("u%sbound: z1=%s" % (_rel(o["u"], o["b"]), mi.s["self.z1"]))
        except Unsupported as e:
            bad.append("front-end: %s" % e)
    ctx.check(not bad, "C09.limiter", "IsEqual.check_var", "z1 = [u == bound] for the 3 orderings", "; ".join(bad[:3]), repo.W(ci, ci.node))
    ctx.count("limiter_cases", total)


def _assigned_to(fn, node):
    for st_ in ast.walk(fn):
        if isinstance(st_, (ast.Assign, ast.AugAssign)) and any(x is node for x in ast.walk(st_)):
            t = st_.targets[0] if isinstance(st_, ast.Assign) else st_.target
            while isinstance(t, ast.Subscript):
                t = t.value
            return (dotted(t) or "?").replace("self.", "")
    return "expr"


def _rel(a, b):
    return "<" if a < b else ("=" if a == b else ">")


def rule_antiwindup(ctx, repo):
    ci = repo.cls("AntiWindup", DISC)
    bad = []
    n = 0
    lock = None
    for st_ in walk_noscope(ci.methods["__init__"]):
        m = Q.match("self.niter_lock = $k", st_) if isinstance(st_, ast.Assign) else None
        if m:
            lock = ast.literal_eval(m["k"])
    if lock is None:
        raise AnalysisError("AntiWindup.niter_lock vanished")
    for o in weak_orderings(["u", "L", "U"]):
        for e, niter, (zu0, zl0), (nl, nu), sl, su in itertools.product(
                (-1.0, 0.0, 1.0), (0, lock + 1), ((0, 0), (1, 0), (0, 1)), ((False, False), (True, False), (False, True)),
                (1, -1), (1, -1)):
            if (nl and zl0) or (nu and zu0):
                continue      # a flag of a disabled side is never set: infeasible previous state
            st = limiter_state(o, True, nl, nu, sl, su, True, zu0=float(zu0), zl0=float(zl0), zi0=float(not (zu0 or zl0)))
            st.update({"self.state.e": e, "self.state.v": o["u"], "self.state.a": 5, "self.zu0": 0.0, "self.zl0": 0.0,
                       "self.niter_lock": lock, "self.x_set": [("stale", 0, 0)]})
            mi = MethodInterp(repo, "AntiWindup", DISC, st, skip_calls=("do_adjust_upper", "do_adjust_lower"))
            try:
                mi.call_in("AntiWindup", "check_eq", kwargs={"is_init": False, "niter": niter})
            except Unsupported as ex:
                if str(ex).startswith("unbound ") and "." not in str(ex)[8:]:
                    # a local read before assignment under a feasible option combination is a definite run-time error
                    ctx.violation("C09.antiwindup", "AntiWindup.check_eq", "local `%s` is read before assignment for options "
                                  "no_lower=%s no_upper=%s (UnboundLocalError at run time)" % (str(ex)[8:], nl, nu), repo.W(ci, ci.node))
                else:
                    ctx.undecided("C09.antiwindup", "AntiWindup.check_eq", "front-end: %s" % ex, repo.W(ci, ci.node))
                return
            n += 1
            u, L, U = o["u"], o["L"], o["U"]
            zu, zl, zi = bool(mi.s["self.zu"]), bool(mi.s["self.zl"]), bool(mi.s["self.zi"])
            cu = (u >= U and e >= 0) and not nu
            cl = (u <= L and e <= 0) and not nl
            if niter > lock:
                cu = cu or (bool(zu0) and not nu)
                cl = cl or (bool(zl0) and not nl)
            tag = "u%sL u%sU e=%+d niter=%d prev=(%d,%d) no=(%s,%s) signs=(%d,%d)" % (_rel(u, L), _rel(u, U), e, niter, zu0, zl0, nl, nu, sl, su)
            if (zu, zl) != (cu, cl) or zi != (not (cu or cl)):
                bad.append("%s: (zu,zl,zi)=%s expected %s" % (tag, (int(zu), int(zl), int(zi)), (int(cu), int(cl), int(not (cu or cl)))))
                continue
            xs = mi.s["self.x_set"]
            if any(t and t[0] == "stale" for t in xs):
                bad.append("x_set not rebuilt on every call")
            if zi:
                if xs:
                    bad.append("%s: x_set non-empty although inside" % tag)
                if mi.s["self.state.e"] != e or mi.s["self.state.v"] != u:
                    bad.append("%s: state modified although inside" % tag)
            elif not (zu and zl):   # both set only arises from the chatter lock holding a stale flag: not specified
                want = U if zu else L
                if mi.s["self.state.e"] != 0:
                    bad.append("%s: derivative of the pegged state is %s, not 0" % (tag, mi.s["self.state.e"]))
                if mi.s["self.state.v"] != want:
                    bad.append("%s: pegged value %s, limit is %s" % (tag, mi.s["self.state.v"], want))
                if len(xs) != 1 or len(xs[0]) != 3 or xs[0][0] != 5 or xs[0][1] != want or xs[0][2] != 0:
                    bad.append("%s: x_set entry %s is not (address, limit value, 0)" % (tag, xs))
    ctx.check(not bad, "C09.antiwindup", "AntiWindup.check_eq",
              "%d cases: zu <=> u>=upper' & e>=0 (or locked), zl dual, zi = not(zu|zl); pegged state: e=0, v=limit; x_set=(addr,limit,0), rebuilt" % n,
              "; ".join(sorted(set(bad))[:3]), repo.W(ci, ci.methods["check_eq"]))
    ctx.count("antiwindup_cases", n)

    # RateLimiter
    ci = repo.cls("RateLimiter", DISC)
    bad = []
    n = 0
    for o in weak_orderings(["e", "rl", "ru"]):
        for cl, cu, (nl, nu), enable in itertools.product((0, 1), (0, 1), ((False, False), (True, False), (False, True)), (True, False)):
            st = {"self.enable": enable, "self.rate_no_lower": nl, "self.rate_no_upper": nu, "self.u.e": o["e"],
                  "self.rate_lower.v": o["rl"], "self.rate_upper.v": o["ru"], "self.rate_lower_cond": 1, "self.rate_upper_cond": 1,
                  "self.rate_lower_cond.v": cl, "self.rate_upper_cond.v": cu, "self.zlr": 0, "self.zur": 0}
            mi = MethodInterp(repo, "RateLimiter", DISC, st)
            try:
                mi.call_in("RateLimiter", "check_eq")
            except Unsupported as ex:
                ctx.undecided("C09.antiwindup", "RateLimiter.check_eq", "front-end: %s" % ex, repo.W(ci, ci.node))
                bad = None
                break
            n += 1
            e, rl, ru = o["e"], o["rl"], o["ru"]
            if not enable:
                if mi.s["self.u.e"] != e:
                    bad.append("disabled rate limiter changed the derivative")
                continue
            exp = e
            zlr = (e < rl) and cl == 1 and not nl
            if zlr:
                exp = rl
            zur = (exp > ru) and cu == 1 and not nu
            if zur:
                exp = ru
            if rl <= ru and mi.s["self.u.e"] != exp:
                bad.append("e%srl e%sru cond=(%d,%d): derivative becomes %s, expected %s" % (_rel(e, rl), _rel(e, ru), cl, cu, mi.s["self.u.e"], exp))
            if rl <= ru and (bool(mi.s["self.zlr"]), bool(mi.s["self.zur"])) != (zlr, zur):
                bad.append("rate flags (%s,%s) expected (%s,%s)" % (mi.s["self.zlr"], mi.s["self.zur"], zlr, zur))
        if bad is None:
            break
    if bad is not None:
        ctx.check(not bad, "C09.antiwindup", "RateLimiter.check_eq", "%d cases: derivative clipped to [rate_lower, rate_upper] where enabled" % n,
                  "; ".join(sorted(set(bad))[:3]), repo.W(ci, ci.node))
    # AntiWindupRate: both parents, rate first
    f = F.method(repo, "AntiWindupRate", "check_eq", DISC)
    a = f.calls("RateLimiter.check_eq", exact=True)
    b = f.calls("AntiWindup.check_eq", exact=True)
    ok = bool(a and b) and f.before(a, b)[0] and f.after(a, b)[0]
    ctx.check(ok, "C09.antiwindup", "AntiWindupRate.check_eq", "RateLimiter.check_eq then AntiWindup.check_eq",
              "rate-limited anti-windup no longer applies the rate limit first and the anti-windup afterwards", f.W())


def rule_deadband_rt(ctx, repo):
    ci = repo.cls("DeadBandRT", DISC)
    fn = ci.methods["check_var"]
    # tautology lint over the whole module
    n_t = 0
    for cl in repo.classes.values():
        for c in cl:
            if c.path != DISC:
                continue
            for m in c.methods.values():
                for node in walk_noscope(m):
                    if isinstance(node, ast.Call) and dotted(node.func) in ("np.equal", "np.not_equal", "np.less", "np.greater",
                                                                              "np.less_equal", "np.greater_equal") and len(node.args) == 2:
                        n_t += 1
                        if src(node.args[0]) == src(node.args[1]):
                            ctx.violation("C09.tautology", "%s.%s/%s" % (c.name, m.name, _assigned_to(m, node)),
                                          "self-comparison %s is constant: the intended comparison with the *previous* value is lost" % src(node),
                                          repo.W(c, node))
                    if isinstance(node, ast.Compare) and len(node.ops) == 1 and src(node.left) == src(node.comparators[0]):
                        ctx.violation("C09.tautology", "%s.%s" % (c.name, m.name), "self-comparison %s" % src(node), repo.W(c, node))
    ctx.ok("C09.tautology", "discrete.py", "%d comparison calls scanned" % n_t)
    # two-step semantics from the docstring: zur set when previous zu and present zi; hold while zi unchanged; clear otherwise
    pos = {"below": 0, "inside": 2, "above": 4}
    bad = []
    n = 0
    for p0, p1, p2 in itertools.product(pos, pos, pos):
        st = {"self.enable": True, "self.no_lower": False, "self.no_upper": False, "self.equal": False, "self.allow_adjust": False,
              "self.sign_lower.v": 1, "self.sign_upper.v": 1, "self.lower.v": 1, "self.upper.v": 3,
              "self.zu": 0.0, "self.zl": 0.0, "self.zi": 0.0, "self.zur": 0.0, "self.zlr": 0.0}
        exp_zur = exp_zlr = 0
        prev = (0, 0, 0)
        mi = None
        try:
            for p in (p0, p1, p2):
                st["self.u.v"] = pos[p]
                mi = MethodInterp(repo, "DeadBandRT", DISC, st, skip_calls=("do_adjust_upper", "do_adjust_lower"))
                mi.call_in("DeadBandRT", "check_var")
                st = dict(mi.s)
                cur = (int(p == "above"), int(p == "below"), int(p == "inside"))
                hold = prev[2] == cur[2]
                exp_zur = 1 if (prev[0] and cur[2]) else (exp_zur if hold else 0)
                exp_zlr = 1 if (prev[1] and cur[2]) else (exp_zlr if hold else 0)
                prev = cur
        except Unsupported as e:
            ctx.undecided("C09.deadband-rt", "DeadBandRT.check_var", "front-end: %s" % e, repo.W(ci, fn))
            return
        n += 1
        got = (int(bool(mi.s["self.zur"])), int(bool(mi.s["self.zlr"])))
        if got != (exp_zur, exp_zlr):
            bad.append("input %s -> %s -> %s: (zur, zlr) = %s, documented %s" % (p0, p1, p2, got, (exp_zur, exp_zlr)))
    ctx.check(not bad, "C09.deadband-rt", "DeadBandRT.check_var",
              "%d three-step input histories: return-direction flags follow the documented set/hold/clear rule" % n,
              "; ".join(bad[:3]) + " (%d of %d histories wrong)" % (len(bad), n), repo.W(ci, fn))


def rule_xset(ctx, repo):
    """producer tuple (address, value, eqval) vs the three consumers."""
    p = F.method(repo, "AntiWindup", "check_eq", DISC)
    m = Q.first("self.x_set.append(($a, $v, $e))", p.fn)[1]
    ok = m is not None and Q.match("self.state.a[$i]", m["a"]) is not None and Q.match("self.state.v[$i]", m["v"]) is not None \
        and src(m["e"]) == "0"
    ctx.check(ok, "C09.xset", "AntiWindup.check_eq/producer", "(state.a[idx], state.v[idx], 0)",
              "x_set entries are no longer (address, pegged value, equation value 0)", p.W())
    cons = [("System", "fg_to_dae", SYSTEM, "self.antiwindups", "np.put(self.dae.x, $k, $v)", ("k", "v", None)),
            ("ImplicitIter", "step", DAEINT, "system.antiwindups", "np.put(tds.qg, $k, $q)", ("k", None, "q")),
            ("TDS", "init", TDS, "system.antiwindups", "np.put(system.dae.f, $k, $q)", ("k", None, "q"))]
    for cls, meth, path, coll, put, roles in cons:
        f = F.method(repo, cls, meth, path)
        ok = False
        for lp, e in Q.loops(f.fn, coll, "$item"):
            for lp2, e2 in Q.loops(lp, "$item.x_set", "($p0, $p1, $p2)", e):
                mm = Q.first(put, lp2)[1]
                if mm is None:
                    continue
                pos = [src(e2["p0"]), src(e2["p1"]), src(e2["p2"])]
                okk = src(mm["k"]) == pos[0]
                if roles[1]:
                    okk = okk and src(mm["v"]) == pos[1]
                if roles[2]:
                    okk = okk and src(mm["q"]) == pos[2]
                ok = ok or okk
        ctx.check(ok, "C09.xset", "%s.%s/consumer" % (cls, meth),
                  "unpacks (address, value, eqval) in the producer's order",
                  "consumer of x_set reads the tuple positions in a different order than AntiWindup.check_eq produces them", f.W())


def rule_order(ctx, repo):
    f = F.method(repo, "TDS", "fg_update", TDS)
    seq = ["system.dae.clear_fg", "system.l_update_var", "system.f_update", "system.l_update_eq", "system.g_update", "system.fg_to_dae"]
    nodes = [f.calls(x, exact=True) for x in seq]
    miss = [s_ for s_, n in zip(seq, nodes) if not n]
    ok = not miss
    wit = "missing %s" % miss
    if ok:
        for a, b, na, nb in zip(seq, seq[1:], nodes, nodes[1:]):
            o1, w1 = f.before(na, nb)
            if not o1:
                ok = False
                wit = "%s does not precede %s (%s)" % (a, b, w1)
                break
    ctx.check(ok, "C09.order", "TDS.fg_update", " -> ".join(x.split(".")[-1] for x in seq),
              "discrete-flag evaluation order changed: " + wit, f.W())
    sv = f.calls("system.s_update_var", exact=True)
    ok, w = f.before(sv, nodes[2]) if nodes[2] else (False, "")
    ctx.check(ok, "C09.order", "TDS.fg_update/services", "s_update_var before f_update", "VarService update no longer precedes the equations " + w, f.W())
    # power flow: frozen exception (eq-limiters after g_update), still var-limiters first and collection last
    p = F.method(repo, "PFlow", "fg_update", PFLOW)
    a = p.calls("system.l_update_var", exact=True)
    b = p.calls("system.f_update", exact=True) + p.calls("system.g_update", exact=True)
    c = p.calls("system.l_update_eq", exact=True)
    d = p.calls("system.fg_to_dae", exact=True)
    ok = bool(a and b and c and d) and p.before(a, b)[0] and p.before(b, c)[0] and p.before(c, d)[0]
    ctx.check(ok, "C09.order", "PFlow.fg_update", "l_update_var -> f,g -> l_update_eq -> fg_to_dae (frozen variant: eq-limiters after g)",
              "power-flow flag evaluation order changed", p.W())
    # Model.l_update_var / l_check_eq dispatch every discrete that declares the capability
    m = F.method(repo, "Model", "l_update_var", "andes/core/model/model.py")
    ok = False
    for lp, e in Q.loops(m.fn, "self.discrete.values()", "$i"):
        if Q.has("$i.check_var(dae_t=dae_t, niter=niter, err=err)", lp, e) and "has_check_var" in src(lp):
            ok = True
    ctx.check(ok, "C09.order", "Model.l_update_var", "every discrete with has_check_var gets check_var(dae_t, niter, err)",
              "discrete components are no longer all evaluated with time/iteration info", m.W())
    m = F.method(repo, "Model", "l_check_eq", "andes/core/model/model.py")
    ok = len([1 for lp, e in Q.loops(m.fn, "self.discrete.values()", "$i") if "has_check_eq" in src(lp) and "check_eq(" in src(lp)]) >= 2
    ctx.check(ok, "C09.order", "Model.l_check_eq", "every discrete with has_check_eq gets check_eq (init and run variants)",
              "equation-dependent limiters are no longer all evaluated", m.W())


def rule_case_split(ctx, repo):
    """Switcher flags.  (The time case splits and the (time, value) pairing of Delay / Sampling were shape rules here; they are
    now decided behaviourally by C09.history, which interprets the methods over every ADVANCE/REPEAT/REWIND pattern -- the shape
    rules raised a false alarm on a behaviour-preserving restructuring of Sampling.check_var and were withdrawn.)"""
    # Switcher: one flag per option compared with that option
    ci, fn = repo.method("Switcher", "check_var", DISC)
    ok = False
    for lp, e in Q.loops(fn, "range(len(self.options))", "$i"):
        if Q.has("self.__dict__[f's{$i}'][:] = np.equal(self.u.v, self.options[$i])", lp, e):
            ok = True
    ctx.check(ok, "C09.case-split", "Switcher.check_var", "flag s_i = [u == options[i]]", "switcher flags no longer compare with their own option", repo.W(ci, fn))


def run(ctx):
    ctx.rule("C09.limiter", "Limiter/HardLimiter/DeadBand/LessThan/IsEqual interpreted on every order type of (u, lower', upper') x "
             "equal x no_lower/no_upper x signs x enable: flags agree with comparisons, exhaustive, one-hot", 5)
    ctx.rule("C09.antiwindup", "AntiWindup.check_eq on order types x sign(e) x niter vs lock x previous flags: flag conditions, clamp "
             "algebra (e=0, v=limit), x_set rebuilt; RateLimiter clip; AntiWindupRate order", 3)
    ctx.rule("C09.deadband-rt", "DeadBandRT over all 27 three-step histories vs the documented set/hold/clear rule", 1)
    ctx.rule("C09.tautology", "no comparison of an expression with itself in discrete.py", 1)
    ctx.rule("C09.xset", "x_set producer tuple vs its three consumers", 4)
    ctx.rule("C09.order", "flag evaluation order in TDS.fg_update / PFlow.fg_update / Model dispatch", 5)
    ctx.rule("C09.history", "Delay / Average / Derivative interpreted over every ADVANCE/REPEAT/REWIND call pattern (symbolic samples) "
             "vs the definition evaluated on the accepted history", 9)
    ctx.rule("C09.case-split", "Switcher: one flag per option, compared with that option", 1)
    ctx.assume("one array element is interpreted as a scalar; do_adjust_* (initialisation-time limit adjustment) is skipped (is_init=False)")
    ctx.assume("'never leaves [lower, upper] at any stored instant' inside a simulation and delay interpolation accuracy: declined")
    repo = Repo()
    rule_limiter(ctx, repo)
    rule_antiwindup(ctx, repo)
    rule_deadband_rt(ctx, repo)
    rule_xset(ctx, repo)
    rule_order(ctx, repo)
    rule_case_split(ctx, repo)
    from rules import c09_history
    c09_history.run(ctx, repo)
    ctx.extra["exhaustive"] = True
