"""C06.once -- one call of TDS.do_switch hands a model to `switch_action` at most once.

`switch_action(models)` makes every model in `models` fire the events whose time equals the current time; calling it a second time at
the same time with an overlapping set fires them again (a Toggle flips back).  Rule on the CFG of do_switch: if a path passes two
`switch_action` calls, the argument of the later one is (re)defined between the two from a filter that excludes the keys of the
earlier one's argument."""
import ast

from engine.pysrc import F, dotted, src

TDS = "andes/routines/tds.py"


def _filters_out(value, first_arg_texts):
    """value is a comprehension / generator (possibly wrapped in a constructor call) with an `if <k> not in X` where X is one of
    first_arg_texts"""
    for n in ast.walk(value):
        if isinstance(n, ast.comprehension):
            for cond in n.ifs:
                for c in ast.walk(cond):
                    if isinstance(c, ast.Compare) and len(c.ops) == 1 and isinstance(c.ops[0], ast.NotIn) and src(c.comparators[0]) in first_arg_texts:
                        return True
    return False


def run_rule(ctx, repo):
    f = F.method(repo, "TDS", "do_switch", TDS)
    calls = []
    for n in f.g.nodes():
        d = f.g.data(n)
        if d["kind"] != "stmt":
            continue
        for c in ast.walk(d["ast"]):
            if isinstance(c, ast.Call) and (dotted(c.func) or "").endswith("system.switch_action") and c.args:
                calls.append((n, c))
    if len(calls) < 1:
        ctx.undecided("C06.once", "TDS.do_switch", "no switch_action call recognised", f.W())
        return
    pairs = [(a, b) for a in calls for b in calls if a is not b and f.g.reachable(a[0], b[0]) and a[0] != b[0]]
    if not pairs:
        ctx.ok("C06.once", "TDS.do_switch/disjoint", "no path passes two switch_action calls", f.W())
        return
    for (n1, c1), (n2, c2) in pairs:
        e1, e2 = c1.args[0], c2.args[0]
        texts = {src(e1)}
        # one-step aliases of the first argument defined after the first call (`done = system.switch_dict[...]`)
        for n in f.g.nodes():
            d = f.g.data(n)
            if d["kind"] == "stmt" and isinstance(d["ast"], ast.Assign) and len(d["ast"].targets) == 1 and isinstance(d["ast"].targets[0], ast.Name) \
                    and src(d["ast"].value) in texts and f.g.reachable(n1, n) and f.g.reachable(n, n2):
                texts.add(d["ast"].targets[0].id)
        ok, why = False, "the later call's argument `%s` is not re-defined between the two calls" % src(e2)
        if isinstance(e2, ast.Name):
            defs = [n for n in f.g.nodes() if f.g.data(n)["kind"] == "stmt" and isinstance(f.g.data(n)["ast"], ast.Assign)
                    and any(isinstance(t, ast.Name) and t.id == e2.id for t in f.g.data(n)["ast"].targets)
                    and f.g.reachable(n1, n) and f.g.reachable(n, n2)]
            good = [n for n in defs if _filters_out(f.g.data(n)["ast"].value, texts)]
            if good:
                # value-sensitive pruning: a test `<flag> is True` / `<flag>` whose flag is set to True on every path from the first
                # call (and to nothing else in between) cannot take its false edge
                infeasible = []
                for t in f.g.nodes():
                    dt = f.g.data(t)
                    if dt["kind"] != "test" or not dt["expr"] or not (f.g.reachable(n1, t) and f.g.reachable(t, n2)):
                        continue
                    cond = dt["expr"][0]
                    nm = None
                    if isinstance(cond, ast.Name):
                        nm = cond.id
                    elif isinstance(cond, ast.Compare) and len(cond.ops) == 1 and isinstance(cond.ops[0], (ast.Is, ast.Eq)) and isinstance(cond.left, ast.Name) \
                            and isinstance(cond.comparators[0], ast.Constant) and cond.comparators[0].value is True:
                        nm = cond.left.id
                    if nm is None:
                        continue
                    sets = [n for n in f.g.nodes() if f.g.data(n)["kind"] == "stmt" and isinstance(f.g.data(n)["ast"], (ast.Assign, ast.AugAssign))
                            and any(isinstance(x, ast.Name) and x.id == nm and isinstance(x.ctx, ast.Store) for x in ast.walk(f.g.data(n)["ast"]))
                            and f.g.reachable(n1, n) and f.g.reachable(n, t)]
                    true_sets = [n for n in sets if isinstance(f.g.data(n)["ast"], ast.Assign) and isinstance(f.g.data(n)["ast"].value, ast.Constant)
                                 and f.g.data(n)["ast"].value.value is True]
                    if sets and len(sets) == len(true_sets) and f.g.must_pass(n1, t, true_sets)[0]:
                        infeasible += [(t, m) for m in f.g.succ_label(t, "false")]
                ok, pth = f.g.must_pass(n1, n2, good, infeasible_edges=infeasible)
                why = "" if ok else "a path from the first call to the second avoids the filter: %s" % f.g.fmt_path(pth or [])
            elif defs:
                why = "`%s` is re-defined between the calls but not filtered by the first call's models" % e2.id
        ctx.check(ok, "C06.once", "TDS.do_switch/disjoint@L%d" % f.g.line(n2),
                  "the second switch_action of a do_switch call excludes the models the first one has just switched",
                  "a path passes `%s` and then `%s`: %s -- models with an event at the current time fire it twice (a Toggle flips back) when "
                  "`custom_event` is raised in the step that ends at a scheduled event" % (src(c1)[:70], src(c2)[:60], why), f.W(n2))
