"""C15.index/Output.to_output_addr -- a query of stored results by variable returns the columns of the devices asked for, in device order.

With an Output selection only some addresses are stored; `to_output_addr` translates the DAE addresses of a variable into columns of the
stored matrix.  /order: the k-th element of the result is the column of the k-th *stored device of the variable* (device order, shared
addresses repeated), not the positions of the matching addresses in ascending order.  /sub-index: a device sub-index `a` selects devices
of the variable (as it does without Output), so it is handed to the translation and not applied to the compacted result.
Decided by evaluation (engine/tinyexec.py, NumPy functions passed through) and on the CFGs of the two callers."""
import ast

import numpy as np

from engine import astq as Q
from engine.pysrc import F, dotted, src
from engine.tinyexec import TinyExec, Fake
from engine.ordertype import Unsupported

OUTPUT = "andes/models/misc/output.py"
DAE = "andes/variables/dae.py"
PLOT = "andes/plot.py"


def run_rule(ctx, repo):
    f = F.method(repo, "Output", "to_output_addr", OUTPUT)

    class _Owner(Fake):
        class_name = "M"

    class _Var(Fake):
        def __init__(self, a, code):
            self.a, self.v_code, self.owner, self.name = np.array(a), code, _Owner(), "v"

    class _Out(Fake):
        def __init__(self):
            self.xidx, self.yidx = [2, 5, 7], [10, 14, 15, 16, 20]

        def in1d(self, addr, v_code):
            return np.isin(self.xidx if v_code == "x" else self.yidx, addr)
    stubs = {"np.where": np.where, "np.isin": np.isin, "np.array": np.array, "np.asarray": np.asarray, "np.atleast_1d": np.atleast_1d,
             "np.take": np.take, "np.searchsorted": np.searchsorted, "np.argsort": np.argsort, "np.nonzero": np.nonzero, "np.flatnonzero": np.flatnonzero,
             "np.in1d": np.in1d, "np.concatenate": np.concatenate, "int": int, "enumerate": enumerate, "logger.info": lambda *a, **k: None,
             "logger.warning": lambda *a, **k: None, "logger.debug": lambda *a, **k: None}
    cases = [("device order", _Var([16, 14, 15], "y"), None, [3, 1, 2]),
             ("shared addresses (several devices at one bus)", _Var([14, 16, 14, 20, 16], "y"), None, [1, 3, 1, 4, 3]),
             ("partially stored", _Var([16, 99, 14], "y"), None, [3, 1]),
             ("states", _Var([7, 2], "x"), None, [2, 0]),
             ("nothing stored", _Var([1, 3], "x"), None, [])]
    has_a = any(p.arg == "a" for p in f.fn.args.args + f.fn.args.kwonlyargs)
    if has_a:
        cases += [("sub-index of a stored device", _Var([16, 14, 15], "y"), [1], [1]),
                  ("sub-index of a device that is not stored", _Var([99, 14, 15], "y"), [0], []),
                  ("sub-index order", _Var([16, 14, 15], "y"), [2, 0], [2, 3])]
    bad, und = [], None
    for what, var, a, want in cases:
        try:
            kw = dict(check=True)
            if a is not None:
                kw["a"] = a
            got = TinyExec(repo, "Output", OUTPUT, stubs=stubs).call("to_output_addr", _Out(), var, **kw)
        except Unsupported as ex:
            und = str(ex)
            break
        got = [int(x) for x in np.atleast_1d(got)] if got is not None else None
        if got != want:
            bad.append("%s: addresses %s%s over stored %s -> columns %s, expected %s" % (
                what, list(var.a), "" if a is None else " sub-index %s" % a, _Out().yidx if var.v_code == "y" else _Out().xidx, got, want))
    if und:
        ctx.undecided("C15.index", "Output.to_output_addr/order", "evaluator: %s" % und, f.W())
    else:
        ctx.check(not bad, "C15.index", "Output.to_output_addr/order", "columns follow the devices of the variable (order kept, shared addresses repeated, "
                  "devices that are not stored left out)", "; ".join(bad[:2]) + " -- get_data(var)[:, k] is not the series of device k", f.W())
    # callers
    for cls, meth, path in (("DAETimeSeries", "get_data", DAE), ("TDSData", "_process_yidx", PLOT)):
        g = F.method(repo, cls, meth, path)
        calls = [(n, c) for n in g.g.nodes() if g.g.data(n)["kind"] == "stmt" for c in ast.walk(g.g.data(n)["ast"])
                 if isinstance(c, ast.Call) and isinstance(c.func, ast.Attribute) and c.func.attr == "to_output_addr"]
        if not calls:
            ctx.undecided("C15.index", "%s.%s/sub-index" % (cls, meth), "call of to_output_addr not found", g.W())
            continue
        params = [p.arg for p in g.fn.args.args + g.fn.args.kwonlyargs]
        if "a" not in params:
            ctx.ok("C15.index", "%s.%s/sub-index" % (cls, meth), "no device sub-index parameter", g.W(), nontrivial=False)
            continue
        loops = [n for n in g.g.nodes() if g.g.data(n)["kind"] == "loop"]
        for n, c in calls:
            passed = any(k.arg == "a" and src(k.value) == "a" for k in c.keywords) or (len(c.args) >= 3 and src(c.args[2]) == "a")
            late = []
            for m in g.g.nodes():
                dm = g.g.data(m)
                if dm["kind"] != "stmt" or m == n:
                    continue
                uses = any((isinstance(x, ast.Subscript) and src(x.slice) == "a") or
                           (isinstance(x, ast.Call) and (dotted(x.func) or "").endswith("take") and len(x.args) >= 2 and src(x.args[1]) == "a")
                           for x in ast.walk(dm["ast"]))
                if uses and g.g.reachable(n, m, avoid=loops):
                    late.append(m)
            ctx.check(passed and not late, "C15.index", "%s.%s/sub-index" % (cls, meth),
                      "with an Output selection the device sub-index is handed to the address translation",
                      "the device sub-index `a` is %s: it addresses the k-th *stored* device instead of device k (another device's series is "
                      "returned, or IndexError for a stored device)" % ("applied to the translated columns at L%d" % g.g.line(late[0]) if late
                                                                         else "not passed to to_output_addr"), g.W(n))
