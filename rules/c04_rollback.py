"""C04.rollback -- a rejected step leaves the clock where it was.

The integration loop keeps the clock one step AHEAD (it holds the end time of the step being attempted); a rejected step moves it
back.  That is only right if the clock has been advanced for the rejected attempt.  Rule, on the CFG of TDS.run:

  for every statement that moves the clock backwards (`dae.t -= ...`, or a plain write of dae.t outside the advance helper) either
   (a) every path from the function entry passes a clock advance after the last call that (re)initialises the simulation, or
   (b) it is guarded by a typestate attribute: an attribute that is set (non-None / True) only inside the advance helper and is
       cleared by init()/reset(); the guard then implies (a).
  and every rollback is followed, on every path back to the loop head, by a clock advance (or the run is aborted) under the same guard.

Slots are filled from the source: the advance helper(s) by rules/tdscommon.advance_helpers, the (re)initialising calls are the
methods of TDS that write `dae.t` to a constant / call reset."""
import ast

from engine import astq as Q
from engine.pysrc import F, dotted, src
from engine.cfg import walk_noscope
from rules import tdscommon

TDS = "andes/routines/tds.py"


def _writes_clock(st):
    """statement writes dae.t (any form)"""
    tg = []
    if isinstance(st, ast.Assign):
        tg = st.targets
    elif isinstance(st, ast.AugAssign):
        tg = [st.target]
    for t in tg:
        base = t.value if isinstance(t, ast.Subscript) else t
        if (dotted(base) or "").endswith("dae.t"):
            return True
    return False


def typestate_attrs(repo, helpers):
    """attributes `self.X` of TDS that are assigned a non-None / non-False value only inside an advance helper and are cleared (None /
    False) in init() or reset()"""
    ci = repo.cls("TDS", TDS)
    setters, clearers = {}, {}
    for name, fn in ci.methods.items():
        for st in walk_noscope(fn):
            if isinstance(st, ast.Assign) and len(st.targets) == 1 and (dotted(st.targets[0]) or "").startswith("self."):
                a = dotted(st.targets[0])
                cleared = isinstance(st.value, ast.Constant) and st.value.value in (None, False)
                (clearers if cleared else setters).setdefault(a, set()).add(name)
    out = set()
    for a, where in setters.items():
        if where <= set(helpers) and (clearers.get(a, set()) & {"init", "reset"}):
            out.add(a)
    return out


def touchers(repo, attrs):
    """TDS methods that (transitively, through self.m() calls) assign one of the attributes"""
    ci = repo.cls("TDS", TDS)
    direct = {name for name, fn in ci.methods.items()
              if any(isinstance(x, ast.Attribute) and isinstance(x.ctx, ast.Store) and dotted(x) in attrs for x in walk_noscope(fn))}
    out = set(direct)
    changed = True
    while changed:
        changed = False
        for name, fn in ci.methods.items():
            if name in out:
                continue
            for c in ast.walk(fn):
                if isinstance(c, ast.Call) and (dotted(c.func) or "").startswith("self.") and (dotted(c.func) or "")[5:] in out:
                    out.add(name)
                    changed = True
                    break
    return out


def run_rule(ctx, repo):
    f = F.method(repo, "TDS", "run", TDS)
    helpers = tdscommon.advance_helpers(repo)
    adv = set(tdscommon.clock_nodes(repo, f))
    # calls of TDS methods that advance on every path (init_resume -> _advance_time)
    ci = repo.cls("TDS", TDS)
    adv_methods = set(helpers)
    for name, fn in ci.methods.items():
        if name in ("run",) or name in adv_methods:
            continue
        g = F(repo, ci, fn)
        a2 = tdscommon.clock_nodes(repo, g)
        if a2 and g.g.must_pass(g.g.entry, g.g.exit, a2)[0]:
            adv_methods.add(name)
    for n in f.g.nodes():
        d = f.g.data(n)
        if d["kind"] == "stmt" and isinstance(d["ast"], ast.Expr) and isinstance(d["ast"].value, ast.Call):
            c = dotted(d["ast"].value.func) or ""
            if c.startswith("self.") and c[5:] in adv_methods:
                adv.add(n)
    back = [n for n in f.g.nodes() if f.g.data(n)["kind"] == "stmt" and _writes_clock(f.g.data(n)["ast"]) and n not in adv]
    # the branch taken after a failed attempt: tests on the local that holds the result of the stepping call
    status = {t_.id for n in f.g.nodes() if f.g.data(n)["kind"] == "stmt" and isinstance(f.g.data(n)["ast"], ast.Assign)
              and isinstance(f.g.data(n)["ast"].value, ast.Call) and (dotted(f.g.data(n)["ast"].value.func) or "") in ("self.itm_step", "self._csv_step")
              for t_ in f.g.data(n)["ast"].targets if isinstance(t_, ast.Name)}
    loops0 = [n for n in f.g.nodes() if f.g.data(n)["kind"] == "loop" and isinstance(f.g.data(n)["ast"], ast.While)]
    fail_succ = []
    for t_ in f.g.nodes():
        d_ = f.g.data(t_)
        if d_["kind"] == "test" and d_["expr"] and isinstance(d_["expr"][0], ast.Name) and d_["expr"][0].id in status:
            fail_succ += f.g.succ_label(t_, "false")
    double = []
    for a_ in adv:
        for m_ in fail_succ:
            if (m_ == a_ or f.g.reachable(m_, a_, avoid=loops0)) and not (back and f.g.must_pass(m_, a_, back)[0]):
                # under a typestate guard shared with the rollback the path that skips the rollback also skips the advance: checked below
                double.append((m_, a_))
    if not back:
        ctx.check(not double, "C04.rollback", "TDS.run/rollback", "a rejected attempt does not advance the clock a second time",
                  "after a rejected step the clock is advanced again (`%s`) without having been moved back: the retry is stored %s later than "
                  "it was computed for" % (src(f.g.data(double[0][1])["ast"]) if double else "", "one step"), f.W(double[0][1]) if double else f.W())
        ctx.ok("C04.rollback", "TDS.run/re-advance", "no rollback statement", f.W(), nontrivial=False)
        return
    clock_discipline(ctx, repo)
    ts_attrs = typestate_attrs(repo, helpers)
    step_size_after_rollback(ctx, repo, f, back, fail_succ, loops0, ts_attrs)
    loops = [n for n in f.g.nodes() if f.g.data(n)["kind"] == "loop" and isinstance(f.g.data(n)["ast"], ast.While)]
    for r in back:
        st = f.g.data(r)["ast"]
        ok_a, pth = f.g.must_pass(f.g.entry, r, sorted(adv))
        guard = None
        if not ok_a:
            # (b) typestate guard
            for t, pol in (Q.path_condition(f.fn, st) or []):
                t2 = Q.subst_bool_locals(f.fn, t)
                leaves = Q._bool_leaves(t2, [])
                for l in leaves:
                    l0, neg = Q.norm_leaf(l)
                    txt = src(l0)
                    for a in ts_attrs:
                        if txt in (a, "%s is None" % a) and isinstance(t2, (ast.Compare, ast.Name, ast.Attribute, ast.UnaryOp)):
                            # polarity: the rollback must sit on the branch where the attribute is set
                            is_none_test = txt.endswith("is None")
                            val = Q._bool_eval(t2, lambda e, _l=l: True)      # truth of the whole test when the leaf is true
                            leaf_true_means_set = (not is_none_test) != neg
                            on_set_branch = (val == pol) if leaf_true_means_set else (val != pol)
                            if len(leaves) == 1 and on_set_branch:
                                guard = a
        ctx.check(ok_a or guard is not None, "C04.rollback", "TDS.run/rollback@%s" % src(st)[:40],
                  "the clock is moved back only if it has been advanced for the rejected attempt%s" % (
                      " (typestate guard `%s`: set only by %s, cleared by init/reset)" % (guard, sorted(helpers)) if guard else ""),
                  "the rejected-step branch moves the clock back (`%s`) on a path on which it was never advanced: %s -- the step attempted "
                  "right after init() is rejected => the simulation continues from a time below t0 and stores negative time stamps" % (
                      src(st), f.g.fmt_path(pth or [])), f.W(r))
        # the rollback is followed by an advance (or an abort) before the next attempt
        if loops:
            aborts = [n for n in f.g.nodes() if f.g.data(n)["kind"] == "stmt" and (isinstance(f.g.data(n)["ast"], ast.Break) or
                                                                                 Q.match("self.busted = True", f.g.data(n)["ast"]))]
            # correlated guards: a later test with the same condition as the test that guards the rollback (over names bound once in
            # the function) takes the same branch
            infeasible = []
            pc = Q.path_condition(f.fn, st) or []
            touch = touchers(repo, ts_attrs)
            for t, pol in pc:
                names = {x.id for x in ast.walk(t) if isinstance(x, ast.Name) and x.id != "self"}
                attrs = {dotted(x) for x in ast.walk(t) if isinstance(x, ast.Attribute)}
                once = all(sum(1 for y in ast.walk(f.fn) if isinstance(y, ast.Name) and y.id == nm and isinstance(y.ctx, ast.Store)) == 1 for nm in names)
                if not once or any(isinstance(x, ast.Call) for x in ast.walk(t)) or not (attrs <= ts_attrs) or not (names or attrs):
                    continue
                for t2 in f.g.nodes():
                    d2 = f.g.data(t2)
                    if not (d2["kind"] == "test" and d2["expr"] and d2["expr"][0] is not t and f.g.reachable(r, t2)):
                        continue
                    eq = Q.cond_equiv(Q.subst_bool_locals(f.fn, d2["expr"][0]), Q.subst_bool_locals(f.fn, t))
                    if eq == 0:
                        continue
                    attrs2 = {dotted(x) for x in ast.walk(Q.subst_bool_locals(f.fn, d2["expr"][0])) if isinstance(x, ast.Attribute)}
                    if not (attrs2 <= ts_attrs):
                        continue
                    # the typestate attributes in the condition are not touched between the rollback and the second test
                    dirty = False
                    for m in f.g.nodes():
                        dm = f.g.data(m)
                        if dm["kind"] != "stmt" or m == r:
                            continue
                        calls = [dotted(c.func) or "" for c in ast.walk(dm["ast"]) if isinstance(c, ast.Call)]
                        writes = any(isinstance(x, ast.Attribute) and isinstance(x.ctx, ast.Store) and dotted(x) in attrs for x in ast.walk(dm["ast"]))
                        if (writes or any(c.startswith("self.") and c[5:] in touch for c in calls)) and f.g.reachable(r, m, avoid=[t2]) and f.g.reachable(m, t2):
                            dirty = True
                    if not dirty:
                        same_branch = pol if eq == 1 else (not pol)
                        infeasible += [(t2, m) for m in f.g.succ_label(t2, "false" if same_branch else "true")]
            ok_b, pth_b = f.g.must_pass(r, loops[0], sorted(adv) + aborts, infeasible_edges=infeasible)
            ctx.check(ok_b, "C04.rollback", "TDS.run/re-advance@%s" % src(st)[:40], "after a rollback the clock is advanced again before the next attempt",
                      "after the rollback `%s` the loop can start the next attempt without advancing the clock: %s" % (src(st), f.g.fmt_path(pth_b or [])), f.W(r))


def step_size_after_rollback(ctx, repo, f, back, fail_succ, loops, ts_attrs):
    """calc_h clips the step against tf - t and the next event time - t, so in the rejected-step branch it must see the clock at the START
    of the retried step: every path from the rejection to a calc_h call passes the rollback decision (the rollback itself, or the test of the
    typestate attribute that guards it)."""
    calcs = [n for n in f.calls("self.calc_h")]
    guards = []
    for r in back:
        for t_, _pol in (Q.path_condition(f.fn, f.g.data(r)["ast"]) or []):
            t2 = Q.subst_bool_locals(f.fn, t_)
            if {dotted(x) for x in ast.walk(t2) if isinstance(x, ast.Attribute)} & ts_attrs:
                guards += [n for n in f.g.nodes() if f.g.data(n)["kind"] == "test" and f.g.data(n)["expr"] and f.g.data(n)["expr"][0] is t_]
    for c in calcs:
        starts = [m for m in fail_succ if m == c or f.g.reachable(m, c, avoid=loops)]
        if not starts:
            continue
        ok = all(m == c and False or f.g.must_pass(m, c, list(back) + guards)[0] for m in starts)
        ctx.check(ok, "C04.rollback", "TDS.run/calc_h-after-rollback@L%d" % f.g.line(c),
                  "in the rejected-step branch the new step size is computed after the clock went back to the start of the step",
                  "calc_h() at L%d runs before the clock is moved back: the step is clipped against tf and the next event from the END of the "
                  "rejected step, so the retry can be cut to h = 0 at tf or jump to tf over a much longer stamp gap than the step integrated" % f.g.line(c), f.W(c))


def clock_discipline(ctx, repo):
    """every write of the clock in the time-domain routine is one of: the step actually integrated (`+= self.h`), the exact landing time
    recorded with that step, the recorded pre-advance time (rollback), or a reset to the initial time.  Advancing by any other quantity
    (`+= self.deltat`, the proposed step before clipping) stores a step under a time it was not integrated to."""
    ci = repo.cls("TDS", TDS)
    helpers = tdscommon.advance_helpers(repo)
    targets = set()
    for h in helpers.values():
        targets |= set(h.get("targets", []))
    ts = typestate_attrs(repo, helpers)
    n = 0
    for mname, fn in ci.methods.items():
        for st in walk_noscope(fn):
            if not isinstance(st, (ast.Assign, ast.AugAssign)) or not _writes_clock(st):
                continue
            n += 1
            val = src(st.value)
            if isinstance(st, ast.AugAssign):
                tgt = src(st.target)
                ok = (isinstance(st.op, ast.Add) and val == "self.h") or (isinstance(st.op, ast.Sub) and val == tgt) \
                    or (isinstance(st.op, ast.Sub) and val == "self.h")
            else:
                v = st.value
                const = isinstance(v, ast.Constant) or (isinstance(v, ast.Call) and (dotted(v.func) or "").endswith("array") and v.args
                                                        and isinstance(v.args[0], (ast.Constant, ast.UnaryOp)))
                ok = const or val in targets or val in ts
            ctx.check(ok, "C04.rollback", "TDS.%s/clock-write@%s" % (mname, src(st)[:34]),
                      "the clock is written with the integrated step, its recorded landing time, the recorded pre-advance time or a reset",
                      "`%s` in TDS.%s moves the clock by something other than the step that is integrated (self.h) or its recorded landing / "
                      "pre-advance time: the state computed for t + h is stored under another time" % (src(st), mname), repo.W(ci, st))
    return n
