"""C04 -- every accepted simulation step satisfies the implicit integration rule.

Decided: residual/iteration-matrix pair == theta-rule of the registered method; scaling pair;
update sign table; save/restore pairing on rejection; step-size clipping invariants (small abstract
interpreter over calc_h); acceptance dominated by the bare-tolerance test. Per-step numerical
satisfaction and convergence order are declined."""
import ast

import sympy as sp

from engine import astq as Q
from engine.cfg import walk_noscope
from engine.pyexpr import to_sympy, PyExprError
from engine.pysrc import Repo, F, dotted, src, calls_in, literal
from rules import tdscommon
from engine.report import AnalysisError

DAEINT = "andes/routines/daeint.py"
TDS = "andes/routines/tds.py"

THETA = {"trapezoid": sp.Rational(1, 2), "backeuler": sp.Integer(1)}   # independent table (textbook)


def rule_methods(ctx, repo):
    mod = repo.module(DAEINT)
    mm = None
    for n in mod.body:
        if isinstance(n, ast.Assign) and dotted(n.targets[0]) == "method_map" and isinstance(n.value, ast.Dict):
            mm = {k.value: dotted(v) for k, v in zip(n.value.keys, n.value.values)}
    if not mm:
        raise AnalysisError("daeint.method_map vanished")
    x, f, Tf, h, x0, f0 = sp.symbols("x f Tf h x0 f0")
    for name, cls in sorted(mm.items()):
        if name not in THETA:
            ctx.undecided("C04.rule", "method_map[%s]" % name, "no reference weight for this method name")
            continue
        th = THETA[name]
        q = F.method(repo, cls, "calc_q", DAEINT)
        a = [p.arg for p in q.fn.args.args]
        rets = [n for n in walk_noscope(q.fn) if isinstance(n, ast.Return)]
        if len(rets) != 1 or len(a) != 6:
            raise AnalysisError("%s.calc_q changed shape" % cls)
        ren = dict(zip(a, [x, f, Tf, h, x0, f0]))
        try:
            got = to_sympy(rets[0].value, ren)
        except PyExprError as e:
            ctx.undecided("C04.rule", "%s.calc_q" % cls, "front-end: %s" % e, q.W())
            continue
        ref = Tf * (x - x0) - h * (th * f + (1 - th) * f0)
        d = sp.expand(got - ref)
        ctx.check(d == 0, "C04.rule", "%s.calc_q" % cls, "== Tf(x-x0) - h(%s f + %s f0)" % (th, 1 - th),
                  "residual of method '%s' differs from the %s rule by %s" % (name, name, d), q.W())
        # iteration matrix = d(residual)/d(x,y): [[Teye - h th fx, -h th fy],[gxs, gys]] as kvxopt block columns
        j = F.method(repo, cls, "calc_jac", DAEINT)
        rets = [n for n in walk_noscope(j.fn) if isinstance(n, ast.Return)]
        m = Q.match("sparse([[$a11, $a21], [$a12, $a22]], 'd')", rets[0].value) if len(rets) == 1 else None
        if m is None:
            ctx.undecided("C04.rule", "%s.calc_jac" % cls, "unrecognised matrix shape", j.W())
            continue
        pa = [p.arg for p in j.fn.args.args]
        ren = {"tds.Teye": "Teye", "tds.h": "h", pa[1]: "gxs", pa[2]: "gys"}
        for k in ("fx", "fy"):
            ren["dae." + k] = k
            ren["tds.system.dae." + k] = k
        try:
            got = {k: to_sympy(m[k], ren) for k in ("a11", "a21", "a12", "a22")}
        except PyExprError as e:
            ctx.undecided("C04.rule", "%s.calc_jac" % cls, "front-end: %s" % e, j.W())
            continue
        Teye, hh, fx, fy, gxs, gys = sp.symbols("Teye h fx fy gxs gys")
        ref = {"a11": Teye - hh * th * fx, "a21": gxs, "a12": -hh * th * fy, "a22": gys}
        bad = {k: sp.expand(got[k] - ref[k]) for k in ref if sp.expand(got[k] - ref[k]) != 0}
        ctx.check(not bad, "C04.rule", "%s.calc_jac" % cls,
                  "== d(calc_q; g)/d(x; y) = [[Teye - h*%s*fx, -h*%s*fy],[gxs, gys]]" % (th, th),
                  "iteration matrix is not the derivative of the residual: block differences %s" % bad, j.W())


def rule_step(ctx, repo):
    s = F.method(repo, "ImplicitIter", "step", DAEINT)
    fn = s.fn
    g = s.g
    loop = [n for n in g.nodes() if g.data(n)["kind"] == "loop"]
    if not loop:
        raise AnalysisError("ImplicitIter.step: Newton loop vanished")
    loop = loop[0]

    # --- save before the loop
    for arr in ("x", "y", "f"):
        sv = [n for n in g.nodes() if g.data(n)["kind"] == "stmt" and Q.match("tds.%s0[:] = dae.%s" % (arr, arr), g.data(n)["ast"])]
        ok, wit = s.before(sv, [loop])
        ctx.check(ok, "C04.restore", "step/save-%s" % arr, "tds.%s0[:] = dae.%s dominates the Newton loop" % (arr, arr),
                  "start-of-step %s is not saved before iterating: %s" % (arr, wit), s.W())
    # --- restore on every non-converged exit.  Decided on truth tables: the restore statements can only be reached with
    # `tds.converged` False, and every test that splits on that flag after the loop sends its not-converged branch through them
    flag = "tds.converged"
    tests = [t for t in g.nodes() if g.data(t)["kind"] == "test" and g.data(t)["expr"] and Q.forced_label(g.data(t)["expr"][0], flag, False)
             and g.reachable(loop, t) and not g.reachable(t, loop)]
    if tests:
        t = tests[0]
        lab = Q.forced_label(g.data(t)["expr"][0], flag, False)
        for arr in ("x", "y", "f"):
            rs = [n for n in g.nodes() if g.data(n)["kind"] == "stmt" and (
                Q.match("dae.%s[:] = np.array(tds.%s0)" % (arr, arr), g.data(n)["ast"]) or
                Q.match("dae.%s[:] = tds.%s0" % (arr, arr), g.data(n)["ast"]) or
                Q.match("dae.%s[:] = tds.%s0[:]" % (arr, arr), g.data(n)["ast"]) or
                Q.match("np.copyto(dae.%s, tds.%s0)" % (arr, arr), g.data(n)["ast"]))]
            rs = [n for n in rs if Q.sat_atom_values(fn, g.data(n)["ast"], flag) == {False}]
            okr = bool(rs) and all(g.must_pass(m, g.exit, rs)[0] or m in rs for m in g.succ_label(t, lab))
            ctx.check(okr, "C04.restore", "step/restore-%s" % arr,
                      "dae.%s restored from %s0 on every non-converged exit" % (arr, arr),
                      "a rejected step can leave dae.%s modified (no restore from tds.%s0 on the non-converged path)" % (arr, arr),
                      s.W(t))
        v2m = [n for n in s.calls("system.vars_to_models") if Q.sat_atom_values(fn, g.data(n)["ast"], flag) == {False}]
        ctx.check(bool(v2m), "C04.restore", "step/restore-models", "vars_to_models() after restoring",
                  "restored values are not propagated to the models", s.W(t))
    else:
        ctx.violation("C04.restore", "step/restore", "no test on `tds.converged` after the Newton loop whose not-converged branch restores the state", s.W())
    # zero step refused before touching state
    z = s.tests(lambda c: c.replace(" ", "") == "tds.h==0")
    ok = bool(z) and any(g.guarded_by(r, z[0], "true") for r in s.returns(lambda v: src(v) == "False"))
    ctx.check(ok, "C04.restore", "step/zero-h", "h == 0 returns False before any state change",
              "zero step size is no longer refused", s.W())

    # --- residual freshness and order inside one iteration
    fgu = s.calls("tds.fg_update")
    cq = s.calls("tds.method.calc_q")
    cj = s.calls("tds.method.calc_jac")
    sol = s.calls("tds.solver.solve") + s.calls("tds.solver.linsolve")
    if not (cq and cj and sol):
        raise AnalysisError("ImplicitIter.step: calc_q/calc_jac/solve calls vanished")
    ok, wit = s.between([loop], cq + cj, fgu)
    ctx.check(bool(fgu) and ok, "C04.rule", "step/fresh-residual", "fg_update() precedes calc_q/calc_jac in every iteration",
              "residual/Jacobian assembled without re-evaluating f,g: " + wit, s.W())
    e = Q.first("tds.qg[:dae.n] = tds.method.calc_q(dae.x, dae.f, dae.Tf, tds.h, tds.x0, tds.f0)", fn)[0]
    ctx.check(e is not None, "C04.rule", "step/calc_q-args", "calc_q(x, f, Tf, h, x0, f0) -> qg[:n]",
              "calc_q is not called with (dae.x, dae.f, dae.Tf, tds.h, tds.x0, tds.f0) into qg[:n]", s.W())
    e = Q.first("tds.Ac = tds.method.calc_jac(tds, $gxs, $gys)", fn)[1]
    ok = e is not None
    # --- scaling pair
    if ok:
        gt = s.tests("tds.config.g_scale > 0")
        sc = {}
        for tn in gt:
            for n in g.nodes():
                if g.data(n)["kind"] != "stmt":
                    continue
                a = g.data(n)["ast"]
                for br in ("true", "false"):
                    if not g.guarded_by(n, tn, br):
                        continue
                    for key, pat in (("gx", "$gxs = $k * dae.gx"), ("gy", "$gys = $k * dae.gy"), ("g", "tds.qg[dae.n:] = $k * dae.g")):
                        m = Q.match(pat, a, e if key != "g" else None)
                        if m and br == "true":
                            sc[(key, "true")] = src(m["k"])
                    for key, pat in (("gx", "$gxs = dae.gx"), ("gy", "$gys = dae.gy"), ("g", "tds.qg[dae.n:] = dae.g")):
                        m = Q.match(pat, a, e if key != "g" else None)
                        if m and br == "false":
                            sc[(key, "false")] = "1"
        want = {(k, b) for k in ("gx", "gy", "g") for b in ("true", "false")}
        same = len({sc.get((k, "true")) for k in ("gx", "gy", "g")}) == 1 and sc.get(("g", "true")) is not None
        ctx.check(set(sc) == want and same, "C04.scale", "step/g_scale",
                  "gx, gy and g scaled by the same factor %s under the same guard" % sc.get(("g", "true")),
                  "algebraic rows of matrix and residual are scaled inconsistently: %s" % sc, s.W())
    else:
        ctx.violation("C04.rule", "step/calc_jac-args", "calc_jac(tds, gxs, gys) -> tds.Ac call not found", s.W())

    # --- linear solve and update sign table: Ac*inc = +q, x -= inc
    e = Q.first("$inc = tds.solver.solve(tds.Ac, matrix(tds.qg))", fn)[1]
    ok = e is not None and Q.has("$inc = tds.solver.linsolve(tds.Ac, matrix(tds.qg))", fn, e)
    ok = ok and Q.has("dae.x -= $inc[:dae.n].ravel()", fn, e) and Q.has("dae.y -= $inc[dae.n:dae.n + dae.m].ravel()", fn, e)
    ctx.check(ok, "C04.sign", "step/update", "Ac*inc = q ; x -= inc[:n] ; y -= inc[n:n+m]",
              "Newton update no longer solves Ac*inc = qg and subtracts inc split at dae.n", s.W())
    upd = s.assigns("dae.x", aug=True) + s.assigns("dae.y", aug=True)
    ok, wit = s.after(upd, s.calls("system.vars_to_models"))
    ctx.check(ok, "C04.sign", "step/propagate", "vars_to_models() after the update", "update not propagated: " + wit, s.W())

    # --- anti-windup override of q at x_set addresses: the exception named by the property
    ok = False
    for lp, e1 in Q.loops(fn, "system.antiwindups", "$item"):
        for lp2, e2 in Q.loops(lp, "$item.x_set", "($key, $_, $eqval)", e1):
            if Q.has("np.put(tds.qg, $key, $eqval)", lp2, e2):
                ok = True
    aw = [n for n in g.nodes() if g.data(n)["kind"] == "loop" and isinstance(g.data(n)["ast"], ast.For)
          and Q.match("system.antiwindups", g.data(n)["ast"].iter) is not None]
    ok2, wit = s.between(cq, sol, aw) if aw else (False, "")
    ctx.check(ok and ok2, "C04.rule", "step/antiwindup-override", "qg at pegged addresses overwritten between calc_q and the solve",
              "anti-windup residual override missing or misplaced " + wit, s.W())

    # --- acceptance
    sets = [n for n in s.assigns("tds.converged") if Q.match("tds.converged = True", g.data(n)["ast"])]
    e = Q.first("$mis = abs($mi)", fn)[1]
    ok_chain = False
    tol_tests = []
    if e is not None:
        e2 = Q.first("$mi = $inc[$arg]", fn, e)[1]
        if e2 is not None and Q.has("$arg = np.argmax(np.abs($inc))", fn, e2):
            ok_chain = True
        for tn in g.nodes():
            d = g.data(tn)
            if d["kind"] == "test" and (Q.match("abs($mis) <= tds.config.tol", d["ast"].test, e) or
                                        Q.match("$mis <= tds.config.tol", d["ast"].test, e) or
                                        Q.match("abs($mis) < tds.config.tol", d["ast"].test, e)):
                tol_tests.append(tn)
    # decided on truth tables: an assignment `tds.converged = True` is reachable only if the bare-tolerance test holds or the documented
    # chattering escape is taken (`tds.chatter`); with both false its enclosing conditions are unsatisfiable
    tolpats = ()
    if e is not None:
        m_ = src(e["mis"])
        # canonical forms (a <= b is read as not b < a)
        tolpats = ("tds.config.tol < abs(%s)" % m_, "tds.config.tol < %s" % m_, "abs(%s) < tds.config.tol" % m_)
    n_tol = n_chat = n_other = 0
    for st in sets:
        sa = Q.sat_assignments(fn, g.data(st)["ast"], [tolpats or ("__none__",), "tds.chatter"]) or set()
        # first atom: True means `tol < |mis|` (test failed) for the first two patterns; the strict form `|mis| < tol` is True when passed
        passed = set()
        for av in sa:
            tol_ok = None
            pc_src = " ".join(src(t_) for t_, _ in (Q.path_condition(fn, g.data(st)["ast"]) or []))
            strict = ("abs(%s) < tds.config.tol" % (src(e["mis"]) if e else "?")) in pc_src
            tol_ok = av[0] if strict else (not av[0])
            passed.add((tol_ok, av[1]))
        if (False, False) in passed or not passed:
            n_other += 1
        elif any(p[0] for p in passed) and not any((not p[0]) and p[1] for p in passed):
            n_tol += 1
        elif all(p[0] or p[1] for p in passed):
            if any(p[0] for p in passed):
                n_tol += 1
            if any((not p[0]) and p[1] for p in passed):
                n_chat += 1     # frozen exception: documented chattering escape
    ctx.check(ok_chain and n_tol >= 1 and n_other == 0, "C04.accept", "step/converged",
              "converged=True only under |max increment| <= bare config.tol (exception: tds.chatter escape, %d site)" % n_chat,
              "a step can be accepted without the bare-tolerance test on the max-abs increment "
              "(%d tol-guarded, %d chatter, %d unguarded success assignments; increment chain ok=%s)" % (n_tol, n_chat, n_other, ok_chain),
              s.W(sets[0]) if sets else s.W())
    # failure exits
    t = [src(g.data(n)["ast"].test) for n in g.nodes() if g.data(n)["kind"] == "test"]
    ok = any("isnan" in x for x in t) and any("tds.config.max_iter" in x and (">" in x or "<" in x) for x in t)
    ctx.check(ok, "C04.accept", "step/failure-exits", "NaN and iteration-limit exits present",
              "NaN / iteration-limit exit of the Newton loop removed", s.W())
    rets = s.returns()
    ok = all(src(g.data(n)["ast"].value) in ("tds.converged", "False") for n in rets)
    ctx.check(ok, "C04.accept", "step/return", "returns tds.converged", "step() does not return the convergence flag", s.W())


# ---------------------------------------------------------------------------
# step-size invariants: forward abstract interpretation over TDS.calc_h under fixt=1, no CSV replay
# abstract value of self.deltat / self.h:  LE (<= config.tstep)  |  TOP

LE, TOP = "LE", "TOP"


def _absval_deltat(stmt, cur):
    """transfer function for writes to self.deltat; returns new abstract value or None if not a write."""
    if Q.match("self.deltat = self._calc_h_first()", stmt):
        return "FIRST"
    if Q.match("self.deltat = min(config.tstep, self.deltat)", stmt) or Q.match("self.deltat = min(self.deltat, config.tstep)", stmt):
        return LE
    if Q.match("self.deltat = config.tstep", stmt) or Q.match("self.deltat = 0", stmt):
        return LE
    m = Q.match("self.deltat *= $c", stmt)
    if m:
        c = literal(m["c"])
        return cur if isinstance(c, (int, float)) and 0 < c <= 1 else TOP
    if isinstance(stmt, (ast.Assign, ast.AugAssign)):
        tg = stmt.targets if isinstance(stmt, ast.Assign) else [stmt.target]
        if any(dotted(t) == "self.deltat" for t in tg):
            return TOP
    return None


def _flow(f, var_transfer, init, prune):
    """forward dataflow over the CFG; prune(test_src) -> 'true'/'false'/None selects a single branch."""
    g = f.g
    state = {g.entry: init}
    work = [g.entry]
    while work:
        n = work.pop()
        st = state[n]
        d = g.data(n)
        out = st
        if d["kind"] == "stmt" and d["ast"] is not None:
            out = var_transfer(d["ast"], st)
        for m in g.g.successors(n):
            lab = g.g.edges[n, m]["label"]
            if d["kind"] == "test":
                p = prune(src(d["ast"].test))
                if p is not None and lab in ("true", "false") and lab != p:
                    continue
            new = out if m not in state else (out if state[m] == out else TOP)
            if m not in state or state[m] != new:
                state[m] = new
                work.append(m)
    return state


def rule_stepsize(ctx, repo):
    f = F.method(repo, "TDS", "calc_h", TDS)
    first = F.method(repo, "TDS", "_calc_h_first", TDS)

    def prune(t):
        t = t.replace(" ", "")
        if t in ("config.fixt", "self.config.fixt"):
            return "true"
        if t == "self.data_csvisnotNone":
            return "false"
        return None

    # _calc_h_first under fixt: value returned
    def tr_first(stmt, cur):
        v = _absval_deltat(stmt, cur)
        return cur if v is None else v
    st = _flow(first, tr_first, TOP, prune)
    rets = first.returns(lambda v: src(v) == "self.deltat")
    ok = bool(rets) and all(st.get(r) == LE for r in rets)
    ctx.check(ok, "C04.stepsize", "TDS._calc_h_first", "fixed-step mode: first step size is config.tstep",
              "with fixt=1 the first step size is not bounded by config.tstep", first.W())
    first_val = LE if ok else TOP

    def tr(stmt, cur):
        v = _absval_deltat(stmt, cur)
        if v == "FIRST":
            return first_val
        return cur if v is None else v
    st = _flow(f, tr, LE, prune)     # inductive invariant: deltat <= tstep on entry
    hs = [n for n in f.g.nodes() if f.g.data(n)["kind"] == "stmt" and Q.match("self.h = self.deltat", f.g.data(n)["ast"])]
    if not hs:
        raise AnalysisError("TDS.calc_h: `self.h = self.deltat` vanished")
    bad = [n for n in hs if st.get(n) != LE]
    ctx.check(not bad, "C04.stepsize", "TDS.calc_h/deltat<=tstep",
              "under fixt=1 every path reaching `self.h = self.deltat` has deltat <= config.tstep (inductive)",
              "with fixt=1 a path reaches `self.h = self.deltat` with a step size not bounded by config.tstep "
              "(last write is not config.tstep / min(config.tstep, .) / *= c<=1 / 0)", f.W(bad[0]) if bad else f.W())

    # the clipping of the step, decided by interpretation: calc_h is run by the scalar interpreter (engine/minterp.py) on one
    # representative per ordering of (proposed step D, time left to tf, time left to the next event), with and without a pending event;
    # the code only compares these quantities and subtracts them, so the orderings are exhaustive.  Post-condition:
    #     h == max(min(D, tf - t, [event - t]), 0)   -- never past the end time, never across an event, not shrunk without need
    from engine.minterp import MethodInterp
    from engine.ordertype import Unsupported
    import itertools
    bad, n_cases, undec = [], 0, None
    T0 = 1.0
    for D, left_tf, left_ev, has_ev, resume in itertools.product((1.0, 2.0, 3.0), (-1.0, 0.0, 0.5, 1.0, 1.5, 2.0, 2.5, 3.0, 3.5),
                                                                 (0.5, 1.0, 1.5, 2.0, 2.5, 3.0, 3.5), (True, False), (False, True)):
        state = {"self.system.dae.t": T0, "self.config.tf": T0 + left_tf, "self.config.t0": 0.0, "self.config.fixt": 1, "self.config.shrinkt": 1,
                 "self.config.tstep": D, "self.converged": True, "self.niter": 3, "self.deltat": D, "self.deltatmax": 100.0, "self.deltatmin": 1e-3,
                 "self._switch_idx": 0, "self.system.n_switches": 1 if has_ev else 0, "self.system.switch_times": T0 + left_ev,
                 "self.data_csv": None, "self.chatter": False, "self.busted": False, "self.err_msg": "", "self.h": 0.0, "resume": resume,
                 "self.k_csv": 0, "self.system": 0, "self.config": 0, "self.system.dae": 0}
        # the first step of a fresh or resumed run is proposed by _calc_h_first (not interpreted: it returns the proposal D)
        mi = MethodInterp(repo, "TDS", TDS, state, call_values={"_calc_h_first": D})
        try:
            mi.call_in("TDS", "calc_h", kwargs={"resume": resume})
        except Unsupported as ex:
            undec = str(ex)
            break
        n_cases += 1
        h = mi.s.get("self.h")
        want = max(min([D, left_tf] + ([left_ev] if has_ev else [])), 0.0)
        if h is None or abs(float(h) - want) > 1e-12:
            bad.append("%sproposed step %g, %g left to tf, %s: h = %s, expected %g" % (
                "resumed run, " if resume else "", D, left_tf, ("next event in %g" % left_ev) if has_ev else "no pending event", h, want))
    if undec:
        ctx.undecided("C04.stepsize", "TDS.calc_h/clip", "interpreter: %s" % undec, f.W())
    else:
        ctx.check(not bad, "C04.stepsize", "TDS.calc_h/clip", "%d orderings: h == max(min(D, tf - t, event - t), 0)" % n_cases,
                  "%d of %d orderings violate the clipping contract; first: %s" % (len(bad), n_cases, bad[0] if bad else ""), f.W())
    # variable-step growth is bounded by deltatmax and shrink by deltatmin
    ok = Q.has("self.deltat = min(self.deltat * 1.1, self.deltatmax)", f.fn) or Q.has("self.deltat = min(self.deltat * $c, self.deltatmax)", f.fn)
    ctx.check(ok, "C04.stepsize", "TDS.calc_h/growth-bound", "growth clipped by deltatmax",
              "step growth no longer clipped by deltatmax", f.W())
    # non-converged & cannot shrink => busted
    m = [n for n in f.assigns("self.busted")]
    ctx.check(len(m) >= 2, "C04.stepsize", "TDS.calc_h/give-up", "busted set when the step cannot shrink",
              "non-convergence with exhausted step size no longer sets busted", f.W())


def rule_run_loop(ctx, repo):
    r = F.method(repo, "TDS", "run", TDS)
    g = r.g
    st = r.tests(lambda c: c.strip() == "step_status")
    if not st:
        raise AnalysisError("TDS.run: `if step_status` vanished")
    t = st[0]
    # rejected step: the clock goes back to where the step started (only if it was advanced), calc_h, advance again: rules/c04_rollback.py
    from rules import c04_rollback
    c04_rollback.run_rule(ctx, repo)
    ch = [n for n in r.calls("self.calc_h") if g.guarded_by(n, t, "false")]
    ctx.check(bool(ch), "C04.restore", "TDS.run/reject-time", "a rejected step re-computes the step size before the retry",
              "the rejected-step branch no longer calls calc_h()", r.W(t))
    z = [tn for tn in g.nodes() if g.data(tn)["kind"] == "test" and Q.match("self.h == 0", g.data(tn)["ast"].test)
         and g.guarded_by(tn, t, "false")]
    okz = bool(z) and any(g.guarded_by(n, z[0], "true") for n in r.assigns("self.busted"))
    ctx.check(okz, "C04.restore", "TDS.run/zero-step", "h == 0 after shrinking => busted",
              "step size collapsing to zero no longer terminates the run", r.W(t))
    # accepted step: store -> do_switch -> calc_h -> t += h
    ds = [n for n in r.calls("self.do_switch") if g.guarded_by(n, t, "true")]
    ch2 = [n for n in r.calls("self.calc_h") if g.guarded_by(n, t, "true")]
    adv = [n for n in tdscommon.clock_nodes(repo, r) if g.guarded_by(n, t, "true")]
    ok = bool(ds and ch2 and adv)
    if ok:
        ok = g.must_pass(t, ch2[0], ds)[0] and g.must_pass(t, adv[0], ch2)[0]
    ctx.check(ok, "C04.stepsize", "TDS.run/accept-order", "accepted step: do_switch() -> calc_h() -> t += h",
              "accepted-step epilogue no longer runs do_switch, calc_h, t += h in this order", r.W(t))
    # the step routine is the registered method
    it = F.method(repo, "TDS", "itm_step", TDS)
    ctx.check(Q.has("return self.method.step(self)", it.fn), "C04.rule", "TDS.itm_step", "delegates to self.method.step(self)",
              "itm_step no longer delegates to the selected method", it.W())
    sm = F.method(repo, "TDS", "set_method", TDS)
    ctx.check(Q.has("self.method = method_map[$n]()", sm.fn), "C04.rule", "TDS.set_method", "method from method_map[name]",
              "integration method is not taken from method_map", sm.W())


def run(ctx):
    ctx.rule("C04.rule", "for every class in daeint.method_map: calc_q == Tf(x-x0) - h(th f + (1-th) f0) with th from an independent "
             "table; calc_jac == derivative of that residual (kvxopt block columns); residual freshly evaluated; anti-windup "
             "override between calc_q and solve", 9)
    ctx.rule("C04.scale", "gx, gy, g scaled by the same factor under the same guard", 1)
    ctx.rule("C04.sign", "Ac*inc = q, x -= inc", 2)
    ctx.rule("C04.restore", "x0,y0,f0 saved before the loop; restored with vars_to_models on every non-converged exit; time rewound "
             "on rejection; zero step refused", 10)
    ctx.rule("C04.stepsize", "abstract interpretation of calc_h: under fixt=1 deltat <= tstep at h := deltat; calc_h interpreted on every ordering "
             "of (proposed step, time to tf, time to the next event): h == max(min(...), 0)", 6)
    ctx.rule("C04.rollback", "the clock is moved back only if it was advanced for the rejected attempt (path or typestate attribute); re-advanced before the retry", 2)
    ctx.rule("C04.accept", "converged=True only under |max increment| <= bare tol (chatter escape frozen); failure exits", 3)
    ctx.assume("per-step residual satisfaction, convergence order and reaching tf are numerical: declined")
    ctx.assume("kvxopt sparse([[a,b],[c,d]]) = block columns; Teye = diag(Tf)")
    repo = Repo()
    rule_methods(ctx, repo)
    rule_step(ctx, repo)
    rule_stepsize(ctx, repo)
    rule_run_loop(ctx, repo)
