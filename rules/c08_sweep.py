"""C08.fresh/EIG.sweep -- every point of a parameter sweep is linearised with Jacobians evaluated AFTER the parameter was set.

On every path of one sweep iteration from the parameter write to calc_As there is a call that certainly re-evaluates the Jacobians: a call
that must-reach System.j_update (every path of every resolved callee), or the routine's own pre-check (whose paths are decided by
C08.fresh/EIG.run).  `TDS.init(); TDS.itm_step()` is not one: init() returns at once on an initialised simulation and the stepping method
rebuilds the Jacobian only under its lazy-update conditions (t == 0, after events, ...)."""
import ast

from engine.pysrc import F, dotted, src
from engine.effects import Effects, call_must_reach

EIG = "andes/routines/eig.py"


def run_rule(ctx, repo):
    E = Effects(repo)
    f = F.method(repo, "EIG", "sweep", EIG)
    cas = f.calls("self.calc_As")
    sets = [n for n in f.g.nodes() if f.g.data(n)["kind"] == "stmt" and any(
        isinstance(c, ast.Call) and isinstance(c.func, ast.Attribute) and c.func.attr in ("set", "alter") and "owner" in src(c.func.value)
        for c in ast.walk(f.g.data(n)["ast"]))]
    if not cas or not sets:
        ctx.undecided("C08.fresh", "EIG.sweep/jacobian", "parameter write or calc_As call not recognised", f.W())
        return
    ev = []
    for n in f.g.nodes():
        d = f.g.data(n)
        a = d.get("ast")
        if a is None or d["kind"] not in ("stmt", "test"):
            continue
        expr = a.test if d["kind"] == "test" and hasattr(a, "test") else a
        for c in [x for x in ast.walk(expr) if isinstance(x, ast.Call)]:
            if dotted(c.func) == "self._pre_check" or call_must_reach(E, f.ci, f.fn, c, {"System.j_update"}):
                ev.append(n)
                break
    ok, pth = f.g.must_pass(sets[-1], cas[0], ev) if ev else (False, None)
    if not ev:
        pth = f.g.path(sets[-1], cas[0]) if hasattr(f.g, "path") else None
    ctx.check(ok, "C08.fresh", "EIG.sweep/jacobian", "between the parameter write and calc_As the Jacobians are certainly re-evaluated",
              "a sweep point reaches calc_As without a certain re-evaluation of the Jacobians (%s): on an initialised simulation (t > 0) TDS.init() "
              "returns at once and itm_step() keeps its lazily updated Jacobian -- every point of the sweep returns the same eigenvalues" % (
                  f.g.fmt_path(pth) if pth else "no evaluating call"), f.W(cas[0]))
