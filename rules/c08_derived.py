"""C08.partition/derived -- what is derived from the reported eigenvalues is recomputed wherever the eigenvalues are replaced.

`EIG.mu` is what report()/post_process print; the counts (n_positive, n_zeros, n_negative), the participation factors and the left
eigenvectors are derived from the same decomposition.  Slots from the source: the attributes the method that counts signs (reads
`self.mu`, writes `self.n_*`) writes; the attributes assigned together with `self.mu` in `run` (one tuple assignment from calc_pfactor).
Rule: in every method of EIG that assigns `self.mu`, every path from that assignment to the exit of the method (or to the next
assignment of `self.mu`) passes the counting method, and the attributes that `run` assigns together with `mu` are assigned together with
it there too."""
import ast

from engine.pysrc import F, dotted, src
from engine.cfg import walk_noscope

EIG = "andes/routines/eig.py"


def run_rule(ctx, repo):
    ci = repo.cls("EIG", EIG)
    # the counting method: reads self.mu, writes n_* attributes
    counters = [name for name, fn in ci.methods.items()
                if any(isinstance(x, ast.Attribute) and dotted(x) == "self.mu" and isinstance(x.ctx, ast.Load) for x in walk_noscope(fn))
                and sum(1 for x in walk_noscope(fn) if isinstance(x, ast.Attribute) and isinstance(x.ctx, ast.Store) and x.attr.startswith("n_")) >= 3]
    run = ci.methods.get("run")
    together = set()
    if run is not None:
        for st in walk_noscope(run):
            if isinstance(st, ast.Assign) and isinstance(st.targets[0], ast.Tuple) and any(dotted(e) == "self.mu" for e in st.targets[0].elts):
                together = {dotted(e) for e in st.targets[0].elts} - {"self.mu"}
    if not counters:
        ctx.undecided("C08.partition", "EIG/derived", "the sign-counting method is not recognised", "andes/routines/eig.py")
        return
    n = 0
    for mname, fn in ci.methods.items():
        f = F(repo, ci, fn)
        asg = [x for x in f.g.nodes() if f.g.data(x)["kind"] == "stmt" and isinstance(f.g.data(x)["ast"], ast.Assign) and any(
            dotted(e) == "self.mu" for t in f.g.data(x)["ast"].targets for e in (t.elts if isinstance(t, ast.Tuple) else [t]))]
        # constructor defaults (`self.mu = None`) are not a decomposition
        asg = [x for x in asg if not (mname in ("__init__", "reset") and isinstance(f.g.data(x)["ast"].value, ast.Constant))]
        if not asg:
            continue
        cnt = [x for x in f.g.nodes() if f.g.data(x)["kind"] == "stmt" and any(
            isinstance(c, ast.Call) and (dotted(c.func) or "") in ["self.%s" % k for k in counters] for c in ast.walk(f.g.data(x)["ast"]))]
        for a in asg:
            n += 1
            ok, pth = f.g.must_pass(a, f.g.exit, cnt + [x for x in asg if x != a]) if cnt else (False, None)
            st = f.g.data(a)["ast"]
            tg = {dotted(e) for t in st.targets for e in (t.elts if isinstance(t, ast.Tuple) else [t])}
            # attributes assigned with mu in run must be assigned between this assignment and the exit as well
            missing = []
            for att in sorted(together - tg):
                others = [x for x in f.g.nodes() if f.g.data(x)["kind"] == "stmt" and isinstance(f.g.data(x)["ast"], ast.Assign) and any(
                    dotted(e) == att for t in f.g.data(x)["ast"].targets for e in (t.elts if isinstance(t, ast.Tuple) else [t]))]
                if not (others and f.g.must_pass(a, f.g.exit, others + [x for x in asg if x != a])[0]):
                    missing.append(att)
            ctx.check(ok and not missing, "C08.partition", "EIG.%s/derived@L%d" % (mname, f.g.line(a)),
                      "the sign counts (%s) and %s are recomputed with every replacement of `self.mu`" % (counters[0], sorted(together) or "nothing else"),
                      "EIG.%s replaces `self.mu` (`%s`) %s: report() prints the new eigenvalues with the counts / participation factors of the "
                      "previous decomposition" % (mname, src(st)[:50], "without calling %s afterwards" % counters[0] if not ok else
                                                  "but keeps %s of the previous decomposition" % ", ".join(missing)), f.W(a))
    if n == 0:
        ctx.undecided("C08.partition", "EIG/derived", "no assignment of self.mu found", "andes/routines/eig.py")


def every_path_rule(ctx, repo):
    """calc_As recomputes the state matrix and what goes with it: every attribute it assigns on some path is assigned on EVERY path, so
    that nothing of a previous analysis survives (`Asc`, the complete matrix, used to be written only when zero-time-constant states exist:
    once they were gone it kept the matrix of the earlier analysis and export_mat wrote it)."""
    f = F.method(repo, "EIG", "calc_As", EIG)
    attrs = {}
    for n in f.g.nodes():
        d = f.g.data(n)
        if d["kind"] == "stmt" and isinstance(d["ast"], ast.Assign):
            for t in d["ast"].targets:
                for e in (t.elts if isinstance(t, ast.Tuple) else [t]):
                    if (dotted(e) or "").startswith("self.") and (dotted(e) or "").count(".") == 1:
                        attrs.setdefault(dotted(e), []).append(n)
    for a, nodes in sorted(attrs.items()):
        ok, pth = f.g.must_pass(f.g.entry, f.g.exit, nodes)
        ctx.check(ok, "C08.partition", "EIG.calc_As/every-path/%s" % a[5:], "`%s` is assigned on every path through calc_As" % a,
                  "`%s` is assigned only on some paths of calc_As (%s): on the others the value of an earlier analysis survives" % (
                      a, f.g.fmt_path(pth or [])), f.W(nodes[0]))
