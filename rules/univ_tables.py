"""Apply-to-all loops per property (see engine/univ.py).  (class, function, file, regex on iterated expression, what is visited)"""
SYS = "andes/system.py"
MODEL = "andes/core/model/model.py"
MDATA = "andes/core/model/modeldata.py"
TDS = "andes/routines/tds.py"
DAE = "andes/variables/dae.py"
COMMON = "andes/core/common.py"
TIMER = "andes/models/timer.py"
GROUP = "andes/models/group.py"
PSSE = "andes/io/psse.py"
MPC = "andes/io/matpower.py"

T = {
    "C01": [
        ("System", "_e_to_dae", SYS, r"eq_name", "both equation families"),
        ("System", "_e_to_dae", SYS, r"_adders\[", "every adder variable"),
        ("System", "_e_to_dae", SYS, r"_setters\[", "every setter variable"),
        ("System", "_v_to_dae", SYS, r"v_adders", "every value adder"),
        ("System", "_v_to_dae", SYS, r"_setters\[", "every value setter"),
        ("System", "store_adder_setter", SYS, r"models\.values\(\)", "every model"),
        ("System", "store_adder_setter", SYS, r"cache\.(v|e)_(adders|setters|getters)", "every external variable"),
        ("System", "calc_pu_coeff", SYS, r"self\.models\.values\(\)", "every model"),
        ("System", "calc_pu_coeff", SYS, r"coeffs\.items\(\)", "every unit property"),
        ("System", "calc_pu_coeff", SYS, r"find_param\(", "every parameter with the property"),
    ],
    "C03": [
        ("System", "j_update", SYS, r"jac_names", "every Jacobian block"),
        ("System", "j_update", SYS, r"models\.values\(\)", "every model"),
        ("System", "j_update", SYS, r"zip_ijv", "every triplet"),
        ("System", "store_sparse_pattern", SYS, r"jac_names", "every Jacobian block"),
        ("System", "store_sparse_pattern", SYS, r"models\.values\(\)", "every model"),
        ("System", "store_sparse_pattern", SYS, r"zip_ijv", "every triplet"),
        ("Model", "j_update", MODEL, r"calls\.j\.items\(\)", "every generated Jacobian function"),
        ("Model", "j_update", MODEL, r"vjac\[", "every entry of a block"),
        ("Model", "store_sparse_pattern", MODEL, r"jac_full_names", "every Jacobian block"),
        ("Model", "store_sparse_pattern", MODEL, r"blocks\.values\(\)", "every block"),
    ],
    "C04": [
        ("System", "call_models", SYS, r"models\.items\(\)", "every model"),
        ("System", "_store_tf", SYS, r"models\.values\(\)", "every model"),
        ("System", "_store_tf", SYS, r"states_and_ext", "every state"),
        ("Model", "f_update", MODEL, r"states_and_ext", "every differential equation"),
        ("Model", "g_update", MODEL, r"algebs_and_ext", "every algebraic equation"),
    ],
    "C05": [
        ("Model", "init", MODEL, r"init_seq", "every variable of the initialisation sequence"),
        ("TDS", "init", TDS, r"antiwindups", "every anti-windup limiter"),
        ("TDS", "test_init", TDS, r"pflow_tds\.values\(\)", "every model"),
    ],
    "C06": [
        ("System", "store_switch_times", SYS, r"models\.values\(\)", "every model with timers"),
        ("System", "switch_action", SYS, r"models\.values\(\)", "every model"),
        ("Model", "switch_action", MODEL, r"timer_params\.values\(\)", "every timer parameter"),
        ("Model", "get_times", MODEL, r"timer_params\.values\(\)", "every timer parameter"),
        ("Toggle", "_u_switch", TIMER, r"range\(self\.n\)", "every toggle device"),
        ("Fault", "apply_fault", TIMER, r"range\(self\.n\)", "every fault device"),
        ("Fault", "clear_fault", TIMER, r"range\(self\.n\)", "every fault device"),
        ("Alter", "_alter_field", TIMER, r"range\(self\.n\)", "every alter device"),
    ],
    "C09": [
        ("Model", "l_update_var", MODEL, r"discrete\.values\(\)", "every discrete component"),
        ("Model", "l_check_eq", MODEL, r"discrete\.values\(\)", "every discrete component"),
        ("System", "fg_to_dae", SYS, r"antiwindups", "every anti-windup limiter"),
        ("System", "fg_to_dae", SYS, r"x_set", "every pegged state"),
    ],
    "C10": [
        ("System", "set_address", SYS, r"models\.values\(\)", "every model"),
        ("System", "set_address", SYS, r"mdl\.(states|algebs)\.values\(\)", "every internal variable"),
        ("System", "set_address", SYS, r"vars_ext\.values\(\)|(states|algebs)_ext\.values\(\)", "every external variable"),
        ("System", "set_var_arrays", SYS, r"models\.values\(\)", "every model"),
        ("System", "set_var_arrays", SYS, r"vars_(int|ext)\.values\(\)", "every variable"),
        ("System", "set_dae_names", SYS, r"models\.values\(\)", "every model"),
        (None, "_set_xy_name", SYS, r"vars_dict\.items\(\)", "every variable"),
        (None, "_set_xy_name", SYS, r"zip\(idx\.v", "every device"),
        ("DAE", "request_address", DAE, r"range\(nvar\)", "every variable of the model"),
    ],
    "C11": [
        ("GroupBase", "set", GROUP, r"zip\(models, idx, value\)", "every addressed device"),
        ("GroupBase", "alter", GROUP, r"zip\(models, idx, value\)", "every addressed device"),
        ("System", "_p_restore", SYS, r"models\.values\(\)", "every model"),
        ("System", "_p_restore", SYS, r"num_params\.values\(\)", "every numeric parameter"),
        ("ModelData", "as_dict", MDATA, r"params\.items\(\)", "every parameter"),
        ("ModelData", "update_from_df", MDATA, r"params\.items\(\)", "every parameter"),
        ("ModelData", "add", MDATA, r"params\.items\(\)", "every parameter"),
        (None, "_dump_system", "andes/io/json.py", r"models\.items\(\)", "every model"),
        (None, "_write_system", "andes/io/xlsx.py", r"models\.items\(\)", "every model"),
    ],
    "C12": [
        ("ConnMan", "act", "andes/core/connman.py", r"bus_deps\.items\(\)", "every dependent group"),
        ("ConnMan", "act", "andes/core/connman.py", r"src_list", "every bus field of the group"),
        ("System", "connectivity", SYS, r"enumerate\(self\.Bus\.island_sets\)", "every island"),
        ("System", "connectivity", SYS, r"range\(n\)", "every bus"),
    ],
    "C13": [
        (None, "mpc2system", MPC, r"mpc\['(bus|gen|branch)'\]", "every record"),
        (None, "_parse_bus_v33", PSSE, r"raw\['bus'\]", "every record"),
        (None, "_parse_load_v33", PSSE, r"raw\['load'\]", "every record"),
        (None, "_parse_fshunt_v33", PSSE, r"raw\['fshunt'\]", "every record"),
        (None, "_parse_gen_v33", PSSE, r"raw\['gen'\]", "every record"),
        (None, "_parse_line_v33", PSSE, r"raw\['branch'\]", "every record"),
        (None, "_parse_transf_v33", PSSE, r"raw\['transf'\]", "every record"),
        (None, "_parse_swshunt_v33", PSSE, r"raw\['swshunt'\]", "every record"),
        (None, "read_add", PSSE, r"dyr_dict", "every dyr model"),
        (None, "read_add", PSSE, r"to_dict\(orient='records'\)", "every dyr row"),
    ],
    "C14": [
        (None, "fix_view_arrays", SYS, r"models\.values\(\)", "every model"),
        ("DAETimeSeries", "unpack_np", DAE, r"pairs", "every channel"),
    ],
    "C15": [
        ("DAETimeSeries", "unpack_np", DAE, r"pairs", "every channel"),
        ("DAETimeSeries", "unpack_np", DAE, r"enumerate\(self\.__dict__\[src\]\.values\(\)\)", "every stored row"),
        ("System", "set_output_subidx", SYS, r"zip\(self\.Output\.model\.v", "every Output row"),
        ("System", "set_output_subidx", SYS, r"mdl_all_vars\.values\(\)", "every variable of the selected model"),
    ],
    "C19": [
        ("System", "collect_ref", SYS, r"models_and_groups", "every model and group"),
        ("System", "collect_ref", SYS, r"services_ref\.values\(\)", "every BackRef"),
        ("System", "collect_ref", SYS, r"idx_params\.values\(\)", "every idx parameter"),
        ("System", "collect_ref", SYS, r"zip\(model\.idx\.v, idxp\.v\)", "every referrer"),
        ("System", "link_ext_param", SYS, r"models\.values\(\)", "every model"),
        ("System", "link_ext_param", SYS, r"params_ext\.values\(\)", "every external parameter"),
        ("System", "find_devices", SYS, r"models\.values\(\)", "every model"),
        ("System", "find_devices", SYS, r"services_fnd\.values\(\)", "every DeviceFinder"),
        ("DeviceFinder", "find_or_add", "andes/core/service.py", r"enumerate\(self\.link\.v\)", "every linked device"),
    ],
    "C20": [
        ("Config", "_add", COMMON, r"kwargs\.items\(\)", "every supplied field"),
        ("Config", "update", COMMON, r"kwargs\.items\(\)", "every supplied field"),
        ("Config", "check", COMMON, r"as_dict\(", "every field"),
        ("Config", "as_dict", COMMON, r"__dict__\.items\(\)", "every field"),
        ("System", "collect_config", SYS, r"all_with_config\.items\(\)", "every routine and model"),
        ("System", "_update_config_object", SYS, r"config_option", "every option string"),
        ("System", "import_models", SYS, r"cls_list", "every model class: its configuration is loaded and checked"),
        ("System", "import_models", SYS, r"file_classes", "every model file"),
    ],
}
