"""C16 -- results do not depend on solver back-end / acceleration / repetition.

Decided: every factorising entry point passes through a numeric factorisation of the A of
*this* call; refresh flags follow each Jacobian rebuild; CCS field order; sibling error handling
(NaN sentinel on singular matrices, retry returns the callee's result); facade dispatch.
Numerical agreement across back-ends is declined."""
import ast

from engine import astq as Q
from engine.cfg import walk_noscope
from engine.pysrc import Repo, F, dotted, src, calls_in
from engine.report import AnalysisError

SS = "andes/linsolvers/suitesparse.py"
SC = "andes/linsolvers/scipy.py"
SB = "andes/linsolvers/solverbase.py"
PFLOW = "andes/routines/pflow.py"
DAEINT = "andes/routines/daeint.py"
BASE = "andes/routines/base.py"


def is_nan_value(e):
    t = src(e)
    return "nan" in t.lower()


def rule_suitesparse(ctx, repo):
    f = F.method(repo, "SuiteSparseSolver", "solve", SS)
    g = f.g
    a = [p.arg for p in f.fn.args.args]
    if len(a) != 3:
        raise AnalysisError("SuiteSparseSolver.solve signature changed")
    A, b = a[1], a[2]
    setA = [n for n in g.nodes() if g.data(n)["kind"] == "stmt" and Q.match("self.A = %s" % A, g.data(n)["ast"])]
    num = [n for n in g.nodes() if g.data(n)["kind"] == "stmt" and (
        Q.match("self.N = self._numeric(self.A, self.F)", g.data(n)["ast"]) or
        Q.match("self.N = self._numeric(%s, self.F)" % A, g.data(n)["ast"]))]
    slv = [n for n in g.nodes() if g.data(n)["kind"] == "stmt" and (
        Q.match("self._solve(self.A, self.F, self.N, self.b)", g.data(n)["ast"]) or
        Q.match("self._solve(%s, self.F, self.N, %s)" % (A, b), g.data(n)["ast"]))]
    rec = [n for n in g.nodes() if g.data(n)["kind"] == "stmt" and any(
        dotted(c.func) == "self.solve" for c in calls_in(g.data(n)["ast"]))]
    rets = f.returns()
    bad = []
    n_ok = 0
    for r in rets:
        v = g.data(r)["ast"].value
        if v is not None and is_nan_value(v):
            continue       # failure sentinel
        if any(dotted(c.func) == "self.solve" for c in calls_in(g.data(r)["ast"])):
            n_ok += 1      # returns the retry's result
            continue
        # every path entry -> this return passes numeric factorisation + solve of this call's A,
        # or a retry whose *result* is what is returned
        through = num
        okn, p1 = g.must_pass(g.entry, r, through)
        oks, p2 = g.must_pass(g.entry, r, slv)
        if okn and oks:
            # ... and there must be no path on which both were bypassed via the retry while still returning self.b
            n_ok += 1
            continue
        # paths avoiding numeric/solve: do they come through a retry whose result is discarded?
        okr, p3 = g.must_pass(g.entry, r, num + rec)
        if okr and rec:
            bad.append("L%d returns %s after a recursive retry and discards the retry's return value "
                       "(a NaN sentinel produced by the retry is lost)" % (g.line(r), src(v)))
        else:
            bad.append("L%d reachable without numeric factorisation of this call's A: %s" % (g.line(r), g.fmt_path(p1 or p2)))
    ctx.check(not bad and n_ok >= 1, "C16.factorise", "SuiteSparseSolver.solve",
              "every non-sentinel return passes _numeric(self.A, self.F) and _solve, or returns the retry's result",
              "; ".join(bad), f.W())
    ok, wit = f.before(setA, num)
    ctx.check(ok, "C16.factorise", "SuiteSparseSolver.solve/current-A", "self.A = A precedes the factorisation",
              "factorisation may use the matrix of a previous call: " + wit, f.W())
    # symbolic refresh when requested; flag cleared
    t = f.tests(lambda c: c.replace(" ", "") in ("self.factorizeisTrue", "self.factorize"))
    sym = [n for n in g.nodes() if g.data(n)["kind"] == "stmt" and Q.match("self.F = self._symbolic(self.A)", g.data(n)["ast"])]
    ok = bool(t) and any(g.guarded_by(n, t[0], "true") for n in sym)
    ctx.check(ok, "C16.factorise", "SuiteSparseSolver.solve/symbolic", "symbolic factorisation redone when factorize is set",
              "refresh request (factorize flag) no longer triggers a symbolic factorisation", f.W())
    # singular => NaN sentinel of the size of b
    hs = [n for n in g.nodes() if g.data(n)["kind"] == "handler" and "ArithmeticError" in src(g.data(n)["ast"].type or ast.Constant(""))]
    ok = bool(hs)
    if ok:
        reg = g.branch_region(hs[0], "next") | {hs[0]}
        hr = [r for r in rets if r in reg or g.reachable(hs[0], r)]
        hr = [r for r in hr if g.must_pass(g.entry, r, hs)[0]]
        ok = bool(hr) and all(is_nan_value(g.data(r)["ast"].value) for r in hr)
    ctx.check(ok, "C16.singular", "SuiteSparseSolver.solve/ArithmeticError", "singular matrix => NaN vector",
              "singular matrix in solve() no longer yields the NaN sentinel", f.W())

    # sibling: linsolve of each back-end
    for cls, lib in (("KLUSolver", "klu"), ("UMFPACKSolver", "umfpack")):
        l = F.method(repo, cls, "linsolve", SS)
        a = [p.arg for p in l.fn.args.args]
        ok = Q.has("%s.linsolve(%s, %s)" % (lib, a[1], a[2]), l.fn)
        ctx.check(ok, "C16.factorise", "%s.linsolve" % cls, "full %s.linsolve(A, b) on every call" % lib,
                  "one-shot entry point no longer performs a full factorise-and-solve", l.W())
        hs = [n for n in l.g.nodes() if l.g.data(n)["kind"] == "handler"]
        bad = []
        for h in hs:
            for r in l.returns():
                if l.g.reachable(h, r) and not is_nan_value(l.g.data(r)["ast"].value):
                    # does the handler overwrite b with NaN before?
                    reg = [n for n in l.g.nodes() if l.g.reachable(h, n) and l.g.data(n)["kind"] == "stmt"]
                    if not any("nan" in src(l.g.data(n)["ast"]).lower() for n in reg if n != r):
                        bad.append("after `except %s` the untouched right-hand side %s is returned as the solution" % (
                            src(l.g.data(h)["ast"].type), src(l.g.data(r)["ast"].value)))
        ctx.check(not bad, "C16.singular", "%s.linsolve" % cls,
                  "sibling agreement with solve(): singular matrix => NaN sentinel",
                  "; ".join(bad) + " (solve() returns NaN in the same situation)", l.W())
        for m, pat in (("_symbolic", "%s.symbolic($A)" % lib), ("_numeric", "%s.numeric($A, $F)" % lib)):
            mm = F.method(repo, cls, m, SS)
            ctx.check(Q.has("return " + pat, mm.fn), "C16.factorise", "%s.%s" % (cls, m), pat,
                      "%s.%s no longer delegates to %s" % (cls, m, pat), mm.W())
    k = F.method(repo, "KLUSolver", "_solve", SS)
    ctx.check(Q.has("klu.solve($A, $F, $N, $b)", k.fn), "C16.factorise", "KLUSolver._solve", "klu.solve(A, F, N, b)",
              "KLU solve arguments changed", k.W())
    u = F.method(repo, "UMFPACKSolver", "_solve", SS)
    a = [p.arg for p in u.fn.args.args]
    ctx.check(Q.has("umfpack.solve(%s, %s, %s)" % (a[1], a[3], a[4]), u.fn), "C16.factorise", "UMFPACKSolver._solve",
              "umfpack.solve(A, N, b)", "UMFPACK solve must receive (A, numeric factor, b)", u.W())


# library contracts established by experiment (findings/demo_solver_stale_symbolic.py) and the kvxopt documentation:
#   umfpack.numeric(A, F) raises ValueError when F does not match A's pattern (handled by the retry in solve());
#   klu.numeric(A, F) does NOT validate F against A's pattern: a stale symbolic factor silently yields a wrong x.
VALIDATES_SYMBOLIC = {"UMFPACKSolver": True, "KLUSolver": False}


def _sound_pattern_guard(repo, ci, fn):
    """the (re)computation of the symbolic factor in `fn` depends on a comparison of A's index structure with the one the cached
    factor was computed for: (i) some value derived from A.CCS / A.I / A.J (possibly through a helper of the class) is compared for
    equality with cached state (np.array_equal / == / a helper doing so), (ii) the outcome reaches the condition of the `_symbolic`
    call (directly or through the `factorize` flag), (iii) the cached state is written together with the new symbolic factor."""
    def reads_index(node, depth=2):
        for x in ast.walk(node):
            if isinstance(x, ast.Attribute) and x.attr in ("CCS", "I", "J"):
                return True
            if depth and isinstance(x, ast.Call) and (dotted(x.func) or "").startswith("self."):
                m = (dotted(x.func) or "")[5:]
                for c in repo.mro(ci.name, ci.path):
                    if m in c.methods and reads_index(c.methods[m], depth - 1):
                        return True
        return False

    def compares(node, depth=2):
        for x in ast.walk(node):
            if isinstance(x, ast.Call) and dotted(x.func) in ("np.array_equal", "np.array_equiv", "np.all", "all"):
                return True
            if isinstance(x, ast.Compare) and any(isinstance(o, (ast.Eq, ast.NotEq)) for o in x.ops):
                return True
            if depth and isinstance(x, ast.Call) and (dotted(x.func) or "").startswith("self."):
                m = (dotted(x.func) or "")[5:]
                for c in repo.mro(ci.name, ci.path):
                    if m in c.methods and compares(c.methods[m], depth - 1):
                        return True
        return False
    pat_names = {t.id for st in walk_noscope(fn) if isinstance(st, ast.Assign) and reads_index(st.value)
                 for t in st.targets if isinstance(t, ast.Name)}
    tests = [t for t in ast.walk(fn) if isinstance(t, ast.If) and compares(t.test) and
             (reads_index(t.test) or any(isinstance(x, ast.Name) and x.id in pat_names for x in ast.walk(t.test)))]
    sets_flag = any(isinstance(x, ast.Assign) and dotted(x.targets[0]) == "self.factorize" and src(x.value) == "True"
                    for t in tests for b_ in t.body for x in ast.walk(b_)) or \
        any(isinstance(x, ast.Call) and dotted(x.func) == "self._symbolic" for t in tests for b_ in t.body for x in ast.walk(b_))
    stores = any(isinstance(st, ast.Assign) and (dotted(st.targets[0]) or "").startswith("self.") and
                 any(isinstance(x, ast.Name) and x.id in pat_names for x in ast.walk(st.value)) for st in walk_noscope(fn))
    return bool(tests) and sets_flag and stores


def rule_pattern_guard(ctx, repo):
    """a back-end whose numeric factorisation does not validate the cached symbolic factor needs a (sound) pattern guard."""
    f = F.method(repo, "SuiteSparseSolver", "solve", SS)
    base = repo.cls("SuiteSparseSolver", SS)
    guard = _sound_pattern_guard(repo, base, f.fn)
    for cls, validates in sorted(VALIDATES_SYMBOLIC.items()):
        ci = repo.cls(cls, SS)
        own = "solve" in ci.methods
        g2 = _sound_pattern_guard(repo, ci, ci.methods["solve"]) if own else guard
        ctx.check(validates or g2, "C16.stale-symbolic", cls,
                  "cached symbolic factor is validated against the pattern (by the library or by a guard)",
                  "solve() reuses the cached symbolic factor self.F whenever `factorize` is not set, and %s's numeric "
                  "factorisation does not validate it against A's pattern: a call with a changed pattern silently returns a "
                  "wrong x (no ValueError, so the retry never triggers)" % cls.replace("Solver", ""), repo.W(ci, ci.node))


def rule_scipy(ctx, repo):
    f = F.method(repo, "SpSolve", "solve", SC)
    g = f.g
    a = [p.arg for p in f.fn.args.args]
    t = f.tests(lambda c: c.replace(" ", "") in ("self.factorizeorself.new_A", "self.new_Aorself.factorize"))
    ok = bool(t)
    if ok:
        lu = [n for n in g.nodes() if g.data(n)["kind"] == "stmt" and Q.match("self.lu = splu($x)", g.data(n)["ast"])]
        conv = Q.first("$c = spmatrix_to_csc(%s)" % a[1], f.fn)[1]
        ok = bool(lu) and all(g.guarded_by(n, t[0], "true") for n in lu) and conv is not None and \
            Q.has("self.lu = splu($c)", f.fn, conv)
        # both flags cleared under the guard: single, chained or tuple assignment of the constant False
        cleared = set()
        for n in g.nodes():
            st_ = g.data(n)["ast"] if g.data(n)["kind"] == "stmt" else None
            if not isinstance(st_, ast.Assign) or not g.guarded_by(n, t[0], "true"):
                continue
            for tg in st_.targets:
                pairs = list(zip(tg.elts, st_.value.elts)) if isinstance(tg, ast.Tuple) and isinstance(st_.value, ast.Tuple) \
                    and len(tg.elts) == len(st_.value.elts) else [(tg, st_.value)]
                for a_, v_ in pairs:
                    if dotted(a_) in ("self.factorize", "self.new_A") and isinstance(v_, ast.Constant) and v_.value is False:
                        cleared.add(dotted(a_))
        ok = ok and cleared == {"self.factorize", "self.new_A"}
    ctx.check(ok, "C16.factorise", "SpSolve.solve", "refactorises this call's A when factorize or new_A; clears both flags",
              "SciPy back-end does not refactorise the current A on a refresh request (or leaves a flag set)", f.W())
    ok = Q.has("$x = self.lu.solve(np.ravel(%s))" % a[2], f.fn) or Q.has("return self.lu.solve(np.ravel(%s))" % a[2], f.fn)
    ctx.check(ok, "C16.factorise", "SpSolve.solve/solve", "x = lu.solve(b)", "solution not computed from the cached LU and this b", f.W())
    l = F.method(repo, "SpSolve", "linsolve", SC)
    a = [p.arg for p in l.fn.args.args]
    e = Q.first("$c = spmatrix_to_csc(%s)" % a[1], l.fn)[1]
    ok = e is not None and Q.has("return spsolve($c, $b)", l.fn, e)
    ctx.check(ok, "C16.factorise", "SpSolve.linsolve", "one-shot spsolve(csc(A), b)", "one-shot entry point is not a full solve", l.W())
    # flags default to 'refresh needed'
    i = F.method(repo, "SciPySolver", "__init__", SC)
    ok = Q.has("self.factorize = True", i.fn) and Q.has("self.new_A = True", i.fn)
    ctx.check(ok, "C16.factorise", "SciPySolver.__init__", "first call factorises", "fresh solver would solve with no factorisation", i.W())
    # CCS contract
    c = F.function(repo, SC, "spmatrix_to_csc")
    # decided by evaluation (engine/tinyexec.py) with tagged stand-ins for the three CCS arrays
    from engine.tinyexec import TinyExec, Fake
    from engine.ordertype import Unsupported

    class _Arr(Fake):
        def __init__(self, tag):
            self.tag = tag

        def ravel(self):
            return _Arr(self.tag)

    class _Mat(Fake):
        CCS = (_Arr("colptr"), _Arr("rowind"), _Arr("values"))
        size = (3, 4)
    seen = []

    def _csc(arg, shape=None, **kw):
        seen.append((tuple(getattr(x, "tag", x) for x in arg) if isinstance(arg, tuple) else arg, shape))
        return "csc"
    stubs = {"np.array": lambda x, **k_: _Arr(x.tag) if isinstance(x, _Arr) else x, "np.asarray": lambda x, **k_: _Arr(x.tag) if isinstance(x, _Arr) else x,
             "np.ravel": lambda x: _Arr(x.tag) if isinstance(x, _Arr) else x, "csc_matrix": _csc}
    try:
        ret = TinyExec(repo, None, SC, stubs=stubs).call_function(c.fn, [_Mat()], {})
        ok = ret == "csc" and seen == [(("values", "rowind", "colptr"), (3, 4))]
    except Unsupported as ex:
        ctx.undecided("C16.ccs", "spmatrix_to_csc", "evaluator: %s" % ex, c.W())
        ok = None
    if ok is not None:
        ctx.check(ok, "C16.ccs", "spmatrix_to_csc", "csc_matrix((CCS[2], CCS[1], CCS[0]), shape) = (values, row indices, col pointers)",
                  "kvxopt CCS fields (colptr, rowind, values) are not mapped to csc_matrix((data, indices, indptr)): got %s" % (seen,), c.W())


def rule_refresh(ctx, repo):
    """after each Jacobian rebuild inside a Newton loop a refresh flag the SciPy back-end honours is set."""
    for cname, meth, path, upd, flag in (("PFlow", "nr_step", PFLOW, "system.j_update", "self.solver.worker.new_A = True"),
                                         ("ImplicitIter", "step", DAEINT, "system.j_update", "tds.solver.worker.factorize = True")):
        f = F.method(repo, cname, meth, path)
        ju = f.calls(upd)
        if not ju:
            raise AnalysisError("%s.%s: j_update call vanished" % (cname, meth))
        fl = [n for n in f.g.nodes() if f.g.data(n)["kind"] == "stmt" and (
            Q.match(flag, f.g.data(n)["ast"]) or Q.match("$s.solver.worker.new_A = True", f.g.data(n)["ast"]) or
            Q.match("$s.solver.worker.factorize = True", f.g.data(n)["ast"]))]
        slv = f.calls("solver.solve") + f.calls("solver.linsolve")
        ok, wit = f.between(ju, slv, fl) if fl else (False, "no refresh flag")
        ctx.check(ok, "C16.refresh", "%s.%s" % (cname, meth), "j_update() is followed by a worker refresh flag before the solve",
                  "Jacobian rebuilt but the cached factorisation is not invalidated before the next solve: " + wit, f.W(ju[0]))


def rule_inplace_contract(ctx, repo):
    """sibling contract of the one-shot entry point: the SuiteSparse back-ends solve in place AND return the solution, the SciPy
    back-end only returns it (and flattens the right-hand side). A caller that ignores the return value is only correct for some
    back-ends."""
    n = 0
    for rel, mod in repo.modules.items():
        if not rel.startswith("andes/routines/"):
            continue
        for cl in [x for x in mod.body if isinstance(x, ast.ClassDef)]:
            for fn in [x for x in cl.body if isinstance(x, ast.FunctionDef)]:
                for st in walk_noscope(fn):
                    if isinstance(st, ast.Expr) and isinstance(st.value, ast.Call) and (dotted(st.value.func) or "").endswith("solver.linsolve"):
                        n += 1
                        ctx.violation("C16.inplace-contract", "%s.%s" % (cl.name, fn.name),
                                      "`%s` ignores the returned solution and relies on the right-hand side being overwritten in place: true for "
                                      "KLU/UMFPACK, false for the SciPy back-end (spsolve returns a new, flattened array), so the result depends on "
                                      "the selected sparse solver" % src(st)[:70], "%s:%d" % (rel, st.lineno))
                    elif isinstance(st, ast.Assign) and isinstance(st.value, ast.Call) and (dotted(st.value.func) or "").endswith("solver.linsolve"):
                        n += 1
                        ctx.ok("C16.inplace-contract", "%s.%s@L%d" % (cl.name, fn.name, st.lineno), "uses the returned solution", "%s:%d" % (rel, st.lineno))
    if n < 4:
        raise AnalysisError("solver.linsolve call sites: %d found, 4 confirmed by reading" % n)


def rule_facade(ctx, repo):
    i = F.method(repo, "Solver", "__init__", SB)
    ok = Q.has("self.worker = self.__dict__[self.sparselib]", i.fn)
    t = i.tests(lambda c: "not in self.__dict__" in c)
    ok = ok and bool(t) and any(Q.match("self.sparselib = 'klu'", i.g.data(n)["ast"]) and i.g.guarded_by(n, t[0], "true")
                               for n in i.g.nodes() if i.g.data(n)["kind"] == "stmt")
    names = {dotted(n.targets[0]): dotted(n.value.func) for n in walk_noscope(i.fn)
             if isinstance(n, ast.Assign) and isinstance(n.value, ast.Call) and dotted(n.targets[0])}
    want = {"self.umfpack": "UMFPACKSolver", "self.klu": "KLUSolver", "self.spsolve": "SpSolve"}
    ok = ok and all(names.get(k) == v for k, v in want.items())
    ctx.check(ok, "C16.facade", "Solver.__init__", "name -> worker table; unknown name falls back to KLU",
              "solver facade no longer maps config names to their back-ends (%s)" % names, i.W())
    for m in ("solve", "linsolve"):
        f = F.method(repo, "Solver", m, SB)
        a = [p.arg for p in f.fn.args.args]
        ctx.check(Q.has("return self.worker.%s(%s, %s)" % (m, a[1], a[2]), f.fn), "C16.facade", "Solver.%s" % m,
                  "delegates to worker.%s(A, b)" % m, "facade %s does not delegate to the selected worker's %s" % (m, m), f.W())
    b = F.method(repo, "BaseRoutine", "__init__", BASE)
    ctx.check(Q.has("self.solver = Solver(sparselib=self.config.sparselib)", b.fn), "C16.facade", "BaseRoutine.__init__",
              "solver chosen by config.sparselib", "routine solver is not created from config.sparselib", b.W())
    # both routines honour config.linsolve symmetrically
    for cname, meth, path, cfg in (("PFlow", "nr_step", PFLOW, "self.config.linsolve"), ("ImplicitIter", "step", DAEINT, "tds.config.linsolve")):
        f = F.method(repo, cname, meth, path)
        # truth table of the enclosing conditions: the cached entry point only with linsolve off, the one-shot one only with it on
        sol, lin = f.calls("solver.solve"), f.calls("solver.linsolve")
        ok = bool(sol and lin) and all(Q.sat_atom_values(f.fn, f.g.data(n)["ast"], cfg) == {False} for n in sol) and \
            all(Q.sat_atom_values(f.fn, f.g.data(n)["ast"], cfg) == {True} for n in lin)
        ctx.check(ok, "C16.facade", "%s.%s/linsolve-switch" % (cname, meth), "solve when not linsolve, else linsolve",
                  "config.linsolve no longer selects between the cached and the one-shot entry point", f.W())


def run(ctx):
    ctx.rule("C16.factorise", "must-pass-through: every non-sentinel return of a factorising entry point passes numeric "
             "factorisation + solve of this call's A (or returns the retry's result); one-shot entry points fully solve", 12)
    ctx.rule("C16.singular", "sibling agreement on singular matrices: NaN sentinel in solve and linsolve of every back-end", 3)
    ctx.rule("C16.stale-symbolic", "back-ends whose numeric factorisation does not validate the cached symbolic factor need a "
             "pattern guard in solve() (library contract table confirmed by experiment)", 2)
    ctx.rule("C16.inplace-contract", "callers of the one-shot entry point use the returned solution (back-ends disagree on in-place)", 4)
    ctx.rule("C16.refresh", "each Jacobian rebuild in a Newton loop is followed by a refresh flag before the solve", 2)
    ctx.rule("C16.ccs", "kvxopt CCS -> scipy csc field order", 1)
    ctx.rule("C16.facade", "facade dispatch and linsolve switch", 6)
    ctx.assume("kvxopt klu/umfpack and scipy splu/spsolve contracts as documented; numerical agreement across back-ends declined")
    repo = Repo()
    rule_suitesparse(ctx, repo)
    rule_pattern_guard(ctx, repo)
    rule_scipy(ctx, repo)
    rule_refresh(ctx, repo)
    rule_inplace_contract(ctx, repo)
    rule_facade(ctx, repo)
