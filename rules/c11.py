"""C11 -- per-unit conversion and parameter alteration keep both value bases consistent.

Decided: the coefficient dict literal of calc_pu_coeff (local definitions inlined) == independent textbook base
ratios, key set == unit flags of NumParam; v == vin*k maintained by to_array / set_pu_coeff / restore and both
branches of Model.alter (symbolic state update); time-constant propagation in Model.set; export reads the
input-base view and refreshes the cached view first; restore precedes setup on reset."""
import ast

import sympy as sp

from engine import astq as Q
from engine.cfg import walk_noscope
from engine.pyexpr import to_sympy, PyExprError
from engine.pysrc import Repo, F, dotted, src, calls_in
from engine.report import AnalysisError

SYSTEM = "andes/system.py"
PARAM = "andes/core/param.py"
MODEL = "andes/core/model/model.py"
MODELDATA = "andes/core/model/modeldata.py"
GROUP = "andes/models/group.py"


def rule_coeffs(ctx, repo):
    f = F.method(repo, "System", "calc_pu_coeff", SYSTEM)
    fn = f.fn
    d = None
    for n in walk_noscope(fn):
        if isinstance(n, ast.Assign) and dotted(n.targets[0]) == "coeffs" and isinstance(n.value, ast.Dict):
            d = n
    if d is None:
        raise AnalysisError("System.calc_pu_coeff: coefficient dict literal vanished")
    # local straight-line definitions (last unconditional definition of derived bases)
    env = {}
    for n in walk_noscope(fn):
        if isinstance(n, ast.Assign) and len(n.targets) == 1 and isinstance(n.targets[0], ast.Name):
            nm = n.targets[0].id
            if nm in ("Zn", "Zb", "Idcb", "Rb", "Rn"):
                env[nm] = n.value
    Sn, Sb, Vn, Vb, Vdcn, Vdcb, Idcn = sp.symbols("Sn Sb Vn Vb Vdcn Vdcb Idcn", positive=True)
    base = {"Sn": Sn, "Sb": Sb, "Vn": Vn, "Vb": Vb, "Vdcn": Vdcn, "Vdcb": Vdcb, "Idcn": Idcn}
    ren = dict(base)
    try:
        for nm in ("Zn", "Zb", "Idcb", "Rb", "Rn"):
            if nm in env:
                ren[nm] = to_sympy(env[nm], ren)
        got = {k.value: sp.simplify(to_sympy(v, ren)) for k, v in zip(d.value.keys, d.value.values)}
    except PyExprError as e:
        ctx.undecided("C11.coeff", "System.calc_pu_coeff", "front-end: %s" % e, f.W(d))
        return
    Idcb = Sb / Vdcb
    ref = {
        "voltage": Vn / Vb, "power": Sn / Sb, "ipower": Sb / Sn, "current": (Sn / Vn) / (Sb / Vb),
        "z": (Vn ** 2 / Sn) / (Vb ** 2 / Sb), "y": (Vb ** 2 / Sb) / (Vn ** 2 / Sn),
        "dc_voltage": Vdcn / Vdcb, "dc_current": Idcn / Idcb,
        "r": (Vdcn / Idcn) / (Vdcb / Idcb), "g": (Vdcb / Idcb) / (Vdcn / Idcn),
    }
    for k, r in ref.items():
        if k not in got:
            ctx.violation("C11.coeff", "coeffs[%s]" % k, "no conversion coefficient for quantity kind `%s`" % k, f.W(d))
            continue
        diff = sp.simplify(got[k] - r)
        ctx.check(diff == 0, "C11.coeff", "coeffs[%s]" % k, "== %s" % r,
                  "coefficient for `%s` is %s, textbook ratio is %s" % (k, got[k], r), f.W(d))
    extra = set(got) - set(ref)
    ctx.check(not extra, "C11.coeff", "coeffs/keys", "no unknown quantity kinds", "unknown quantity kinds %s" % sorted(extra), f.W(d))
    # key set == unit flags accepted by NumParam.__init__
    ci, init = repo.method("NumParam", "__init__", PARAM)
    flags = {a.arg for a in init.args.args} | {a.arg for a in init.args.kwonlyargs}
    missing = [k for k in ref if k not in flags]
    ctx.check(not missing, "C11.coeff", "NumParam.__init__/flags", "every quantity kind is a NumParam unit flag",
              "quantity kinds without a NumParam flag: %s" % missing, repo.W(ci, init))
    # every key applied
    ok = False
    for lp, e in Q.loops(fn, "coeffs.items()", "($prop, $coeff)"):
        for lp2, e2 in Q.loops(lp, "$m.find_param($prop).values()", "$p", e):
            if Q.has("$p.set_pu_coeff($coeff)", lp2, e2):
                ok = True
    ctx.check(ok, "C11.coeff", "calc_pu_coeff/apply", "each coefficient applied to the parameters flagged with its kind",
              "coefficients are no longer applied to all parameters found by find_param(kind)", f.W())
    # defaults: Sn <- Sb, Vn <- Vb when absent; Vb from the bus the device is attached to
    ok = Q.has("Sn = Sb", fn) and Q.has("Sn = $m.Sn.v", fn) and Q.has("Sb = self.config.mva", fn)
    ok = ok and Q.has("Vb = self.Bus.get(src='Vn', idx=$m.bus.v, attr='v')", fn) and Q.has("Vn = $m.Vn.v if 'Vn' in $m.__dict__ else Vb", fn)
    ok = ok and Q.has("Vb = self.Bus.get(src='Vn', idx=$m.bus1.v, attr='v')", fn) and Q.has("Vn = $m.Vn1.v if 'Vn1' in $m.__dict__ else Vb", fn)
    ctx.check(ok, "C11.coeff", "calc_pu_coeff/bases", "Sn:=device Sn or Sb; Vb:=Vn of the attached bus (bus or bus1); Vn:=device Vn(1) or Vb",
              "device/system base selection changed", f.W())


def rule_invariant(ctx, repo):
    """v == vin * k after each mutator (symbolic)."""
    t = F.method(repo, "NumParam", "to_array", PARAM)
    ok = Q.has("self.vin = np.array(self.v, dtype=self.vtype)", t.fn) and Q.has("self.pu_coeff = np.ones_like(self.v, dtype=float)", t.fn)
    o1 = t.before([n for n in t.g.nodes() if t.g.data(n)["kind"] == "stmt" and Q.match("self.v = np.array(self.v, dtype=self.vtype)", t.g.data(n)["ast"])],
                  [n for n in t.g.nodes() if t.g.data(n)["kind"] == "stmt" and Q.match("self.vin = np.array(self.v, dtype=self.vtype)", t.g.data(n)["ast"])])[0]
    ctx.check(ok and o1, "C11.invariant", "NumParam.to_array", "vin := copy(v), k := 1  => v == vin*k",
              "to_array no longer stores a copy of the input values with unit coefficients", t.W())
    s = F.method(repo, "NumParam", "set_pu_coeff", PARAM)
    last = s.fn.body[-1]
    ok = Q.match("self.v[:] = self.vin * self.pu_coeff", last) is not None and Q.has("self.pu_coeff[:] = coeff", s.fn)
    ctx.check(ok, "C11.invariant", "NumParam.set_pu_coeff", "k := coeff; v[:] = vin*k on every path",
              "set_pu_coeff no longer ends with v[:] = vin * pu_coeff", s.W())
    r = F.method(repo, "NumParam", "restore", PARAM)
    ctx.check(any((Q.copies_into(st_) or (None, None))[0] is not None and [src(x_) for x_ in Q.copies_into(st_)] == ["self.v", "self.vin"]
                  for st_ in walk_noscope(r.fn)), "C11.invariant", "NumParam.restore", "v[:] = vin", "restore no longer copies vin into v", r.W())

    # Model.alter, decided by evaluation (engine/tinyexec.py) over the three kinds of altered object -- a parameter with stored input,
    # a parameter before set-up (vin None), an object without `vin` -- with a symbolic value and coefficient; `set` is a recorder
    from engine.tinyexec import TinyExec, Fake
    from engine.ordertype import Unsupported
    a = F.method(repo, "Model", "alter", MODEL)
    value, k = sp.symbols("value k", positive=True)

    class _Inst(Fake):
        pass

    def run_alter(kind, attr):
        inst = _Inst()
        if kind == "stored":
            inst.vin, inst.pu_coeff = [sp.Symbol("vin0")], [k]
        elif kind == "before-setup":
            inst.vin, inst.pu_coeff = None, [k]
        inst.v = [sp.Symbol("v0")]
        rec = []

        class _Model(Fake):
            class_name = "M"
        m = _Model()
        m.__dict__["p"] = inst

        def _set(src_, idx_, attr="v", value=None):
            rec.append((src_, idx_, attr, value))
            return True
        stubs = {"self.set": _set, "self.idx2uid": lambda i: 0, "logger.warning": lambda *a_, **k_: None,
                 "logger.debug": lambda *a_, **k_: None, "logger.info": lambda *a_, **k_: None}
        TinyExec(repo, "Model", MODEL, stubs=stubs).call("alter", m, "p", 7, value, attr)
        return rec

    for attr, construct, name in (("vin", "vin-branch", "attr='vin' (value given in system base)"), ("v", "v-branch", "attr='v' (value given in input base)")):
        try:
            rec = run_alter("stored", attr)
        except Unsupported as ex:
            ctx.undecided("C11.invariant", "Model.alter/%s" % construct, "evaluator: %s" % ex, a.W())
            continue
        state = {at: val for (_s, _i, at, val) in rec}
        addr_ok = all(_s == "p" and _i == 7 for (_s, _i, _a, _v) in rec)
        ok = addr_ok and "v" in state and "vin" in state and sp.simplify(state["v"] - state["vin"] * k) == 0
        given = "vin" if attr == "v" else "v"
        ok = ok and sp.simplify(state.get(given, 0) - value) == 0
        ctx.check(ok, "C11.invariant", "Model.alter/%s" % construct,
                  "%s: after alter v == vin*k and the supplied value is stored in the representation it was given in (v=%s, vin=%s)" % (
                      name, state.get("v"), state.get("vin")),
                  "%s: altering leaves v=%s and vin=%s, which violates v == vin*k or does not store the supplied value" % (
                      name, state.get("v"), state.get("vin")), a.W())
    bad = []
    try:
        for kind in ("before-setup", "no-vin"):
            for attr in ("v", "vin"):
                rec = run_alter(kind, attr)
                want = "v" if (kind == "no-vin") else attr
                if [(r_[2], r_[3]) for r_ in rec] != [(want, value)] or not all(r_[0] == "p" and r_[1] == 7 for r_ in rec):
                    bad.append("%s object, attr=%r: set calls %s" % (kind, attr, [(r_[2], str(r_[3])) for r_ in rec]))
        ctx.check(not bad, "C11.invariant", "Model.alter/plain", "without stored input the value is written as given to the addressed element "
                  "(`vin` falls back to `v` for objects that have none)", "; ".join(bad), a.W())
    except Unsupported as ex:
        ctx.undecided("C11.invariant", "Model.alter/plain", "evaluator: %s" % ex, a.W())

    # GroupBase.alter: evaluated with recording member models: every addressed device reaches its own model's alter() with its value
    g = F.method(repo, "GroupBase", "alter", GROUP)

    class _Mdl(Fake):
        def __init__(self, name, log):
            self.name, self.log = name, log

        def alter(self, src, idx, value, attr="v"):
            self.log.append((self.name, src, idx, value, attr))

    def run_group(idx, val, attr):
        log = []
        owner = {1: _Mdl("A", log), 2: _Mdl("B", log), 3: _Mdl("A", log)}

        class _Grp(Fake):
            pass
        stubs = {"self._check_src": lambda *a_: None, "self._check_idx": lambda *a_: None,
                 "self._1d_vectorize": lambda i: (list(i) if isinstance(i, (list, tuple)) else [i], not isinstance(i, (list, tuple))),
                 "self.idx2model": lambda ii: [owner[i] for i in ii], "np.integer": int, "np.floating": float, "np.ndarray": list}
        TinyExec(repo, "GroupBase", GROUP, stubs=stubs).call("alter", _Grp(), "p", idx, val, attr)
        return log
    try:
        bad = []
        for idx, val, attr, want in (([1, 2, 3], [10.0, 20.0, 30.0], "v", [("A", "p", 1, 10.0, "v"), ("B", "p", 2, 20.0, "v"), ("A", "p", 3, 30.0, "v")]),
                                     ([2, 1], 5.0, "vin", [("B", "p", 2, 5.0, "vin"), ("A", "p", 1, 5.0, "vin")]),
                                     (3, 4.0, "v", [("A", "p", 3, 4.0, "v")])):
            got = run_group(idx, val, attr)
            if got != want:
                bad.append("alter(idx=%r, value=%r, attr=%r) reaches %s" % (idx, val, attr, got))
        ctx.check(not bad, "C11.invariant", "GroupBase.alter", "delegates every addressed device to the owning model's alter() with its own value and attr",
                  "group alteration does not go through Model.alter device by device (vin/v would diverge): " + "; ".join(bad[:2]), g.W())
    except Unsupported as ex:
        ctx.undecided("C11.invariant", "GroupBase.alter", "evaluator: %s" % ex, g.W())
    # sibling rule: the group-level setter reaches the same side effects as Model.set (time constants -> dae.Tf / Teye, Bus.set ->
    # connectivity record): it delegates to the owning model's set(), it does not write the attribute array itself
    gs = F.method(repo, "GroupBase", "set", GROUP)
    deleg = False
    direct = []
    for lp, e in Q.loops(gs.fn, "zip($models, $idx, $value)", "($m, $i, $v)"):
        for c in calls_in(lp):
            if isinstance(c.func, ast.Attribute) and c.func.attr == "set" and src(c.func.value) == src(e["m"]):
                deleg = True
        for st in ast.walk(lp):
            if isinstance(st, ast.Assign) and isinstance(st.targets[0], ast.Subscript) and "__dict__" in src(st.targets[0]):
                direct.append(st)
    ctx.check(deleg and not direct, "C11.invariant", "GroupBase.set", "delegates to the owning model's set()",
              "Group.set writes the attribute array itself (`%s`) instead of calling the model's set(): the side effects of Model.set are "
              "skipped -- a time constant set through a group (SynGen.set('M', ...)) does not reach dae.Tf / TDS.Teye, a bus status set through "
              "ACTopology is not recorded" % (src(direct[0]) if direct else "no delegation found"), gs.W(direct[0]) if direct else gs.W())


def tconst_gates(repo):
    """[(what, store statement, extra gating conditions)] of the dae.Tf / TDS.Teye writes in Model.set"""
    s = F.method(repo, "Model", "set", MODEL)
    out = []
    for lp, e in Q.loops(s.fn, "self.states.values()", "$st"):
        for pat, what in (("self.system.dae.Tf[$a] = $v", "dae.Tf"), ("self.system.TDS.Teye[$a, $b] = $v", "TDS.Teye")):
            for st in [n_ for n_ in ast.walk(lp) if isinstance(n_, ast.Assign) and Q.match(pat, n_)]:
                extra = [c for c in (Q.condition_chain(lp, st) or []) if hasattr(c, "test") and "t_const" not in src(c.test)
                         and "isinstance(uid" not in src(c.test)]
                out.append((what, st, extra))
    return s, out


def rule_tconst(ctx, repo):
    s = F.method(repo, "Model", "set", MODEL)
    fn = s.fn
    t = [tn for tn in s.g.nodes() if s.g.data(tn)["kind"] == "test" and Q.match("attr == 'v'", s.g.data(tn)["ast"].test)]
    ok = bool(t)
    if ok:
        ok = False
        for lp, e in Q.loops(fn, "self.states.values()", "$st"):
            if Q.has("self.system.dae.Tf[$st.a[uid]] = instance.v[uid]", lp, e) and "t_const is instance" in src(lp):
                for lp2, e2 in Q.loops(lp, "uid", "$ii", e):
                    if Q.has("self.system.TDS.Teye[$u[$ii], $u[$ii]] = instance.v[$ii]", lp2, e2):
                        ok = True
    ctx.check(ok, "C11.tconst", "Model.set", "altering a time constant updates dae.Tf and the diagonal of TDS.Teye at the state's address",
              "a changed time constant is no longer propagated to both dae.Tf and TDS.Teye", s.W())
    # the two writes are unconditional once the state is governed by the altered parameter (no routine-state gate)
    for lp, e in Q.loops(fn, "self.states.values()", "$st"):
        for pat, what in (("self.system.dae.Tf[$a] = $v", "dae.Tf"), ("self.system.TDS.Teye[$a, $b] = $v", "TDS.Teye")):
            for st, _b in Q.search(pat, lp, None) if False else [(n_, None) for n_ in ast.walk(lp) if isinstance(n_, ast.Assign) and Q.match(pat, n_)]:
                extra = [c for c in (Q.condition_chain(lp, st) or []) if hasattr(c, "test") and "t_const" not in src(c.test)
                         and "isinstance(uid" not in src(c.test)]
                ctx.check(not extra, "C11.tconst", "Model.set/%s-unconditional" % what, "%s is written whenever the altered parameter is the state's time constant" % what,
                          "the write `%s` is additionally gated by `%s`: under that condition the time constant in %s goes stale "
                          "(eigenvalue analysis and the integrator read it)" % (src(st), src(extra[0].test) if extra else "", what), s.W(st))
    # universality: one parameter may be the time constant of several states (REGCA1.Tg, REPCA1.Tfltr ...): every one is visited
    for lp, e in Q.loops(fn, "self.states.values()", "$st"):
        ex = Q.early_exits(lp)
        inner = [x for lp2, e2 in Q.loops(lp, "uid", "$ii", e) for x in Q.early_exits(lp2)]
        ctx.check(not ex and not inner, "C11.tconst", "Model.set/all-states", "the loop over states (and over the addressed devices) has no early exit",
                  "`%s` at line %d leaves the update loop early: further states governed by the same time constant keep the old value in "
                  "dae.Tf / Teye" % (src((ex + inner)[0]), (ex + inner)[0].lineno) if (ex or inner) else "", s.W(lp))
    w = [n for n in s.g.nodes() if s.g.data(n)["kind"] == "stmt" and Q.match("instance.__dict__[attr][uid] = value", s.g.data(n)["ast"])]
    ok = bool(w) and Q.has("uid = self.idx2uid(idx)", fn) and Q.has("instance = self.__dict__[src]", fn)
    ctx.check(ok, "C11.tconst", "Model.set/write", "<src>.<attr>[idx2uid(idx)] = value", "set() no longer writes the addressed element", s.W())


def rule_export(ctx, repo):
    d = F.method(repo, "ModelData", "as_dict", MODELDATA)
    # decided by evaluation (engine/tinyexec.py) on a parameter table that covers the kinds of exported object: with / without stored
    # input, input not stored yet, with / without a serializer (oconvert), not exported
    from engine.tinyexec import TinyExec, Fake
    from engine.ordertype import Unsupported

    class _P(Fake):
        def __init__(self, v, vin="absent", conv=None, export=True):
            self.v, self.oconvert, self.export = v, conv, export
            if vin != "absent":
                self.vin = vin

    def ser(x):
        return ("ser", x)

    class _MD(Fake):
        pass
    md = _MD()
    md.n = 2
    from collections import OrderedDict
    md.params = OrderedDict([("a", _P([1.5, 2.5], [1, 2])), ("b", _P([3.5, 4.5], [3, 4], ser)), ("c", _P([5.5, 6.5])),
                             ("d", _P([7.5, 8.5], None, ser)), ("e", _P([9.5, 9.5], [9, 9], None, False)), ("f", _P([0.5, 0.25], [5, 2.5]))])
    stubs = {"np.arange": lambda n_: list(range(n_)), "np.array": lambda x, **k_: list(x), "np.asarray": lambda x, **k_: list(x),
             "OrderedDict": OrderedDict}

    def reference(vin):
        out = {"uid": [0, 1]}
        for nm, p_ in md.params.items():
            if p_.export is False:
                continue
            val = p_.vin if (vin is True and getattr(p_, "vin", None) is not None) else p_.v
            out[nm] = [ser(x) for x in val] if p_.oconvert is not None else val
        return out
    bad1, bad2, und = [], [], None
    for vin in (True, False):
        try:
            got = TinyExec(repo, "ModelData", MODELDATA, stubs=stubs).call("as_dict", md, vin=vin)
        except Unsupported as ex:
            und = str(ex)
            break
        want = reference(vin)
        got = {k_: list(v_) for k_, v_ in dict(got).items()} if isinstance(got, dict) else got
        if not isinstance(got, dict) or set(got) != set(want):
            bad1.append("as_dict(vin=%s) returns keys %s, expected %s" % (vin, sorted(got) if isinstance(got, dict) else got, sorted(want)))
            continue
        for nm in want:
            if got[nm] != want[nm]:
                plain = md.params[nm].oconvert is None if nm in md.params else True
                (bad1 if plain else bad2).append("as_dict(vin=%s)[%r] = %s, expected %s" % (vin, nm, got[nm], want[nm]))
    if und:
        ctx.undecided("C11.export", "ModelData.as_dict", "evaluator: %s" % und, d.W())
        ctx.undecided("C11.export", "ModelData.as_dict/all-params", "evaluator: %s" % und, d.W())
    else:
        ctx.check(not bad1, "C11.export", "ModelData.as_dict", "vin=True returns the input-base values where stored, v otherwise; vin=False returns v",
                  "; ".join(bad1[:3]), d.W())
        ctx.check(not bad2, "C11.export", "ModelData.as_dict/all-params",
                  "vin override independent of the serializer; oconvert applied to the selected value",
                  "parameters with a serializer are exported wrongly (%s): list-valued / converted parameters are exported in system base "
                  "or converted twice when read back" % "; ".join(bad2[:3]), d.W())
    i = F.method(repo, "ModelData", "__init__", MODELDATA)
    ok = Q.has("self.cache.add_callback('df_in', lambda: self.as_df(vin=True))", i.fn)
    ctx.check(ok, "C11.export", "ModelData.cache.df_in", "cached export view is as_df(vin=True)", "df_in is no longer the input-base view", i.W())
    # freshness: every read of cache.df_in in an exporter is dominated by cache.refresh("df_in") on the same object
    sites = 0
    for rel in ("andes/io/xlsx.py", "andes/io/json.py"):
        for name, fn in repo.funcs.get(rel, {}).items():
            reads = []
            for n in walk_noscope(fn):
                if isinstance(n, ast.Attribute) and n.attr == "df_in" and isinstance(n.value, ast.Attribute) and n.value.attr == "cache":
                    reads.append(n)
            if not reads:
                continue
            f = F.function(repo, rel, name)
            for rd in reads:
                sites += 1
                owner = src(rd.value.value)
                node = [x for x in f.g.nodes() if f.g.data(x)["ast"] is not None and f.g.data(x)["kind"] in ("stmt", "test", "loop")
                        and any(y is rd for e_ in f.g.data(x)["expr"] for y in ast.walk(e_))]
                if not node:
                    continue
                ref = [x for x in f.g.nodes() if f.g.data(x)["kind"] == "stmt" and (
                    Q.match('%s.cache.refresh("df_in")' % owner, f.g.data(x)["ast"]) or Q.match("%s.cache.refresh()" % owner, f.g.data(x)["ast"]))]
                ok, p = f.g.must_pass(f.g.entry, node[0], ref) if ref else (False, None)
                ctx.check(ok, "C11.export", "%s::%s/%s.cache.df_in" % (rel.split("/")[-1], name, owner),
                          "cached input-base view refreshed before it is written",
                          "the cached view %s.cache.df_in is written without cache.refresh('df_in'): an export after alter() "
                          "(or after an earlier export) writes stale values" % owner, f.W(node[0]))
    if sites < 3:
        raise AnalysisError("exporter reads of cache.df_in: %d found, 3 confirmed by reading" % sites)


def rule_borrowed(ctx, repo):
    """A parameter borrowed through ExtParam from a per-unit-flagged source must carry the source's SYSTEM-base value ("values read
    through a model and through its group are the same number").  ExtParams are linked before the conversion (the bases themselves may
    be borrowed), so for every flagged source System.setup must link again AFTER calc_pu_coeff."""
    from engine import elab
    models = elab.load_models()
    flags = ("power", "ipower", "voltage", "current", "z", "y", "dc_voltage", "dc_current", "r", "g")
    groups = {}
    for n, m in models.items():
        groups.setdefault(m.group, []).append(m)
    flagged = []
    for n, m in models.items():
        for pn, p in m.params_ext.items():
            cands = [models[p.model]] if p.model in models else groups.get(p.model, [])
            fl = set()
            for c in cands:
                sp_ = c.params.get(p.src)
                if sp_ is not None and hasattr(sp_, "property"):
                    fl |= {k for k in flags if sp_.property.get(k)}
            if fl:
                flagged.append((n, pn, p.model, p.src, sorted(fl), m, pn))
    ctx.count("extparams_with_flagged_source", len(flagged))
    su = F.method(repo, "System", "setup", SYSTEM)
    conv = su.calls("self.calc_pu_coeff")
    links = su.calls("self.link_ext_param")
    after = [l for l in links if conv and su.g.reachable(conv[0], l)]
    # the refreshing link may only depend on the outcome of the first link (`ret`)
    clean = []
    for l in after:
        st = su.g.data(l)["ast"]
        chain = Q.condition_chain(su.fn, st) or []
        if all(hasattr(c, "test") and src(c.test).replace(" ", "") in ("retisTrue", "ret") for c in chain):
            clean.append(l)
    for n, pn, sm, sp_name, fl, m, _ in flagged:
        ctx.check(bool(clean), "C11.coeff", "%s.%s<-%s.%s" % (n, pn, sm, sp_name), "borrowed after the source's conversion (%s)" % ",".join(fl),
                  "%s.%s borrows %s.%s, a per-unit quantity (%s), but is linked only BEFORE calc_pu_coeff and never refreshed: it keeps the device-base "
                  "input value while the source holds the system-base value" % (n, pn, sm, sp_name, ",".join(fl)), elab.locate(m, pn))


def rule_effect(ctx, repo):
    """'takes effect in the next residual evaluation': a parameter that reaches the equations ONLY through ConstService strings is
    read when the services are evaluated (at initialisation), not when the residuals are; altering it afterwards changes nothing
    unless the alteration call re-evaluates the dependent services.  Mechanism-level rule: either no dynamic model has such a
    parameter, or Model.set / Model.alter refresh the services."""
    import re
    from engine import elab, dsl
    models = elab.load_models()
    affected = {}
    for name, m in models.items():
        if not m.flags.tds:
            continue
        st = dsl.SymTab(m)

        def syms(text):
            try:
                return {str(x) for x in dsl.parse_dsl(text, st).free_symbols}
            except Exception:
                return set(re.findall(r"[A-Za-z_][A-Za-z_0-9]*", text))
        eq = set()
        for vn, v in m.cache.all_vars.items():
            if v.e_str:
                eq |= syms(v.e_str)
        for dn, d in m.discrete.items():
            for a in ("u", "lower", "upper", "center", "bound"):
                o = getattr(d, a, None)
                if o is not None and getattr(o, "name", None):
                    eq.add(o.name)
        for sn, sv in m.services.items():
            if type(sv).__name__ == "VarService" and sv.v_str:
                eq |= syms(sv.v_str)
        const = {sn: sv for sn, sv in m.services.items() if type(sv).__name__ == "ConstService" and sv.v_str}
        dep = {sn: syms(sv.v_str) for sn, sv in const.items()}
        used = {x for x in eq if x in const}
        frontier = list(used)
        while frontier:
            for d_ in dep[frontier.pop()]:
                if d_ in const and d_ not in used:
                    used.add(d_)
                    frontier.append(d_)
        via = set()
        for sn in used:
            via |= dep[sn]
        ps = sorted(p for p in m.num_params if p in via and p not in eq and p not in ("u", "ug"))
        if ps:
            affected[name] = ps
    n = sum(len(v) for v in affected.values())
    ctx.count("service_mediated_parameters", n)
    ms = F.method(repo, "Model", "set", MODEL)
    ma = F.method(repo, "Model", "alter", MODEL)
    refreshes = any((dotted(c.func) or "").split(".")[-1] in ("s_update", "s_update_var", "s_update_post", "refresh_services")
                    for f_ in (ms, ma) for c in calls_in(f_.fn))
    sample = "; ".join("%s: %s" % (k, ",".join(v[:4])) for k, v in list(sorted(affected.items()))[:6])
    ctx.check(n == 0 or refreshes, "C11.effect", "Model.alter/const-services", "altered parameters reach the residuals (no service-mediated parameter, or services refreshed)",
              "%d parameters of %d dynamic models reach the equations only through ConstService strings (%s ...); Model.set/alter write the "
              "parameter array and do not re-evaluate the services: after dynamic initialisation such an alteration has no effect on the "
              "residuals" % (n, len(affected), sample), ms.W())


def rule_reset(ctx, repo):
    r = F.method(repo, "System", "reset", SYSTEM)
    a = r.calls("self._p_restore")
    b = r.calls("self.setup")
    ok = bool(a and b) and r.before(a, b)[0]
    ctx.check(ok, "C11.reset", "System.reset", "_p_restore() precedes setup()", "reset re-runs setup without restoring the input values first", r.W())
    ok = any(Q.match("self.is_setup = False", r.g.data(n)["ast"]) for n in r.g.nodes() if r.g.data(n)["kind"] == "stmt")
    ctx.check(ok, "C11.reset", "System.reset/is_setup", "is_setup cleared so setup() runs again", "reset no longer clears is_setup", r.W())
    p = F.method(repo, "System", "_p_restore", SYSTEM)
    ok = False
    for lp, e in Q.loops(p.fn, "self.models.values()", "$m"):
        for lp2, e2 in Q.loops(lp, "$m.num_params.values()", "$p", e):
            if Q.has("$p.restore()", lp2, e2):
                ok = True
    ctx.check(ok, "C11.reset", "System._p_restore", "all models x all numeric parameters restored", "_p_restore no longer covers every numeric parameter", p.W())
    # "back to the state after set-up, before power flow": the DAE returns to the state of DAE.__init__ -- every size counter of the
    # array/counter table at zero and the time at the not-initialised sentinel (equations switch on `dae_t < 0`)
    DAEF = "andes/variables/dae.py"
    i_ = F.method(repo, "DAE", "__init__", DAEF)
    d = F.method(repo, "DAE", "reset", DAEF)
    tab, t0 = None, None
    for n in walk_noscope(i_.fn):
        if isinstance(n, ast.Assign) and dotted(n.targets[0]) == "self._array_and_counter" and isinstance(n.value, ast.Dict):
            tab = sorted({v.value for v in n.value.values})
        m = (Q.match("self.t = np.array($v, dtype=float)", n) or Q.match("self.t = np.array($v)", n) or Q.match("self.t = np.array($v, dtype=$d)", n)) \
            if isinstance(n, ast.Assign) else None
        if m:
            t0 = src(m["v"])
    if tab is None or t0 is None:
        raise AnalysisError("DAE.__init__: array/counter table or the time sentinel vanished")
    zeroed = set()
    for n in walk_noscope(d.fn):
        if isinstance(n, ast.Assign) and isinstance(n.value, (ast.Constant, ast.Tuple)):
            for t in n.targets:
                for x in (t.elts if isinstance(t, ast.Tuple) else [t]):
                    dd = dotted(x) or ""
                    if dd.startswith("self.") and (src(n.value) == "0" or (isinstance(n.value, ast.Tuple) and all(src(e_) == "0" for e_ in n.value.elts))):
                        zeroed.add(dd[5:])
    missing = [c for c in tab if c not in zeroed]
    ctx.check(not missing, "C11.reset", "DAE.reset/counters", "every size counter of _array_and_counter (%s) is zeroed" % ", ".join(tab),
              "DAE.reset leaves the counter(s) %s at their old value: set-up after a reset allocates new slots behind the old ones, which "
              "nobody owns any more" % ", ".join(missing), d.W())
    tset = [src(c.args[0]) for c in calls_in(d.fn) if dotted(c.func) == "self.set_t" and c.args] + \
        [src(Q.match("self.t = np.array($v, dtype=float)", n)["v"]) for n in walk_noscope(d.fn) if isinstance(n, ast.Assign) and Q.match("self.t = np.array($v, dtype=float)", n)]
    ctx.check(bool(tset) and all(float(x) == float(t0) for x in tset), "C11.reset", "DAE.reset/time", "time returns to the sentinel %s of a system that was never initialised" % t0,
              "DAE.reset sets the time to %s, a fresh DAE has %s: equations that switch on `dae_t < 0` (PQ) are evaluated in their time-domain form "
              "by the next power flow" % (tset, t0), d.W())


def run(ctx):
    ctx.rule("C11.coeff", "coefficient table == textbook base ratios (normal form), key set == NumParam flags, all applied, base selection; borrowed per-unit parameters refreshed after conversion", 14)
    ctx.rule("C11.invariant", "v == vin*k after to_array / set_pu_coeff / restore / both branches of Model.alter; Group.alter delegates", 6)
    ctx.rule("C11.tconst", "time-constant alteration reaches dae.Tf and TDS.Teye for every governed state, unconditionally", 5)
    ctx.rule("C11.export", "export reads the input-base view and refreshes the cached view first (dominance)", 5)
    ctx.rule("C11.reset", "restore before setup on reset; DAE back to its constructed state (counters, time sentinel)", 5)
    ctx.rule("C11.effect", "altered parameters reach the residuals: none is read only when the ConstServices are evaluated, or alter refreshes them", 1)
    repo = Repo()
    rule_coeffs(ctx, repo)
    rule_invariant(ctx, repo)
    rule_borrowed(ctx, repo)
    rule_effect(ctx, repo)
    rule_tconst(ctx, repo)
    rule_export(ctx, repo)
    rule_reset(ctx, repo)
