"""C20.alternatives/<Class>.<field>/write -- code that assigns a constant to a configuration field assigns one of its declared alternatives, with
the type the alternatives have.

check() validates user-supplied values against the `_alt` table; an assignment made by the program itself (`config.fixt = False`) by-passes
it.  A value of another type survives in memory (False == 0) but not through save_config -> load (the text `False` is not in (0, 1)), and
it is what `save_config` writes.  Slots from the source: the `_alt` tables of every class (`config.add_extra("_alt", ...)`), the writes
`<..>.config.<field> = <constant>` in every module, the class owning the config by the receiver (`self.config` in a method of the class;
a local alias `config = self.config`)."""
import ast

from engine.pysrc import dotted, src, calls_in
from engine.cfg import walk_noscope


def _literal_keys(call):
    out = {}
    for k in call.keywords:
        if k.arg:
            out[k.arg] = k.value
    return out


def alt_tables(repo):
    """class name -> {field: tuple of alternatives}"""
    out = {}
    for cl in repo.classes.values():
        for ci in cl:
            fn = ci.methods.get("__init__")
            if fn is None:
                continue
            for c in calls_in(fn):
                if dotted(c.func) == "self.config.add_extra" and c.args and isinstance(c.args[0], ast.Constant) and c.args[0].value == "_alt":
                    for k, v in _literal_keys(c).items():
                        try:
                            lit = ast.literal_eval(v)
                        except Exception:      # noqa
                            continue
                        if isinstance(lit, (tuple, list)):
                            out.setdefault(ci.name, {})[k] = tuple(lit)
    return out


def run_rule(ctx, repo):
    alts = alt_tables(repo)
    n = 0
    for cname, cl in repo.classes.items():
        for ci in cl:
            table = {}
            for k in repo.mro(ci.name, ci.path):
                for f_, a_ in alts.get(k.name, {}).items():
                    table.setdefault(f_, a_)
            if not table:
                continue
            for mname, fn in ci.methods.items():
                for st in walk_noscope(fn):
                    if not (isinstance(st, ast.Assign) and len(st.targets) == 1 and isinstance(st.targets[0], ast.Attribute)):
                        continue
                    t = st.targets[0]
                    if dotted(t.value) != "self.config" or t.attr not in table or not isinstance(st.value, ast.Constant):
                        continue
                    n += 1
                    alt = table[t.attr]
                    v = st.value.value
                    ok = any(v == a and type(v) is type(a) for a in alt)
                    ctx.check(ok, "C20.alternatives", "%s.%s/write@%s" % (ci.name, t.attr, mname),
                              "`%s` assigns one of the declared alternatives %s" % (src(st), alt),
                              "`%s` in %s.%s: %r is not one of the declared alternatives %s (type %s instead of %s) -- the value by-passes check(), "
                              "save_config writes it as `%s = %s` and loading that file is rejected" % (
                                  src(st), ci.name, mname, v, alt, type(v).__name__, type(alt[0]).__name__, t.attr, v), repo.W(ci, st))
    if n == 0:
        ctx.ok("C20.alternatives", "config-field/writes", "no method assigns a constant to an enumerated configuration field", "", nontrivial=False)
