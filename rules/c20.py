"""C20 -- the configuration in effect is the one the user supplied.

Decided: typestate on constructors (Config -> load(rc object) -> add(defaults)) for System, BaseRoutine, Model and every
subclass (config.add* after the base-constructor call); options merged into the rc object before the first load; the same
object reaches every model and routine; _add skips existing keys, update does not; coercion chain; malformed option =>
raise; option sections created iff absent; check() after construction and in update; _alt/_help/_tex keys are declared
fields (per constructor, MRO-resolved); every shipped default survives str -> coerce with value and type."""
import ast
import itertools

from engine import astq as Q
from engine import elab
from engine.cfg import walk_noscope
from engine.pysrc import Repo, F, dotted, src, calls_in
from engine.report import AnalysisError

COMMON = "andes/core/common.py"
SYSTEM = "andes/system.py"
BASE = "andes/routines/base.py"
MODEL = "andes/core/model/model.py"


def coerce(val):
    """the coercion chain of Config._set, re-stated (and verified against its AST by rule_coercion)."""
    if isinstance(val, str):
        try:
            return int(val)
        except ValueError:
            try:
                return float(val)
            except ValueError:
                if val in ("True", "False"):
                    return val == "True"
                return val
    return val


def rule_config_class(ctx, repo):
    a = F.method(repo, "Config", "_add", COMMON)
    t = [tn for tn in a.g.nodes() if a.g.data(tn)["kind"] == "test" and Q.match("$k in self.__dict__", a.g.data(tn)["ast"].test)]
    st = a.calls("self._set")
    ok = bool(t and st) and all(a.g.guarded_by(n, t[0], "false") for n in st) and \
        any(isinstance(a.g.data(n)["ast"], ast.Continue) and a.g.guarded_by(n, t[0], "true") for n in a.g.nodes() if a.g.data(n)["kind"] == "stmt")
    ctx.check(ok, "C20.precedence", "Config._add", "existing keys (loaded from file/options) are not overwritten by defaults",
              "defaults overwrite values that were already loaded: file/option values lose against defaults", a.W())
    l = F.method(repo, "Config", "load", COMMON)
    ok = Q.has("self.add(OrderedDict($s))", l.fn) and Q.has("$s = config[self._name]", l.fn) and bool(l.tests(lambda c: c.strip() == "self._name in config"))
    ctx.check(ok, "C20.precedence", "Config.load", "loads exactly its own section of the rc object through add()",
              "config loading no longer reads the owner's own section", l.W())
    u = F.method(repo, "Config", "update", COMMON)
    ok = any(Q.has("self._set($k, $v)", lp, e) for lp, e in Q.loops(u.fn, "kwargs.items()", "($k, $v)")) and \
        u.after(u.calls("self._set"), u.calls("self.check"))[0]
    ctx.check(ok, "C20.precedence", "Config.update", "update overwrites and then validates", "update no longer sets every key and re-checks", u.W())
    # coercion, decided by evaluation: Config._set is evaluated (engine/tinyexec.py, helper methods followed) on one representative per
    # input class; the stored value must keep / acquire exactly the documented type: str -> int if it reads as one, else float, else
    # unchanged; anything that is not a string is stored as given
    from engine.tinyexec import TinyExec, Self
    from engine.ordertype import Unsupported
    s = F.method(repo, "Config", "_set", COMMON)
    samples = [("12", 12, int), ("-180", -180, int), ("+7", 7, int), ("007", 7, int), ("1.5", 1.5, float), ("1e-3", 1e-3, float), ("-2.", -2.0, float),
               ("inf", float("inf"), float), ("klu", "klu", str), ("", "", str), ("1,2", "1,2", str), ("0x10", "0x10", str),
               (3, 3, int), (2.5, 2.5, float), (True, True, bool), (None, None, type(None)), ((0, 1), (0, 1), tuple)]
    bad, undec = [], None
    for given, want, wtype in samples:
        so = Self()
        try:
            TinyExec(repo, "Config", COMMON).call("_set", so, "k", given)
        except Unsupported as ex:
            undec = str(ex)
            break
        except Exception as ex:     # the interpreted code raised
            bad.append("_set('k', %r) raises %s" % (given, type(ex).__name__))
            continue
        got = so.d.get("k", "<not stored>")
        if type(got) is not wtype or got != want:
            bad.append("%r is stored as %r (%s), expected %r (%s)" % (given, got, type(got).__name__, want, wtype.__name__))
    if undec:
        ctx.undecided("C20.coercion", "Config._set", "evaluator: %s" % undec, s.W())
    else:
        ctx.check(not bad, "C20.coercion", "Config._set", "%d input classes: str -> int, else float, else unchanged; non-strings stored as given" % len(samples),
                  "; ".join(bad[:4]), s.W())
    # text round trip: save_config writes str(v); for every kind of non-string value _set stores as given (and check() accepts for an
    # enumerated field: True == 1), reading that text back must give the value with its type
    bad2, undec2 = [], None
    for v in (3, -4, 2.5, 1e-8, True, False):
        so = Self()
        try:
            TinyExec(repo, "Config", COMMON).call("_set", so, "k", str(v))
        except Unsupported as ex:
            undec2 = str(ex)
            break
        got = so.d.get("k", "<not stored>")
        if type(got) is not type(v) or got != v:
            bad2.append("%r is written as the text %r and read back as %r (%s)" % (v, str(v), got, type(got).__name__))
    if undec2:
        ctx.undecided("C20.roundtrip", "Config._set/text-round-trip", "evaluator: %s" % undec2, s.W())
    else:
        ctx.check(not bad2, "C20.roundtrip", "Config._set/text-round-trip", "int, float and bool values read back from their saved text with their type",
                  "; ".join(bad2[:3]) + " -- a Boolean accepted for a (0, 1) field is saved as `True`, which the loader keeps as a string and "
                  "check() then rejects: the saved configuration cannot be loaded", s.W())
    c = F.method(repo, "Config", "check", COMMON)
    rs = [n for n in walk_noscope(c.fn) if isinstance(n, ast.Raise) and "ValueError" in src(n)]
    t = [n for n in walk_noscope(c.fn) if isinstance(n, ast.If) and Q.match("val not in _alt", n.test)]
    ok = bool(rs and t) and any(isinstance(x, ast.Raise) for x in t[0].body)
    ctx.check(ok, "C20.alternatives", "Config.check", "value not among a (non-string) iterable of alternatives => ValueError",
              "values outside the declared alternatives are no longer rejected", c.W())
    d = F.method(repo, "Config", "as_dict", COMMON)
    ok = bool([n for n in walk_noscope(d.fn) if isinstance(n, ast.If) and Q.match("not key.startswith('_')", n.test)])
    ctx.check(ok, "C20.save", "Config.as_dict", "internal (_-prefixed) attributes are not exported", "as_dict exports internal attributes", d.W())


def rule_options(ctx, repo):
    f = F.method(repo, "System", "_update_config_object", SYSTEM)
    g = f.g
    # precedence option > file: every well-formed option is written into the parser object, which already holds the rc file;
    # no condition on what the object contains may stand between an option and its `set`
    for lp in [l for l in ast.walk(f.fn) if isinstance(l, ast.For) and "config_option" in src(l.iter)]:
        sets = [c for c in calls_in(lp) if isinstance(c.func, ast.Attribute) and c.func.attr == "set" and "_config_object" in src(c.func.value)]
        skips = [x for x in ast.walk(lp) if isinstance(x, ast.Continue)]
        bad = []
        for sk in skips:
            ch = Q.condition_chain(lp, sk) or []
            bad += ["`continue` under `%s`" % src(c.test) for c in ch if hasattr(c, "test")] or ["unconditional `continue`"]
        for c in sets:
            st = next((x for x in ast.walk(lp) if isinstance(x, ast.Expr) and x.value is c), None)
            ch = Q.condition_chain(lp, st) if st is not None else []
            bad += ["`set` under `%s`" % src(x.test) for x in (ch or []) if hasattr(x, "test")]
        ctx.check(bool(sets) and not bad, "C20.precedence", "_update_config_object/overwrite", "every option is written over whatever the rc file supplied",
                  "%s: an option can be skipped depending on what the parser object already holds (the rc file) -- the file value then beats the "
                  "option" % "; ".join(bad[:2]) if bad else "no `_config_object.set(section, key, value)` in the option loop", f.W(lp))
    t1 = [tn for tn in g.nodes() if g.data(tn)["kind"] == "test" and Q.match("item.count('=') != 1", g.data(tn)["ast"].test)]
    t2 = [tn for tn in g.nodes() if g.data(tn)["kind"] == "test" and Q.match("field.count('.') != 1", g.data(tn)["ast"].test)]
    rs = [n for n in g.nodes() if g.data(n)["kind"] == "stmt" and isinstance(g.data(n)["ast"], ast.Raise) and "ValueError" in src(g.data(n)["ast"])]
    ok = bool(t1 and t2) and any(g.guarded_by(r, t1[0], "true") for r in rs) and any(g.guarded_by(r, t2[0], "true") for r in rs)
    ctx.check(ok, "C20.options", "_update_config_object/malformed", "not exactly one '=' or one '.' => ValueError",
              "malformed option strings are no longer rejected", f.W())
    # section typestate: add_section only if the section is absent; set only on an existing section
    adds = f.calls("add_section")
    sets = [n for n in f.calls("self._config_object.set", exact=True)]
    bad = []
    has_t = [tn for tn in g.nodes() if g.data(tn)["kind"] == "test" and "has_section(section)" in src(g.data(tn)["ast"].test)]
    for a in adds:
        guarded = any(g.guarded_by(a, t, "true") for t in has_t if src(g.data(t)["ast"].test).replace(" ", "").startswith("not")) or \
            any(g.guarded_by(a, t, "false") for t in has_t if not src(g.data(t)["ast"].test).replace(" ", "").startswith("not"))
        if not guarded:
            bad.append("add_section(section) at L%d is not guarded by `not has_section(section)`: a second option for the same "
                       "section raises DuplicateSectionError" % g.line(a))
    for s_ in sets:
        # every path to set() passes add_section or a has_section test
        ok1, p = g.must_pass(g.entry, s_, adds + has_t)
        if not ok1:
            bad.append("set(section, ...) at L%d can run for a section that was never created: NoSectionError for a valid option" % g.line(s_))
    ctx.check(bool(sets) and not bad, "C20.options", "_update_config_object/sections",
              "sections are created iff absent before values are set (any number of options per section, with or without rc file)",
              "; ".join(bad), f.W())
    # every argument of parser.set(section, key, value) derives from a .strip() (def-use, any spelling)
    unstripped = []
    set_calls = [c for c in calls_in(f.fn) if isinstance(c.func, ast.Attribute) and c.func.attr == "set" and len(c.args) == 3]
    for c in set_calls:
        for a_ in c.args:
            names, stmts = Q.slice_names(f.fn, a_)
            stripped = any(isinstance(x, ast.Call) and isinstance(x.func, ast.Attribute) and x.func.attr == "strip"
                           for st in stmts for x in ast.walk(st)) or \
                any(isinstance(x, ast.Call) and isinstance(x.func, ast.Attribute) and x.func.attr == "strip" for x in ast.walk(a_))
            if not stripped:
                unstripped.append(src(a_))
    ctx.check(bool(set_calls) and not unstripped, "C20.options", "_update_config_object/strip", "section, key and value are stripped before they are stored",
              "option part(s) %s reach the parser without .strip()" % unstripped, f.W())
    i = F.method(repo, "System", "__init__", SYSTEM)
    a = i.calls("self._update_config_object")
    b = i.calls("self.config.load")
    c = i.calls("load_config_rc")
    ok = bool(a and b and c) and i.before(c, a)[0] and i.before(a, b)[0]
    ctx.check(ok, "C20.options", "System.__init__/merge-before-load", "rc file read -> options merged into it -> first Config.load",
              "options are merged after the configuration was loaded (options would lose against the file)", i.W())
    ok = Q.has("self._config_path = None", i.fn) and bool(i.tests(lambda c_: c_.strip() == "default_config is True"))
    ctx.check(ok, "C20.options", "System.__init__/default_config", "default_config ignores the rc file", "default_config no longer bypasses the rc file", i.W())


def rule_constructors(ctx, repo):
    """Config(...) -> load(rc) -> add(defaults) in the three base constructors; subclasses add after the base call."""
    for cname, path, userdict in (("System", SYSTEM, "config"), ("BaseRoutine", BASE, None), ("Model", MODEL, None)):
        f = F.method(repo, cname, "__init__", path)
        mk, early = [], []
        for n in f.g.nodes():
            a = f.g.data(n).get("ast") if f.g.data(n)["kind"] == "stmt" else None
            if isinstance(a, ast.Assign) and dotted(a.targets[0]) == "self.config" and isinstance(a.value, ast.Call) and dotted(a.value.func) == "Config":
                mk.append(n)
                # anything beyond the name handed to the constructor is add()ed BEFORE load(): only the user's dictionary may be
                extra = [x for x in a.value.args[1:]] + [k.value for k in a.value.keywords if k.arg != "name"]
                early += [src(x) for x in extra if not (userdict and isinstance(x, ast.Name) and x.id == userdict)]
        if early:
            ctx.violation("C20.typestate", "%s.__init__/ctor-args" % cname,
                          "Config(...) is constructed with %s: these entries are added before the rc object is loaded and, because "
                          "load() never overwrites, win over file and option values" % ", ".join(early), f.W())
        else:
            ctx.ok("C20.typestate", "%s.__init__/ctor-args" % cname, "nothing but the name%s precedes load()" % (" and the user dictionary" if userdict else ""))
        ld = f.calls("self.config.load")
        ad = f.calls("self.config.add", exact=True) + f.calls("self.config.add_extra", exact=True)
        ok = bool(mk and ld and ad) and f.before(mk, ld)[0] and all(not f.g.reachable(a, l) for a in ad for l in ld)
        ctx.check(ok, "C20.typestate", "%s.__init__" % cname, "Config created -> rc object loaded -> defaults added (skipping loaded keys)",
                  "defaults are added before the rc object is loaded: file/option values would be ignored", f.W())
    # same rc object handed to every model and routine
    for m, pat in (("import_models", "self.__dict__[$n] = $cls(system=self, config=self._config_object)"),
                   ("import_routines", "self.__dict__[$n] = $cls(system=self, config=self._config_object)")):
        f = F.method(repo, "System", m, SYSTEM)
        ok = Q.has(pat, f.fn) and bool(f.calls("config.check"))
        ctx.check(ok, "C20.typestate", "System.%s" % m, "every instance gets the merged rc object and is check()ed after construction",
                  "models/routines no longer receive the merged configuration object or are not validated", f.W())
    i = F.method(repo, "System", "__init__", SYSTEM)
    ctx.check(bool(i.calls("self.config.check")), "C20.typestate", "System.__init__/check", "system config validated", "system config no longer validated", i.W())
    # subclasses: every config.add* comes after the base-constructor call that reaches Config.load
    n = 0
    bases = {"Model": MODEL, "BaseRoutine": BASE}
    for cl in repo.classes.values():
        for ci in cl:
            if "__init__" not in ci.methods or ci.name in bases:
                continue
            mro = [c.name for c in repo.mro(ci.name, ci.path)]
            root = next((b for b in mro if b in bases), None)
            if root is None:
                continue
            fn = ci.methods["__init__"]
            adds = [c for c in calls_in(fn) if dotted(c.func) in ("self.config.add", "self.config.add_extra")]
            if not adds:
                continue
            n += 1
            # base calls: super().__init__(...) or <Base>.__init__(self, ...) where Base's MRO reaches the root
            base_calls = []
            for c in calls_in(fn):
                d = dotted(c.func) or ""
                if d == "super().__init__":
                    base_calls.append(c)
                elif d.endswith(".__init__"):
                    b = d.split(".")[0]
                    if b == root or root in [x.name for x in repo.mro(b)]:
                        base_calls.append(c)
            first_add = min(a.lineno for a in adds)
            ok = bool(base_calls) and min(c.lineno for c in base_calls) < first_add
            ctx.check(ok, "C20.typestate", "%s.__init__" % ci.name, "base constructor (which loads the rc object) runs before config.add",
                      "%s adds config defaults before its base constructor has loaded the rc object: values from a file/option for these "
                      "fields are silently replaced by defaults" % ci.name, repo.W(ci, fn))
    ctx.count("subclass_ctors", n)
    if n < 15:
        raise AnalysisError("subclass constructors adding config: %d found, ~25 confirmed by reading" % n)


def _literal_keys(call):
    """keys of a config.add / add_extra call written literally."""
    keys = {}
    args = list(call.args)
    if dotted(call.func) == "self.config.add_extra" and args:
        args = args[1:]
    for a in args:
        if isinstance(a, ast.Call) and dotted(a.func) == "OrderedDict" and a.args and isinstance(a.args[0], (ast.Tuple, ast.List)):
            for e in a.args[0].elts:
                if isinstance(e, (ast.Tuple, ast.List)) and len(e.elts) == 2 and isinstance(e.elts[0], ast.Constant):
                    keys[e.elts[0].value] = e.elts[1]
        elif isinstance(a, ast.Dict):
            for k, v in zip(a.keys, a.values):
                if isinstance(k, ast.Constant):
                    keys[k.value] = v
    for k in call.keywords:
        if k.arg:
            keys[k.arg] = k.value
    return keys


def rule_tables(ctx, repo):
    """keys given to add_extra are fields declared by config.add somewhere in the MRO (a typo silently drops the entry)."""
    n = 0
    defaults = []
    for cl in repo.classes.values():
        for ci in cl:
            if "__init__" not in ci.methods:
                continue
            fn = ci.methods["__init__"]
            extras = [c for c in calls_in(fn) if dotted(c.func) == "self.config.add_extra"]
            adds = [c for c in calls_in(fn) if dotted(c.func) == "self.config.add"]
            for c in adds:
                for k, v in _literal_keys(c).items():
                    try:
                        defaults.append((ci.name, k, ast.literal_eval(v)))
                    except Exception:
                        pass
            if not extras:
                continue
            declared = set()
            for k in repo.mro(ci.name, ci.path):
                init = k.methods.get("__init__")
                if init is None:
                    continue
                for c in calls_in(init):
                    if dotted(c.func) == "self.config.add":
                        declared |= set(_literal_keys(c))
            for c in extras:
                dest = c.args[0].value if c.args and isinstance(c.args[0], ast.Constant) else "?"
                ks = set(_literal_keys(c))
                n += 1
                if dest == "_alt":
                    # check() skips string-valued alternatives (they are prose: 'float', '>0'); a string that spells a tuple/list/set of
                    # literals is a declared enumeration that is silently never enforced
                    for k_, v_ in _literal_keys(c).items():
                        if isinstance(v_, ast.Constant) and isinstance(v_.value, str):
                            try:
                                lit = ast.literal_eval(v_.value)
                            except Exception:
                                lit = None
                            if isinstance(lit, (tuple, list, set)):
                                ctx.violation("C20.alternatives", "%s._alt[%s]" % (ci.name, k_),
                                              "the alternatives of `%s` are declared as the string %r: check() treats strings as prose and never "
                                              "enforces them, so a value outside %s is accepted" % (k_, v_.value, lit), repo.W(ci, v_))
                miss = sorted(ks - declared)
                ctx.check(not miss, "C20.tables", "%s.add_extra(%s)@L%d" % (ci.name, dest, c.lineno), "%d keys are declared fields" % len(ks),
                          "keys %s given to %s are not declared config fields of %s (the entry is dropped with a warning, e.g. the "
                          "alternatives are never enforced)" % (miss, dest, ci.name), repo.W(ci, c))
    ctx.count("add_extra_calls", n)
    return defaults


def rule_roundtrip(ctx, repo, defaults):
    """every shipped default survives str(v) -> coerce with the same value and type (save_config writes str(v))."""
    models = elab.load_models()
    items = list(defaults)
    for name, m in models.items():
        for k, v in m.config.as_dict().items():
            items.append((name, k, v))
    seen = set()
    bad = []
    n = 0
    for owner, k, v in items:
        if (owner, k) in seen:
            continue
        seen.add((owner, k))
        n += 1
        back = coerce(str(v))
        if back != v or type(back) is not type(v):
            if isinstance(v, bool) or not (isinstance(v, (int, float)) and isinstance(back, (int, float)) and back == v and float(v).is_integer() is False):
                if not (isinstance(v, float) and isinstance(back, int) and v == back):
                    bad.append("[%s].%s default %r (%s) reads back as %r (%s)" % (owner, k, v, type(v).__name__, back, type(back).__name__))
                else:
                    bad.append("[%s].%s default %r (float) reads back as int %r" % (owner, k, v, back))
    ctx.check(not bad, "C20.roundtrip", "defaults str->coerce", "%d shipped defaults keep value and type through save/load" % n,
              "; ".join(bad[:5]) + (" (+%d more)" % (len(bad) - 5) if len(bad) > 5 else ""), COMMON)
    ctx.count("defaults", n)
    c = F.method(repo, "System", "collect_config", SYSTEM)
    own = [n for n in walk_noscope(c.fn) if isinstance(n, ast.Assign) and isinstance(n.targets[0], ast.Subscript)
           and Q.match("self.__class__.__name__", n.targets[0].slice) is not None
           and isinstance(n.value, ast.Call) and dotted(n.value.func) == "self.config.as_dict"]
    # the collection that is iterated for the per-instance sections is built from both the routines and the models (def-use)
    both = False
    for lp in [l for l in ast.walk(c.fn) if isinstance(l, ast.For)]:
        names, stmts = Q.slice_names(c.fn, lp.iter)
        text = " ".join(src(st) for st in stmts) + " " + src(lp.iter)
        if "self.routines" in text and "self.models" in text:
            both = True
    ok = bool(own) and both
    ctx.check(ok, "C20.save", "System.collect_config", "system + all routines + all models", "saved configuration no longer covers system, routines and models", c.W())


def rule_update_atomic(ctx, repo):
    """'values outside the declared alternatives are rejected': a rejected update must not leave the rejected value in effect.
    Config.update either validates before it commits, or restores the previous values when check() raises."""
    u = F.method(repo, "Config", "update", COMMON)
    sets = u.calls("self._set")
    chk = u.calls("self.check")
    if not sets or not chk:
        ctx.undecided("C20.alternatives", "Config.update/atomic", "set/check calls not recognised", u.W())
        return
    check_first = u.before(chk, sets)[0]
    # rollback idiom: check() inside a try whose handler writes the fields back and re-raises
    rollback = False
    for t in [x for x in ast.walk(u.fn) if isinstance(x, ast.Try)]:
        if any(isinstance(c, ast.Call) and dotted(c.func) == "self.check" for b in t.body for c in ast.walk(b)):
            for h in t.handlers:
                writes = any(isinstance(x, (ast.Assign, ast.Delete)) or (isinstance(x, ast.Call) and (dotted(x.func) or "").split(".")[-1] in
                                                                           ("_set", "update", "pop", "__setitem__")) for b in h.body for x in ast.walk(b))
                reraises = any(isinstance(x, ast.Raise) for b in h.body for x in ast.walk(b))
                if writes and reraises:
                    rollback = True
    ctx.check(check_first or rollback, "C20.alternatives", "Config.update/atomic", "a rejected update leaves the previous values in effect",
              "update() stores the new values and then calls check(): when check() raises, the rejected value stays in the configuration "
              "and is what the routine uses from then on", u.W(sets[0]))


def _refreshing(call):
    """as_dict(...) call passes refresh=True"""
    if call.args and isinstance(call.args[0], ast.Constant) and call.args[0].value is True:
        return True
    return any(k.arg == "refresh" and isinstance(k.value, ast.Constant) and k.value.value is True for k in call.keywords)


def rule_cache(ctx, repo):
    """Cache coherence of the dict view: Config fields are plain instance attributes (written by _set and by direct
    assignment `cfg.field = v`), `_dict` is a cache of them.  Either as_dict never serves a stale cache (no caching, or a
    __setattr__ that invalidates), or every reader that decides validity or exports values asks for a refresh."""
    d = F.method(repo, "Config", "as_dict", COMMON)
    rebuild = [n for n in walk_noscope(d.fn) if isinstance(n, ast.Assign) and any(dotted(t) == "self._dict" for t in n.targets)]
    guarded = [n for n in walk_noscope(d.fn) if isinstance(n, ast.If) and any(r in list(ast.walk(n)) for r in rebuild)]
    caching = bool(guarded) and any(Q.has("len(self._dict) == 0", g.test) or "self._dict" in src(g.test) for g in guarded)
    invalidating = repo.has_method("Config", "__setattr__", COMMON) and "_dict" in src(repo.method("Config", "__setattr__", COMMON)[1])
    ctx.sample("Config.as_dict caching=%s, __setattr__ invalidates=%s" % (caching, invalidating))
    sites = [("Config", "check", COMMON, "decides whether a value is among the declared alternatives"),
             ("System", "collect_config", SYSTEM, "exports the values written by save_config")]
    for cls, meth, path, why in sites:
        f = F.method(repo, cls, meth, path)
        calls = [n for n in walk_noscope(f.fn) if isinstance(n, ast.Call) and isinstance(n.func, ast.Attribute) and n.func.attr == "as_dict"]
        raw = [n for n in walk_noscope(f.fn) if isinstance(n, ast.Attribute) and n.attr == "_dict" and isinstance(n.ctx, ast.Load)]
        if not calls and not raw:
            ctx.undecided("C20.cache", "%s.%s" % (cls, meth), "does not read the dict view through as_dict()", f.W())
            continue
        for k, n in enumerate(calls):
            ok = (not caching) or invalidating or _refreshing(n)
            ctx.check(ok, "C20.cache", "%s.%s/as_dict#%d" % (cls, meth, k), "reads current field values (%s)" % why,
                      "`%s` serves the dict view cached at construction; a field changed afterwards (update(), cfg.field = v) "
                      "is not seen here (%s)" % (src(n), why), f.W(n))
        for k, n in enumerate(raw):
            ok = (not caching) or invalidating
            ctx.check(ok, "C20.cache", "%s.%s/_dict#%d" % (cls, meth, k), "direct read of a coherent view",
                      "reads the cached `_dict` directly (%s)" % why, f.W(n))


def rule_ownership(ctx, repo):
    """The parsed rc object is merged with the command-line options IN PLACE (_update_config_object mutates it), so each System
    must own a fresh parser object: load_config_rc returns an object constructed in the same call and does not publish it."""
    f = F.function(repo, SYSTEM, "load_config_rc")
    upd = F.method(repo, "System", "_update_config_object", SYSTEM)
    inplace = any(isinstance(n, ast.Call) and isinstance(n.func, ast.Attribute) and n.func.attr in ("set", "add_section", "read_dict", "update")
                  and "_config_object" in src(n.func.value) for n in walk_noscope(upd.fn)) or \
        any(isinstance(n, ast.Assign) and isinstance(n.targets[0], ast.Subscript) and "_config_object" in src(n.targets[0]) for n in walk_noscope(upd.fn))
    fn = f.fn
    rets = [n for n in walk_noscope(fn) if isinstance(n, ast.Return) and n.value is not None and not (isinstance(n.value, ast.Constant) and n.value.value is None)]
    if not rets:
        ctx.undecided("C20.ownership", "load_config_rc", "no value-returning exit", f.W())
        return
    issues = []
    glob = [n for n in walk_noscope(fn) if isinstance(n, (ast.Global, ast.Nonlocal))]
    for r in rets:
        if isinstance(r.value, ast.Call) and dotted(r.value.func) in ("configparser.ConfigParser", "ConfigParser"):
            continue
        if not isinstance(r.value, ast.Name):
            issues.append("returns `%s`, not an object constructed in this call" % src(r.value))
            continue
        name = r.value.id
        defs = [n for n in walk_noscope(fn) if isinstance(n, ast.Assign) and any(dotted(t) == name for t in n.targets)]
        fresh = defs and all(isinstance(x.value, ast.Call) and dotted(x.value.func) in ("configparser.ConfigParser", "ConfigParser") for x in defs)
        if not fresh:
            issues.append("`return %s` may return an object not constructed in this call" % name)
        # escape: stored into anything other than a local name
        for n in walk_noscope(fn):
            if isinstance(n, ast.Assign) and not all(isinstance(t, ast.Name) for t in n.targets) and \
                    any(isinstance(x, ast.Name) and x.id == name for x in ast.walk(n.value)):
                issues.append("`%s` publishes the returned parser object" % src(n))
            if isinstance(n, ast.Call) and isinstance(n.func, ast.Attribute) and n.func.attr in ("append", "setdefault", "add", "update", "__setitem__") and \
                    any(isinstance(x, ast.Name) and x.id == name for a in n.args for x in ast.walk(a)):
                issues.append("`%s` publishes the returned parser object" % src(n))
        if glob and any(name in g.names for g in glob):
            issues.append("`%s` is a global" % name)
    ok = (not issues) or (not inplace)
    ctx.check(ok, "C20.ownership", "load_config_rc/fresh-object", "every System merges its options into a parser object of its own",
              "; ".join(issues) + " while _update_config_object merges options into it in place: options of one System leak into the next", f.W())


def run(ctx):
    ctx.rule("C20.cache", "readers that validate or export go through a refreshed (or non-caching) dict view", 2)
    ctx.rule("C20.ownership", "rc parser object is fresh per load (it is mutated in place by the option merge)", 1)
    ctx.rule("C20.precedence", "Config._add skips loaded keys; load reads own section; update overwrites then checks; options overwrite the file", 4)
    ctx.rule("C20.coercion", "coercion chain int -> float -> unchanged", 1)
    ctx.rule("C20.alternatives", "alternatives enforced by check(); a rejected update is rolled back", 2)
    ctx.rule("C20.options", "malformed option => raise; sections created iff absent; merge before first load; default_config", 5)
    ctx.rule("C20.typestate", "Config -> load -> add in base constructors; subclasses add after the base constructor; same rc object "
             "to every model/routine; check() after construction", 25)
    ctx.rule("C20.tables", "add_extra keys are declared fields (MRO-resolved)", 40)
    ctx.rule("C20.roundtrip", "finite evaluation: every shipped default keeps value and type through str -> coerce", 1)
    ctx.rule("C20.save", "collect/save covers everything, excludes internals", 2)
    ctx.assume("'every representable value' beyond the shipped defaults is declined")
    repo = Repo()
    rule_config_class(ctx, repo)
    rule_cache(ctx, repo)
    rule_update_atomic(ctx, repo)
    from rules import c20_writes
    c20_writes.run_rule(ctx, repo)
    rule_ownership(ctx, repo)
    rule_options(ctx, repo)
    rule_constructors(ctx, repo)
    defaults = rule_tables(ctx, repo)
    rule_roundtrip(ctx, repo, defaults)
