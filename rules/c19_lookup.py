"""C19.link-errors/GroupBase.idx2model -- a lookup of a device that does not exist is an error, with or without `allow_none`.

`allow_none=True` exists for optional references: an entry that IS None stays None.  A non-None idx that is not registered is a dangling
reference; answering it with None lets the optional-reference code paths treat it as "not given" (the equation is then linked to address
0, another device's variable).  Decided by evaluation (engine/tinyexec.py) of idx2model and idx2uid over a registry and the four kinds
of query: registered, None, unknown string, unknown number -- each as scalar and in a list, with allow_none on and off."""
from engine.pysrc import F
from engine.tinyexec import TinyExec, Fake
from engine.ordertype import Unsupported

GROUP = "andes/models/group.py"


def run_rule(ctx, repo):
    f = F.method(repo, "GroupBase", "idx2model", GROUP)

    class _M(Fake):
        def __init__(self, name):
            self.class_name = name

    class _G(Fake):
        class_name = "Grp"

        def __init__(self):
            self._idx2model = {"a": _M("A"), 2: _M("B")}
            self.uid = {"a": 0, 2: 1}

        def _1d_vectorize(self, idx):
            single = not isinstance(idx, (list, tuple))
            return ([idx] if single else list(idx)), single
    stubs = {"logger.error": lambda *a, **k: None, "logger.warning": lambda *a, **k: None, "logger.debug": lambda *a, **k: None}
    bad, und = [], None
    for allow in (False, True):
        for q, kind in (("a", "hit"), (2, "hit"), (None, "none"), ("zz", "unknown"), (99, "unknown"),
                        (["a", 2], "hit"), (["a", None], "none"), (["a", "zz"], "unknown"), ([None, 99], "unknown")):
            try:
                got = TinyExec(repo, "GroupBase", GROUP, stubs=stubs).call("idx2model", _G(), q, allow_none=allow)
                outcome = "value"
            except Unsupported as ex:
                und = str(ex)
                break
            except KeyError:
                outcome = "KeyError"
            except Exception as ex:      # noqa
                outcome = type(ex).__name__
            if kind == "unknown" and outcome == "value":
                bad.append("idx2model(%r, allow_none=%s) returns %r for a device that does not exist" % (
                    q, allow, [getattr(x, "class_name", x) for x in got] if isinstance(got, list) else getattr(got, "class_name", got)))
            if kind == "hit" and outcome != "value":
                bad.append("idx2model(%r, allow_none=%s) raises %s for registered devices" % (q, allow, outcome))
            if kind == "none" and allow and outcome != "value":
                bad.append("idx2model(%r, allow_none=True) raises %s for an optional reference that is not given" % (q, outcome))
            if kind == "none" and not allow and outcome == "value":
                bad.append("idx2model(%r, allow_none=False) accepts a missing reference" % (q,))
        if und:
            break
    if und:
        ctx.undecided("C19.link-errors", "GroupBase.idx2model/unknown", "evaluator: %s" % und, f.W())
    else:
        ctx.check(not bad, "C19.link-errors", "GroupBase.idx2model/unknown", "an unregistered idx raises KeyError whatever `allow_none` is; None passes only with allow_none",
                  "; ".join(bad[:2]) + " -- a dangling optional reference (IEEEG1.syn2 = 'GENROU_9') is treated as not given: set-up succeeds and the "
                  "equation is linked to address 0", f.W())
