"""C05 -- dynamic initialisation is an equilibrium consistent with the power flow.

Decided: the init verdict is dominated by the residual test (shared with C17) and only two sanctioned
writes touch dae.f before it; power-flow hand-over ordering; Model.init assign/accumulate agreement;
initialisation order respects dependencies for every model (generated init_seq vs declared v_str);
static->dynamic hand-over sibling rule; thorough tier: symbolic equilibrium obligations e[v := v_str] == 0
against a committed baseline."""
import ast
import inspect
import json
import os

import sympy as sp

from engine import astq as Q
from engine import dsl, elab, tv
from engine.cfg import walk_noscope
from engine.pysrc import Repo, F, dotted, src, calls_in
from engine.report import AnalysisError, VERIF, where

TDS = "andes/routines/tds.py"
MODEL = "andes/core/model/model.py"
SYSTEM = "andes/system.py"
BASELINE = os.path.join(VERIF, "baselines", "c05_equilibrium.json")


def rule_verdict(ctx, repo):
    t = F.method(repo, "TDS", "test_init", TDS)
    tests = [tn for tn in t.g.nodes() if t.g.data(tn)["kind"] == "test" and (
        Q.match("np.max(np.abs(system.dae.fg)) < self.config.tol", t.g.data(tn)["ast"].test) or
        Q.match("np.max(np.abs(system.dae.fg)) <= self.config.tol", t.g.data(tn)["ast"].test))]
    trues = t.returns(lambda v: isinstance(v, ast.Constant) and v.value is True)
    ok = bool(tests) and bool(trues) and all(t.g.guarded_by(r, tests[0], "true") for r in trues)
    ctx.check(ok, "C05.verdict", "TDS.test_init", "True only under max|dae.fg| < bare config.tol (NaN cannot satisfy <)",
              "initialisation verdict is not dominated by the residual test on the full dae.fg with the bare tolerance", t.W())
    i = F.method(repo, "TDS", "init", TDS)
    # sanctioned writes to dae.f between fg_update(init=True) and the test
    writes = []
    for f_, allowed in ((i, "np.put(system.dae.f, $k, $q)"), (t, "system.dae.f[system.no_check_init] = 0.0")):
        for n in walk_noscope(f_.fn):
            txt = src(n) if isinstance(n, (ast.Assign, ast.AugAssign, ast.Expr)) else ""
            if isinstance(n, (ast.Assign, ast.AugAssign)):
                tg = n.targets if isinstance(n, ast.Assign) else [n.target]
                for tt in tg:
                    base = tt
                    while isinstance(base, ast.Subscript):
                        base = base.value
                    if (dotted(base) or "").endswith("dae.f") or (dotted(base) or "").endswith("dae.g") or (dotted(base) or "").endswith("dae.fg"):
                        writes.append((f_, n, Q.match(allowed, n) is not None))
            elif isinstance(n, ast.Expr) and isinstance(n.value, ast.Call) and dotted(n.value.func) in ("np.put", "np.add.at") \
                    and n.value.args and (dotted(n.value.args[0]) or "").endswith(("dae.f", "dae.g")):
                writes.append((f_, n, Q.match(allowed, n.value) is not None))
    bad = [(f_, n) for f_, n, ok_ in writes if not ok_]
    ctx.check(len(writes) >= 2 and not bad, "C05.verdict", "TDS.init+test_init/residual-writes",
              "only the anti-windup reset and the no_check_init zeroing touch the residual before the test (%d writes)" % len(writes),
              "unsanctioned write to the residual before the initialisation test: %s" % [src(n)[:60] for _, n in bad],
              bad[0][0].W(bad[0][1]) if bad else i.W())
    ok = Q.has("self.test_ok = self.test_init()", i.fn)
    ctx.check(ok, "C05.verdict", "TDS.init/test_ok", "verdict stored", "verdict of the initialisation test is not stored in test_ok", i.W())


def rule_handover(ctx, repo):
    i = F.method(repo, "TDS", "init", TDS)
    g = i.g
    cpx = [n for n in g.nodes() if g.data(n)["kind"] == "stmt" and Q.match("system.dae.x[:len(system.PFlow.x_sol)] = system.PFlow.x_sol", g.data(n)["ast"])]
    cpy = [n for n in g.nodes() if g.data(n)["kind"] == "stmt" and Q.match("system.dae.y[:len(system.PFlow.y_sol)] = system.PFlow.y_sol", g.data(n)["ast"])]
    sa = i.calls("system.set_address")
    si = [n for n in i.calls("system.init", exact=True)]
    fu = i.calls("self.fg_update")
    ti = i.calls("self.test_init")
    ini = [n for n in g.nodes() if g.data(n)["kind"] == "stmt" and Q.match("self.initialized = True", g.data(n)["ast"])]
    for need, name in ((cpx, "x_sol copy"), (cpy, "y_sol copy"), (sa, "set_address"), (si, "system.init"), (fu, "fg_update"), (ini, "initialized=True")):
        if not need:
            ctx.violation("C05.handover", "TDS.init/" + name, "%s missing from TDS.init" % name, i.W())
            return
    ok1 = i.before(cpx + cpy, sa)[0] and all(i.before([c], sa)[0] for c in cpx + cpy)
    ctx.check(ok1, "C05.handover", "TDS.init/pf-solution-first",
              "power-flow x,y copied into the leading slices before set_address extends the vectors",
              "power-flow solution is restored after (or not before) the address extension", i.W(sa[0]))
    ok2 = i.before(sa, si)[0] and i.before(si, fu)[0] and i.before(fu, ini)[0] and (not ti or i.before(fu, ti)[0])
    ctx.check(ok2, "C05.handover", "TDS.init/order", "set_address -> system.init -> fg_update(init=True) -> initialized / test",
              "dynamic initialisation steps are out of order", i.W())
    ok3 = any(Q.match("self.fg_update($m, init=True)", c) for c in calls_in(i.fn))
    ctx.check(ok3, "C05.handover", "TDS.init/fg_update-init", "residual evaluated with init=True (limits may be adjusted once)",
              "fg_update is not called with init=True during initialisation", i.W())
    ok4 = i.before(i.calls("system.vars_to_models"), si)[0]
    ctx.check(ok4, "C05.handover", "TDS.init/vars_to_models", "restored values propagated to the models before system.init",
              "models do not see the restored power-flow values before initialisation", i.W())
    # idempotent
    t = i.tests(lambda c: c.strip() == "self.initialized")
    ok5 = bool(t) and any(g.guarded_by(r, t[0], "true") for r in i.returns())
    ctx.check(ok5, "C05.handover", "TDS.init/idempotent", "second call returns immediately", "init() is no longer idempotent", i.W())

    # System.init: per model link externals -> mdl.init -> vars_to_dae -> vars_to_models
    s = F.method(repo, "System", "init", SYSTEM)
    a = [n for n in s.g.nodes() if s.g.data(n)["kind"] == "loop" and isinstance(s.g.data(n)["ast"], ast.For)
         and src(s.g.data(n)["ast"].iter) == "mdl.services_ext.values()" and "link_external" in src(s.g.data(n)["ast"])]
    b = s.calls("mdl.init")
    c = s.calls("self.vars_to_dae")
    d = s.calls("self.vars_to_models")
    ok = bool(a and b and c and d) and s.before(a, b)[0] and s.before(b, c)[0] and s.after(b, c)[0] and s.after(c, d)[0]
    ctx.check(ok, "C05.handover", "System.init/per-model", "link externals -> model init -> vars_to_dae -> vars_to_models (each model)",
              "a model's initial values are not pushed to the DAE vectors before the next model initialises", s.W())

    # Model.init: assign vs accumulate, discrete first, v_numeric after the generated sequence
    m = F.method(repo, "Model", "init", MODEL)
    g = m.g
    t = [tn for tn in g.nodes() if g.data(tn)["kind"] == "test" and Q.match("not instance.v_str_add", g.data(tn)["ast"].test)]
    asn = [n for n in g.nodes() if g.data(n)["kind"] == "stmt" and Q.match("instance.v[:] = self.calls.ia[name](*self.ia_args[name])", g.data(n)["ast"])]
    acc = [n for n in g.nodes() if g.data(n)["kind"] == "stmt" and Q.match("instance.v[:] += self.calls.ia[name](*self.ia_args[name])", g.data(n)["ast"])]
    ok = bool(t and asn and acc) and g.guarded_by(asn[0], t[0], "true") and g.guarded_by(acc[0], t[0], "false")
    ctx.check(ok, "C05.handover", "Model.init/assign-vs-add", "assigned unless v_str_add, then accumulated; own function & arguments",
              "explicit initialiser is no longer assigned (or accumulated for v_str_add) from its own generated function", m.W())
    ed = m.calls("_eval_discrete", exact=True)
    ok = bool(ed) and bool(asn) and g.must_pass(g.entry, asn[0], ed)[0] is False    # discrete eval is conditional (only if attached)
    # structural: the discrete evaluation statement precedes the assignment in the same loop body
    okd = False
    for lp, e in Q.loops(m.fn, "enumerate(self.calls.init_seq)", "($idx, $name)"):
        body_src = src(lp)
        if "_eval_discrete(" in body_src and body_src.index("_eval_discrete(") < body_src.index("self.calls.ia[name]"):
            okd = True
    ctx.check(okd, "C05.handover", "Model.init/discrete-first", "attached discrete components evaluated before the initialiser",
              "limiters attached to a variable are no longer evaluated before its initial value is computed", m.W())
    vn = m.calls("self.v_numeric")
    it = [n for n in g.nodes() if g.data(n)["kind"] == "loop" and isinstance(g.data(n)["ast"], ast.For)
          and "self.calls.init_seq" in src(g.data(n)["ast"].iter)]
    ok = bool(vn and it) and not g.reachable(vn[0], it[0])
    ctx.check(ok, "C05.handover", "Model.init/v_numeric-last", "custom v_numeric runs after the generated sequence",
              "v_numeric no longer runs after the generated initialisation sequence", m.W())
    ok = Q.has("self.flags.initialized = True", m.fn)
    ctx.check(ok, "C05.handover", "Model.init/flag", "initialized flag set", "model initialized flag no longer set", m.W())
    su = m.calls("self.s_update")
    ok = bool(su) and bool(it) and m.before(su, it)[0]
    ctx.check(ok, "C05.handover", "Model.init/services-first", "services evaluated before variables",
              "ConstService/VarService values are not evaluated before the variables that use them", m.W())


def rule_init_order(ctx, models, gens):
    """for every model: in the generated init_seq each explicitly initialised variable references only variables earlier in
    the sequence, members of its own iterative group, or externals; every group member has a v_iter; all covered once."""
    n_ob = 0
    for name, m in models.items():
        seq = gens[name].tables.get("init_seq")
        if seq is None:
            raise AnalysisError("generated init_seq missing for %s" % name)
        st = dsl.SymTab(m)
        V = m.cache.all_vars
        internal = set(m.cache.vars_int.keys())
        seen = set()
        flat = []
        bad = []
        for item in seq:
            grp = item if isinstance(item, list) else [item]
            for vn in grp:
                if vn in flat:
                    bad.append("%s appears twice in init_seq" % vn)
                flat.append(vn)
            for vn in grp:
                if vn not in V:
                    continue
                v = V[vn]
                if isinstance(item, list) and v.v_iter is None:
                    bad.append("%s is in an iterative group but declares no v_iter" % vn)
                for text in (v.v_str, v.v_iter):
                    if text is None:
                        continue
                    try:
                        e = dsl.parse_dsl(text, st)
                    except dsl.DSLError:
                        continue
                    n_ob += 1
                    deps = {s_.name for s_ in e.free_symbols if s_.name in internal and s_.name != vn}
                    late = [d for d in deps if d not in seen and d not in grp]
                    if late:
                        bad.append("%s is initialised from %s which come(s) later in the sequence" % (vn, sorted(late)))
                if v.deps:
                    late = [d for d in v.deps if d in internal and d not in seen and d not in grp]
                    if late:
                        bad.append("%s declares deps %s that are initialised later" % (vn, late))
            seen |= set(grp)
        missing = [vn for vn in internal if (V[vn].v_str is not None or V[vn].v_iter is not None) and vn not in flat]
        if missing:
            bad.append("variables with an initialiser missing from init_seq: %s" % missing)
        ctx.check(not bad, "C05.init-order", name, "%d entries in dependency order" % len(flat), "; ".join(bad[:3]),
                  elab.locate(m, flat[0]) if flat else name) if (flat or bad) else None
    ctx.count("init_obligations", n_ob)


def rule_static_dynamic(ctx, models):
    """models that take over p/q of a static device must switch that device off in v_numeric (through the group API)."""
    _ = elab.load_models()
    from andes.core.model import Model
    n = 0
    for name, m in models.items():
        ext = [(k, s_.model, s_.src) for k, s_ in m.services_ext.items()
               if s_.model in ("StaticGen", "StaticLoad", "PQ", "PV", "Slack") and s_.src in ("p", "q", "Ppf", "Qpf", "p0", "q0")]
        if not ext:
            continue
        n += 1
        group = "StaticGen" if any(e[1] in ("StaticGen", "PV", "Slack") for e in ext) else "StaticLoad"
        fn = type(m).v_numeric
        w = name
        ok = False
        detail = "no v_numeric override"
        if fn is not Model.v_numeric:
            try:
                text = inspect.getsource(fn)
                tree = ast.parse(inspect.cleandoc("\n" + text) if False else __import__("textwrap").dedent(text))
                w = where(inspect.getsourcefile(fn), inspect.getsourcelines(fn)[1])
            except Exception as e:
                ctx.undecided("C05.static-dynamic", name, "cannot read v_numeric: %r" % e)
                continue
            detail = "v_numeric does not call system.groups['%s'].set(src='u', ..., value=0)" % group
            for c in ast.walk(tree):
                if isinstance(c, ast.Call) and isinstance(c.func, ast.Attribute) and c.func.attr == "set":
                    recv = src(c.func.value)
                    kw = {k.arg: k.value for k in c.keywords}
                    if "groups['%s']" % group in recv or 'groups["%s"]' % group in recv:
                        if src(kw.get("src", ast.Constant(None))) in ("'u'", '"u"') and src(kw.get("value", ast.Constant(None))) == "0" \
                                and src(kw.get("attr", ast.Constant("v"))) in ("'v'", '"v"'):
                            # sibling agreement: only ONLINE dynamic devices take over; the idx list must be filtered by own status
                            idx_e = kw.get("idx")
                            masked = False
                            if isinstance(idx_e, ast.Name):
                                for st_ in ast.walk(tree):
                                    if isinstance(st_, ast.Assign) and dotted(st_.targets[0]) == idx_e.id and "self.u.v" in src(st_.value):
                                        masked = True
                            elif idx_e is not None and "self.u.v" in src(idx_e):
                                masked = True
                            if masked:
                                ok = True
                            else:
                                detail = ("v_numeric switches off the static device of EVERY linked dynamic device (idx=%s), including offline "
                                          "ones (u=0): the injection the power flow relied on disappears" % src(idx_e))
        ctx.check(ok, "C05.static-dynamic", name, "switches the replaced %s device off (u := 0) in v_numeric" % group,
                  "takes over %s of a %s device but never switches it off: the injection would be counted twice; %s" % (
                      [e[2] for e in ext], group, detail), w)
    if n < 14:
        raise AnalysisError("static->dynamic hand-over models: %d found, 16 confirmed by reading" % n)


def rule_mode_continuity(ctx, models):
    """Equations that switch between a power-flow form and a time-domain form on `dae_t` (Indicator(dae_t < 0) / (dae_t >= 0)):
    at the hand-over point (every external variable at its power-flow value: v -> v0, a -> a0; services by their declared
    v_str) both forms give the same injection, for every value of the limiter flags -- under the documented normalisation of
    the share options (p2p + p2i + p2z = 1, q2q + q2i + q2z = 1)."""
    from engine import dsl
    n = 0
    for name, m in models.items():
        if not (m.flags.pflow and m.flags.tds):
            continue
        eqs = [(vn, v) for vn, v in m.cache.all_vars.items() if v.e_str and "dae_t" in v.e_str and "Indicator" in v.e_str]
        if not eqs:
            continue
        st = dsl.SymTab(m)
        svc = {}
        for sn, s_ in m.services.items():
            if s_.v_str is not None and type(s_).__name__ in ("ConstService", "VarService"):
                try:
                    svc[st.get(sn)] = dsl.parse_dsl(s_.v_str, st)
                except dsl.DSLError:
                    pass
        # external variables at their power-flow values: ExtService of the same source (v0 <- Bus.v, a0 <- Bus.a)
        at0 = {}
        for vn, v in m.cache.vars_ext.items():
            for sn, s_ in m.services_ext.items():
                if getattr(s_, "src", None) == v.src and getattr(s_, "model", None) == v.model and \
                        getattr(s_.indexer, "name", 0) == getattr(v.indexer, "name", 1):
                    at0[st.get(vn)] = st.get(sn)
        cfg = {k: st.get(k) for k in m.config.as_dict() if k in st}
        norm = {}
        for a, b, c in (("p2p", "p2i", "p2z"), ("q2q", "q2i", "q2z")):
            if all(k in cfg for k in (a, b, c)):
                norm[cfg[c]] = 1 - cfg[a] - cfg[b]
        t = st.get("dae_t")
        for vn, v in eqs:
            n += 1
            try:
                e = dsl.parse_dsl(v.e_str, st)
            except dsl.DSLError as ex:
                ctx.undecided("C05.continuity", "%s.%s" % (name, vn), "front-end: %s" % ex, elab.locate(m, vn))
                continue

            def at(expr, tval):
                x = expr.subs(t, tval)
                x = x.replace(lambda z: isinstance(z, dsl.Indicator), lambda z: sp.Integer(1) if z.args[0] == sp.true else
                              (sp.Integer(0) if z.args[0] == sp.false else z))
                for _ in range(4):
                    x = x.subs(svc)
                x = x.subs(at0)
                for _ in range(4):
                    x = x.subs(svc).subs(at0)
                return x.subs(norm)
            before, after = at(e, -1), at(e, 1)
            d = sp.simplify(sp.expand(before - after))
            ctx.check(d == 0, "C05.continuity", "%s.%s" % (name, vn), "power-flow form == time-domain form at the hand-over point",
                      "the injection jumps at the hand-over by %s (power-flow form %s, time-domain form %s)" % (
                          d, sp.simplify(before), sp.simplify(after)), elab.locate(m, vn))
    ctx.count("mode_switched_equations", n)


def rule_equilibrium(ctx, models, gens):
    """thorough: symbolic equilibrium obligations against the committed baseline."""
    from engine import equil
    res = equil.all_obligations(models, gens)
    status = {k: (s_, d) for k, s_, d in res}
    if not os.path.exists(BASELINE):
        raise AnalysisError("baseline %s missing" % BASELINE)
    base = json.load(open(BASELINE))["proven_zero"]
    nz = 0
    for k in base:
        if k not in status:
            ctx.undecided("C05.equilibrium", k, "obligation vanished (variable renamed or removed)")
            continue
        s_, d = status[k]
        if s_ == "zero":
            nz += 1
            ctx.ok("C05.equilibrium", k, "e_str[v := v_str] == 0 under inside-limits flags", nontrivial=True)
        elif s_ == "nonzero":
            mname, vn = k.split(".", 1)
            ctx.violation("C05.equilibrium", k, "the declared initial values no longer balance this equation (they did on the "
                          "baseline tree): residual %s" % d, elab.locate(models[mname], vn))
        else:
            ctx.undecided("C05.equilibrium", k, "%s %s" % (s_, d))
    ctx.extra["equilibrium"] = dict(baseline=len(base), still_zero=nz,
                                    census={s_: sum(1 for v in status.values() if v[0] == s_) for s_ in ("zero", "nonzero", "open", "timeout", "skipped", "error")})


def write_baseline():
    models, gens, _ = tv.load_all()
    from engine import equil
    res = equil.all_obligations(models, gens)
    zero = sorted(k for k, s_, d in res if s_ == "zero")
    os.makedirs(os.path.dirname(BASELINE), exist_ok=True)
    json.dump({"_comment": "obligations e_str[v := v_str] == 0 proven on the baseline tree (after the fix: commits); written by "
               "`python -m rules.c05 --write-baseline`, never by a check", "proven_zero": zero}, open(BASELINE, "w"), indent=0)
    print("baseline: %d proven obligations of %d" % (len(zero), len(res)))


def run(ctx):
    ctx.rule("C05.verdict", "init verdict dominated by the residual test; only the two sanctioned residual writes precede it", 3)
    ctx.rule("C05.handover", "PF solution restored before address extension; init -> fg_update(init) -> test; per-model push; "
             "Model.init assign/accumulate, discrete first, v_numeric last", 11)
    ctx.rule("C05.init-order", "generated init_seq respects the dependencies of every declared initialiser, all 97 models", 80)
    ctx.rule("C05.static-dynamic", "sibling rule: every model that takes over p/q of a static device switches it off in v_numeric", 14)
    ctx.assume("that initialisation succeeds for every consistent case and that an undisturbed run stays put are runtime facts: declined")
    repo = Repo()
    models, gens, cached = tv.load_all()
    rule_verdict(ctx, repo)
    rule_handover(ctx, repo)
    from rules import c05_reinit
    ctx.rule("C05.reinit", "accumulating initialisers start from cleared arrays on every initialisation", 1)
    c05_reinit.run_rule(ctx, repo)
    rule_init_order(ctx, models, gens)
    rule_static_dynamic(ctx, models)
    from rules import c05_offline
    ctx.rule("C05.offline", "symbolic: every bus injection of a model with a status vanishes for u = 0 (internal algebraic variables eliminated)", 60)
    c05_offline.run_rule(ctx, models)
    from rules import c05_bindings
    ctx.rule("C05.bindings", "object identity on the elaborated models: discrete components refer to the registered objects of their model", 50)
    c05_bindings.run_rule(ctx, models)
    ctx.rule("C05.continuity", "symbolic: equations switched on dae_t give the same injection before and after the hand-over", 2)
    rule_mode_continuity(ctx, models)
    if ctx.tier == "thorough":
        ctx.rule("C05.equilibrium", "symbolic: explicit initial values substituted into every state / internal algebraic equation "
                 "reduce it to 0 (obligations proven on the baseline tree must stay proven)", 600)
        rule_equilibrium(ctx, models, gens)


if __name__ == "__main__":
    import sys
    sys.path.insert(0, VERIF)
    if "--write-baseline" in sys.argv:
        write_baseline()
