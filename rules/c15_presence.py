"""C15.index/DAETimeSeries._access_array/presence -- whether a channel is stored is decided by the shape of its matrix, not by its content.

A channel that is not stored unpacks to a matrix without columns; a stored channel whose values are all exactly zero (a stabiliser output at
rest, selected through Output) is data.  Decided by evaluation (engine/tinyexec.py, NumPy passed through) of _access_array on a stand-in
time series with a non-zero matrix, an all-zero matrix and a matrix without columns."""
import numpy as np

from engine.pysrc import F
from engine.tinyexec import TinyExec, Fake
from engine.ordertype import Unsupported

DAE = "andes/variables/dae.py"


def run_rule(ctx, repo):
    f = F.method(repo, "DAETimeSeries", "_access_array", DAE)

    class _TS(Fake):
        pass
    ts = _TS()
    ts.__dict__["x"] = np.array([[1.0, 2.0], [3.0, 4.0], [5.0, 6.0]])
    ts.__dict__["y"] = np.zeros((3, 2))
    ts.__dict__["f"] = np.zeros((3, 0))
    stubs = {"np.count_nonzero": np.count_nonzero, "np.size": np.size, "np.any": np.any, "np.all": np.all, "np.shape": np.shape, "len": len,
             "logger.error": lambda *a, **k: None, "logger.warning": lambda *a, **k: None}
    bad = []
    try:
        for name, idx, want in (("x", [1], (3, 1)), ("x", None, (3, 2)), ("y", [0], (3, 1)), ("y", None, (3, 2)), ("f", None, None)):
            got = TinyExec(repo, "DAETimeSeries", DAE, stubs=stubs).call("_access_array", ts, name, idx)
            shape = None if got is None else tuple(np.shape(got))
            if want is None:
                if shape is not None and shape[1] != 0:
                    bad.append("a channel without columns is answered with shape %s" % (shape,))
            elif shape != want:
                bad.append("stored matrix <%s>%s (%s): answered with %s, expected shape %s" % (
                    name, "" if idx is None else " columns %s" % idx, "all zeros" if name == "y" else "non-zero", "None" if got is None else shape, want))
    except Unsupported as ex:
        ctx.undecided("C15.index", "DAETimeSeries._access_array/presence", "evaluator: %s" % ex, f.W())
        return
    ctx.check(not bad, "C15.index", "DAETimeSeries._access_array/presence", "stored all-zero data are returned; only a matrix without columns counts as not stored",
              "; ".join(bad[:2]) + " -- a stored series that is exactly zero is declared missing and get_data raises", f.W())
