"""C17 -- failure is reported as failure.

Error discipline on CFGs: every unsuccessful exit of a routine raises System.exit_code; success is
dominated by the routine's residual/termination test; dependent routines are gated on PFlow.converged;
NaN/divergence exits exist; sentinel propagation (shared with C16)."""
import ast

from engine import astq as Q
from engine.cfg import walk_noscope
from engine.pysrc import Repo, F, dotted, src, calls_in
from engine.report import AnalysisError
from rules import c16

PFLOW = "andes/routines/pflow.py"
TDS = "andes/routines/tds.py"
EIG = "andes/routines/eig.py"
DAEINT = "andes/routines/daeint.py"
SYSTEM = "andes/system.py"
MAIN = "andes/main.py"
IO = "andes/io/__init__.py"


def exit_inc_nodes(f):
    """CFG nodes that raise the exit code: `X.exit_code += k (k != 0)`, `X.exit_code = <non-zero const>`,
    or the conditional form `X.exit_code = 0 if <ok> else 1`."""
    out = []
    for n in f.g.nodes():
        d = f.g.data(n)
        a = d["ast"]
        if d["kind"] != "stmt":
            continue
        if isinstance(a, ast.AugAssign) and (dotted(a.target) or "").endswith("exit_code") and isinstance(a.op, ast.Add):
            if isinstance(a.value, ast.Constant) and a.value.value == 0:
                continue
            out.append(n)
        elif isinstance(a, ast.Assign) and any((dotted(t) or "").endswith("exit_code") for t in a.targets):
            if isinstance(a.value, ast.Constant) and a.value.value == 0:
                continue
            out.append(n)
    return out


def falsy_return(v):
    return v is None or (isinstance(v, ast.Constant) and v.value in (False, None, 0))


def rule_exits(ctx, repo):
    # ---- PFlow.run
    f = F.method(repo, "PFlow", "run", PFLOW)
    inc = exit_inc_nodes(f)
    for r in f.returns():
        v = f.g.data(r)["ast"].value
        if falsy_return(v):
            ok, p = f.g.must_pass(f.g.entry, r, inc)
            ctx.check(ok, "C17.exit", "PFlow.run/return@%s" % src(v), "unsuccessful return passes an exit_code assignment",
                      "PFlow.run can return %s without raising exit_code: %s" % (src(v), f.g.fmt_path(p or [])), f.W(r))
        else:
            # the exit code is raised iff not converged: `exit_code (+)= 0 if self.converged else k`, or `exit_code += k` under `not converged`
            tied = []
            for n in f.g.nodes():
                a = f.g.data(n)["ast"]
                if f.g.data(n)["kind"] != "stmt" or not isinstance(a, (ast.Assign, ast.AugAssign)):
                    continue
                tg = a.targets[0] if isinstance(a, ast.Assign) else a.target
                if not (dotted(tg) or "").endswith("exit_code"):
                    continue
                val = a.value
                if isinstance(val, ast.IfExp) and Q.match("self.converged", val.test) is not None and src(val.body) == "0" and src(val.orelse) not in ("0",):
                    tied.append(n)
                else:
                    tied += [t_ for t_ in f.g.nodes() if f.g.data(t_)["kind"] == "test" and hasattr(f.g.data(t_)["ast"], "test")
                             and Q.match("not self.converged", f.g.data(t_)["ast"].test) is not None and f.g.guarded_by(n, t_, "true")]
            ok = src(v) == "self.converged" and bool(tied) and f.g.must_pass(f.g.entry, r, tied)[0]
            ctx.check(ok, "C17.exit", "PFlow.run/return@%s" % src(v), "returns the verdict; the exit code is raised iff not converged",
                      "PFlow.run's final return is not tied to an exit-code update that depends on `self.converged`", f.W(r))

    # ---- TDS.run: paths to a return that do not set succeed=True must raise exit_code
    f = F.method(repo, "TDS", "run", TDS)
    inc = exit_inc_nodes(f)
    succ_true = [n for n in f.g.nodes() if f.g.data(n)["kind"] == "stmt" and Q.match("succeed = True", f.g.data(n)["ast"])]
    # any other computed success value must itself imply `not busted and t == tf`
    for n in f.assigns("succeed"):
        a_ = f.g.data(n)["ast"]
        if n in succ_true or Q.match("succeed = False", a_):
            continue
        txt = src(a_.value).replace(" ", "")
        implies = ("notself.busted" in txt) and ("dae.t==self.config.tf" in txt or "dae.t==config.tf" in txt) and "or" not in txt
        ctx.check(implies, "C17.success", "TDS.run/succeed-expr", "computed success flag implies not busted and t == tf",
                  "success flag is computed as `%s`, which does not require `not self.busted`: an aborted run whose clock already "
                  "shows tf is reported as success" % src(a_.value), f.W(n))
        if implies:
            succ_true.append(n)
    if not succ_true:
        ctx.violation("C17.success", "TDS.run/succeed", "no success assignment guarded by `not busted and t == tf` left in TDS.run", f.W())
        return
    for r in f.returns():
        v = f.g.data(r)["ast"].value
        if src(v) == "self.initialized":
            ctx.ok("C17.exit", "TDS.run/return@self.initialized", "init-only request returns the init flag (test_init raises exit_code itself)", f.W(r), nontrivial=False)
            continue
        ok, p = f.g.must_pass(f.g.entry, r, inc + succ_true)
        ctx.check(ok, "C17.exit", "TDS.run/return@L%d" % f.g.line(r),
                  "every path to this return either set succeed=True or raised exit_code",
                  "TDS.run can return an unsuccessful flag without raising exit_code: %s" % f.g.fmt_path(p or []), f.W(r))
    # success only on t == tf and not busted
    t_ok = [tn for tn in f.g.nodes() if f.g.data(tn)["kind"] == "test" and (
        Q.match("system.dae.t == self.config.tf", f.g.data(tn)["ast"].test) or
        Q.match("dae.t == config.tf", f.g.data(tn)["ast"].test) or Q.match("dae.t == self.config.tf", f.g.data(tn)["ast"].test))]
    busted_t = f.tests(lambda c: c.strip() == "self.busted")
    ok = bool(t_ok) and all(f.g.guarded_by(s, t_ok[0], "true") for s in succ_true) and bool(busted_t) and \
        all(f.g.guarded_by(s, busted_t[-1], "false") for s in succ_true)
    ctx.check(ok, "C17.success", "TDS.run/succeed", "succeed=True only when not busted and dae.t == config.tf exactly",
              "TDS.run can report success without reaching the end time (or while busted)", f.W(succ_true[0]))
    # gate
    gate = f.tests("system.PFlow.converged is False")
    ok = bool(gate) and any(f.g.guarded_by(r, gate[0], "true") for r in f.returns()) and \
        f.g.must_pass(f.g.entry, f.calls("self.init")[0], gate)[0] if f.calls("self.init") else False
    ctx.check(ok, "C17.gate", "TDS.run", "refuses to run when the power flow did not converge",
              "TDS.run no longer returns early when PFlow.converged is False", f.W())
    # main loop leaves on busted
    loops = [n for n in f.g.nodes() if f.g.data(n)["kind"] == "loop" and isinstance(f.g.data(n)["ast"], ast.While)]
    ok = bool(loops) and "not self.busted" in src(f.g.data(loops[0])["ast"].test)
    ctx.check(ok, "C17.exit", "TDS.run/loop-busted", "integration loop stops when busted",
              "the integration loop no longer stops on `busted`", f.W())
    st = f.tests(lambda c: c.strip() == "step_status")
    crit = [tn for tn in f.g.nodes() if f.g.data(tn)["kind"] == "test" and "check_criteria()" in src(f.g.data(tn)["ast"].test)]
    ok = bool(crit) and any(f.g.guarded_by(n, crit[0], "true") for n in f.assigns("self.busted"))
    ctx.check(ok, "C17.exit", "TDS.run/criteria", "violated stability criterion => busted",
              "stability criterion no longer terminates the run as a failure", f.W())

    # ---- TDS.test_init
    f = F.method(repo, "TDS", "test_init", TDS)
    inc = exit_inc_nodes(f)
    tests = [tn for tn in f.g.nodes() if f.g.data(tn)["kind"] == "test" and (
        Q.match("np.max(np.abs(system.dae.fg)) < self.config.tol", f.g.data(tn)["ast"].test) or
        Q.match("np.max(np.abs(system.dae.fg)) <= self.config.tol", f.g.data(tn)["ast"].test))]
    for r in f.returns():
        v = f.g.data(r)["ast"].value
        if isinstance(v, ast.Constant) and v.value is True:
            ok = bool(tests) and f.g.guarded_by(r, tests[0], "true")
            ctx.check(ok, "C17.success", "TDS.test_init/True", "True only under max|fg| < bare config.tol over the full residual",
                      "initialisation can be reported successful without the residual test on the full dae.fg with the bare tolerance", f.W(r))
        else:
            ok, p = f.g.must_pass(f.g.entry, r, inc)
            ctx.check(ok, "C17.exit", "TDS.test_init/False", "failed test raises exit_code",
                      "failed initialisation test does not raise exit_code", f.W(r))
    i = F.method(repo, "TDS", "init", TDS)
    ok = Q.has("self.test_ok = self.test_init()", i.fn)
    ctx.check(ok, "C17.success", "TDS.init/test_ok", "verdict stored in test_ok", "init no longer records the test verdict", i.W())

    # ---- EIG.run
    f = F.method(repo, "EIG", "run", EIG)
    inc = exit_inc_nodes(f)
    for r in f.returns():
        v = f.g.data(r)["ast"].value
        if falsy_return(v):
            ok, p = f.g.must_pass(f.g.entry, r, inc)
            ctx.check(ok, "C17.exit", "EIG.run/return@False", "unsuccessful return raises exit_code",
                      "EIG.run returns False without raising exit_code", f.W(r))
    pc = [tn for tn in f.g.nodes() if f.g.data(tn)["kind"] == "test" and Q.match("not self._pre_check()", f.g.data(tn)["ast"].test)]
    ca = f.calls("self.calc_As")
    ok = bool(pc) and bool(ca) and f.g.must_pass(f.g.entry, ca[0], pc)[0] and \
        any(f.g.guarded_by(r, pc[0], "true") for r in f.returns())
    ctx.check(ok, "C17.gate", "EIG.run", "pre-check failure returns before any computation",
              "EIG.run computes without passing the pre-check", f.W())

    # the pre-check refuses a system without differential states on EVERY path that returns a true status
    pcf = F.method(repo, "EIG", "_pre_check", EIG)
    nz = [tn for tn in pcf.g.nodes() if pcf.g.data(tn)["kind"] == "test" and Q.match("system.dae.n == 0", pcf.g.data(tn)["ast"].test)]
    truthy = [r for r in pcf.returns() if not falsy_return(pcf.g.data(r)["ast"].value)]
    okn = bool(nz) and bool(truthy) and all(pcf.g.must_pass(pcf.g.entry, r, nz)[0] for r in truthy)
    wit = ""
    if nz and truthy and not okn:
        for r in truthy:
            good, p_ = pcf.g.must_pass(pcf.g.entry, r, nz)
            if not good:
                wit = pcf.g.fmt_path(p_)
    ctx.check(okn, "C17.gate", "EIG._pre_check/no-states", "`dae.n == 0` is tested on every path that lets the analysis proceed",
              "the no-dynamic-model refusal is skipped on the path %s: eigenvalue analysis of a static-only case returns success" % wit, pcf.W())

    # ---- System.setup
    f = F.method(repo, "System", "setup", SYSTEM)
    inc = exit_inc_nodes(f)
    twice = f.tests(lambda c: c.strip() == "self.is_setup")
    for r in f.returns():
        if twice and f.g.guarded_by(r, twice[0], "true"):
            # frozen exception (one symbol): the second call leaves the existing valid state untouched
            ctx.ok("C17.exit", "System.setup/twice", "exception: repeated setup() returns False, state stays valid", f.W(r), nontrivial=False)
            continue
        # ret False paths: every assignment ret = False must lead to exit_code += 1 before the return
        falses = [n for n in f.g.nodes() if f.g.data(n)["kind"] == "stmt" and Q.match("ret = False", f.g.data(n)["ast"])
                  and not (twice and f.g.guarded_by(n, twice[0], "true"))]
        # value-sensitive pruning: once ret is False (and never set back to True) the test `ret is True` takes its
        # false edge, so the true-successors of that test are not on any feasible path from `ret = False`
        rt = f.tests(lambda c: c.replace(" ", "") in ("retisTrue", "ret"))
        re_true = [n for n in f.g.nodes() if f.g.data(n)["kind"] == "stmt" and Q.match("ret = True", f.g.data(n)["ast"])]
        infeasible = [m for t_ in rt for m in f.g.succ_label(t_, "true")]
        ok = bool(falses) and all(
            f.g.must_pass(n, r, inc + infeasible)[0] and not any(f.g.reachable(n, x) for x in re_true) for n in falses)
        ctx.check(ok, "C17.exit", "System.setup/failure", "a failed link/parameter step raises exit_code before returning",
                  "System.setup can return False without raising exit_code", f.W(r))
        ok = any(Q.match("self.is_setup = True", f.g.data(n)["ast"]) for n in f.g.nodes() if f.g.data(n)["kind"] == "stmt")
        t = f.tests(lambda c: c.replace(" ", "") == "retisTrue")
        ok = ok and bool(t) and all(any(f.g.guarded_by(n, tt, "true") for tt in t) for n in f.g.nodes()
                                    if f.g.data(n)["kind"] == "stmt" and Q.match("self.is_setup = True", f.g.data(n)["ast"]))
        ctx.check(ok, "C17.success", "System.setup/is_setup", "is_setup only when no error occurred",
                  "is_setup can be set although a step failed", f.W())


def rule_exit_monotone(ctx, repo):
    """The exit code is a failure counter: routines add to it (`exit_code += 1`).  A plain assignment erases failures recorded
    earlier in the same process (a failed set-up followed by a converged power flow would exit 0).  Sibling rule over every writer."""
    n = 0
    for rel, tree in repo.modules.items():
        if not rel.startswith("andes/") or rel.startswith("andes/cli"):
            continue
        for fn in [x for x in ast.walk(tree) if isinstance(x, (ast.FunctionDef, ast.AsyncFunctionDef))]:
            if fn.name == "__init__":
                continue
            for st in walk_noscope(fn):
                if isinstance(st, ast.Assign) and any((dotted(t) or "").endswith(".exit_code") for t in st.targets):
                    n += 1
                    ctx.violation("C17.exit", "%s::%s/exit_code-assign@%s" % (rel.split("/")[-1], fn.name, " ".join(src(st).split())[:40]),
                                  "`%s` overwrites the exit code instead of adding to it: a failure recorded earlier (failed set-up, failed "
                                  "initialisation) is erased when this routine succeeds" % src(st), "%s:%d" % (rel, st.lineno))
                elif isinstance(st, ast.AugAssign) and (dotted(st.target) or "").endswith(".exit_code"):
                    n += 1
                    ctx.check(isinstance(st.op, ast.Add), "C17.exit", "%s::%s/exit_code@%d" % (rel.split("/")[-1], fn.name, st.lineno),
                              "adds to the exit code", "exit code is modified by `%s`" % src(st), "%s:%d" % (rel, st.lineno))
    ctx.count("exit_code_writers", n)


def rule_main(ctx, repo):
    f = F.function(repo, MAIN, "run")
    # aggregation, decided by evaluation: `run(..., cli=True)` is evaluated (engine/tinyexec.py) together with the multi-case runners
    # `_run_mp_proc` / `_run_mp_pool` for every outcome class of the cases; `run_case`, Process and Pool are replaced by stand-ins that
    # deliver the outcome of each case (a worker process delivers only what its target passes to sys.exit).  The process exit code must
    # be non-zero exactly when some case failed.
    from engine.tinyexec import TinyExec, Fake
    from engine.ordertype import Unsupported
    import functools

    class _Sys(Fake):
        def __init__(self, code):
            self.exit_code = code

    def evaluate(filename, outcomes, pool):
        cases = sorted(outcomes)

        class _Process(Fake):
            def __init__(self, name=None, target=None, args=(), kwargs=None):
                self.target, self.args, self.kwargs, self.exitcode = target, args, kwargs or {}, None

            def start(self):
                try:
                    self.target(*self.args, **self.kwargs)
                    self.exitcode = 0
                except SystemExit as ex:
                    c = ex.code
                    self.exitcode = 0 if c is None else (c if isinstance(c, int) else 1)

            def join(self, *a):
                pass

        class _Pool(Fake):
            def __init__(self, *a, **k):
                pass

            def map(self, fn, items):
                return [fn(x) for x in items]

        def _exit(code=None):
            raise SystemExit(code)
        nop = lambda *a, **k: None      # noqa: E731
        existing = set(cases)
        stubs = {"glob.glob": lambda pat, *a_, **k_: ([pat] if pat in existing or pat == "*" else []), "os.path.join": lambda a_, b_: b_,
                 "os.path.isfile": lambda p_: p_ in existing, "logger.debug": nop, "logger.info": nop, "logger.warning": nop, "logger.error": nop, "set_logger_level": nop,
                 "import_pycode": nop, "config_logger": nop, "fix_view_arrays": nop, "sleep": nop, "find_log_path": lambda *a: [],
                 "is_interactive": lambda: False, "elapsed": lambda *a: (0.0, ""), "_find_cases": lambda *a, **k: list(cases),
                 "run_case": lambda file, **kw: outcomes[file], "Process": _Process, "Pool": _Pool, "partial": functools.partial,
                 "sys.exit": _exit, "System": _Sys, "logger": object(), "NCPUS_PHYSICAL": 2, "logging.INFO": 20, "logging.DEBUG": 10,
                 "logging.StreamHandler": object, "logging.FileHandler": object}
        ex = TinyExec(repo, None, MAIN, stubs=stubs)
        return ex.call_function(f.fn, [filename], dict(cli=True, pool=pool, ncpu=2))

    S = _Sys
    scen = [("single", "one case, no system produced", "a", {"a": None}, False),
            ("single", "one case, 3 recorded failures", "a", {"a": S(3)}, False),
            ("single", "one case, clean", "a", {"a": S(0)}, False),
            ("multi", "two cases (pool), failures 1 and 2", "*", {"a": S(1), "b": S(2)}, True),
            ("multi", "two cases (pool), the second failed", "*", {"a": S(0), "b": S(1)}, True),
            ("multi", "two cases (pool), clean", "*", {"a": S(0), "b": S(0)}, True),
            ("multi-proc", "two cases (worker processes), the second failed", "*", {"a": S(0), "b": S(2)}, False),
            ("multi-proc", "two cases (worker processes), the first produced no system", "*", {"a": None, "b": S(0)}, False),
            ("multi-proc", "three cases (worker processes, two per batch), the first failed", "*", {"a": S(1), "b": S(0), "c": S(0)}, False),
            ("multi-proc", "three cases (worker processes), clean", "*", {"a": S(0), "b": S(0), "c": S(0)}, False),
            ("not-found", "file given but not found", "zz.xlsx", {}, False),
            ("not-found", "no file given", "", {}, False),
            ("not-found", "two files given, one of them not found (the other one runs clean)", ["a", "missing"], {"a": S(0)}, False),
            ("wrap", "one case with 256 recorded failures (the process exit status is taken modulo 256)", "a", {"a": S(256)}, False),
            ("wrap", "two cases (pool) with 128 failures each", "*", {"a": S(128), "b": S(128)}, True)]
    bad, undec = {}, {}
    for kind, what, filename, outcomes, pool in scen:
        names_ = [filename] if isinstance(filename, str) else list(filename)
        failed = any(o is None or o.exit_code != 0 for o in outcomes.values()) or any(nm not in outcomes and nm not in ("", "*") for nm in names_)
        try:
            got = evaluate(filename, outcomes, pool)
        except Unsupported as ex:
            undec[kind] = str(ex)
            continue
        if not isinstance(got, int) or isinstance(got, bool) or ((got % 256) != 0) != failed:
            bad.setdefault(kind, []).append("%s: run(cli=True) returns %r" % (what, got))
    texts = {"single": "exit code += system.exit_code, or +1 when no system was produced", "multi": "multi-case (pool) exit codes summed",
             "multi-proc": "multi-case (worker processes): a failing case makes the exit code non-zero",
             "not-found": "every file name given that matches nothing => non-zero exit code",
             "wrap": "the returned status is non-zero modulo 256 whenever a case failed"}
    for kind in texts:
        if kind in undec:
            ctx.undecided("C17.aggregate", "main.run/%s" % kind, "evaluator: %s" % undec[kind], f.W())
        else:
            ctx.check(kind not in bad, "C17.aggregate", "main.run/%s" % kind, texts[kind], "; ".join(bad.get(kind, [])), f.W())
    t = [tn for tn in f.g.nodes() if f.g.data(tn)["kind"] == "test" and Q.match("cli is True", f.g.data(tn)["ast"].test)]
    # (the value itself is decided by the evaluation above, which calls run(cli=True); here only: the status leaves through the cli branch)
    ok = bool(t) and any(f.g.data(r)["ast"].value is not None and "ex_code" in src(f.g.data(r)["ast"].value) and f.g.guarded_by(r, t[0], "true")
                         for r in f.returns())
    ctx.check(ok, "C17.aggregate", "main.run/cli", "cli returns the exit code", "cli no longer returns the aggregated exit code", f.W())
    # every process entry point hands main()'s return value to the interpreter's exit status: the console script does it through
    # setuptools (`andes = andes.cli:main`); the module entry point (python -m andes) must do it itself
    mm = repo.module("andes/__main__.py")
    calls = [c for c in ast.walk(mm) if isinstance(c, ast.Call) and dotted(c.func) == "main"]
    exits = [c for c in ast.walk(mm) if isinstance(c, ast.Call) and dotted(c.func) in ("sys.exit", "exit", "SystemExit", "raise SystemExit")
             and any(isinstance(x, ast.Call) and dotted(x.func) == "main" for a_ in c.args for x in ast.walk(a_))]
    raises = [r_ for r_ in ast.walk(mm) if isinstance(r_, ast.Raise) and r_.exc is not None and "SystemExit" in src(r_.exc) and "main(" in src(r_.exc)]
    cm = F.function(repo, "andes/cli.py", "main")
    returns_code = any(isinstance(cm.g.data(r_)["ast"].value, ast.Call) for r_ in cm.returns())
    ctx.check(bool(calls) and bool(exits or raises) and returns_code, "C17.aggregate", "__main__/exit-status",
              "python -m andes exits with main()'s return value",
              "`andes/__main__.py` calls main() and drops its return value: `python -m andes ...` exits 0 whatever failed (missing file, "
              "diverged power flow)", "andes/__main__.py:%d" % (calls[0].lineno if calls else 1))
    # load: parse failure => None
    f = F.function(repo, MAIN, "load")
    t = [tn for tn in f.g.nodes() if f.g.data(tn)["kind"] == "test" and Q.match("not andes.io.parse(system)", f.g.data(tn)["ast"].test)]
    ok = bool(t) and any(falsy_return(f.g.data(r)["ast"].value) and f.g.guarded_by(r, t[0], "true") for r in f.returns())
    su = f.calls("system.setup")
    ok = ok and bool(su) and f.g.must_pass(f.g.entry, su[0], t)[0]
    ctx.check(ok, "C17.aggregate", "main.load", "unparsable input => None, setup never reached",
              "load() no longer maps a failed parse to None before setup", f.W())
    f = F.function(repo, MAIN, "run_case")
    t = [tn for tn in f.g.nodes() if f.g.data(tn)["kind"] == "test" and Q.match("system is None", f.g.data(tn)["ast"].test)]
    ok = bool(t) and any(falsy_return(f.g.data(r)["ast"].value) and f.g.guarded_by(r, t[0], "true") for r in f.returns())
    ctx.check(ok, "C17.aggregate", "main.run_case", "None system propagated", "run_case continues with no system", f.W())
    ts = [tn for tn in f.g.nodes() if f.g.data(tn)["kind"] == "test" and Q.match("system.is_setup", f.g.data(tn)["ast"].test)]
    ok = bool(ts) and all(f.g.guarded_by(n, ts[0], "true") for n in f.calls("system.PFlow.run"))
    ctx.check(ok, "C17.gate", "main.run_case", "routines run only on a set-up system",
              "routines can run on a system whose setup failed", f.W())
    # io.parse
    f = F.function(repo, IO, "parse")
    rets = f.returns()
    nf = [r for r in rets if falsy_return(f.g.data(r)["ast"].value)]
    t1 = [tn for tn in f.g.nodes() if f.g.data(tn)["kind"] == "test" and "parser.read(" in src(f.g.data(tn)["ast"].test)
          and src(f.g.data(tn)["ast"].test).startswith("not ")]
    t2 = [tn for tn in f.g.nodes() if f.g.data(tn)["kind"] == "test" and Q.match("not guess(system)", f.g.data(tn)["ast"].test)]
    ok = bool(t1) and bool(t2) and any(f.g.guarded_by(r, t1[0], "true") for r in nf) and any(f.g.guarded_by(r, t2[0], "true") for r in nf)
    ctx.check(ok, "C17.aggregate", "io.parse", "unknown format / parser failure => False",
              "io.parse no longer returns False on an unknown format or a failed parser", f.W())


def rule_gating(ctx, repo):
    """every call of TDS.init / itm_step from another routine is dominated by a PFlow.converged gate
    with an early return (or sits on the converged branch)."""
    sites = []
    for cname, path in (("EIG", EIG), ("PFlow", PFLOW)):
        ci = repo.cls(cname, path)
        for mname, fn in ci.methods.items():
            f = None
            for c in calls_in(fn):
                d = dotted(c.func) or ""
                if d.endswith("TDS.init") or d.endswith("TDS.itm_step"):
                    f = f or F(repo, ci, fn)
                    sites.append((cname, mname, f, c))
    if len(sites) < 3:
        raise AnalysisError("TDS.init/itm_step call sites in EIG/PFlow vanished (%d found)" % len(sites))
    for cname, mname, f, call in sites:
        node = [n for n in f.g.nodes() if f.g.data(n)["ast"] is not None and any(x is call for x in calls_in(f.g.data(n)["ast"]))
                and f.g.data(n)["kind"] in ("stmt", "test")]
        node = node[0]
        construct = "%s.%s/%s@%d" % (cname, mname, (dotted(call.func) or "").split(".")[-1],
                                     sum(1 for s in sites if s[0] == cname and s[1] == mname and s[3].lineno <= call.lineno))
        ok = False
        why = "no PFlow.converged gate dominates this call"
        # (a) positive guard: on the converged branch
        for tn in f.g.nodes():
            d = f.g.data(tn)
            if d["kind"] != "test":
                continue
            c = src(d["ast"].test).replace(" ", "")
            if c in ("notself.converged",) and f.g.guarded_by(node, tn, "false"):
                ok = True
            if c in ("self.converged",) and f.g.guarded_by(node, tn, "true"):
                ok = True
            # (b) early return gate
            if c in ("system.PFlow.convergedisFalse", "self.system.PFlow.convergedisFalse", "notsystem.PFlow.converged",
                     "notself.system.PFlow.converged"):
                region = f.g.branch_region(tn, "true")
                leaves = all((not f.g.reachable(m, node, avoid=[tn])) and m != node for m in f.g.succ_label(tn, "true"))
                if f.g.dominates(tn, node) and leaves:
                    ok = True
                elif f.g.dominates(tn, node):
                    why = "the PFlow.converged test at L%d only records the failure; control still reaches this call" % f.g.line(tn)
            # (c) gate through the class's own pre-check helper with early return
            if c in ("notself._pre_check()",) and f.g.dominates(tn, node):
                if all((not f.g.reachable(m, node, avoid=[tn])) and m != node for m in f.g.succ_label(tn, "true")):
                    ok = "precheck"
        if ok == "precheck":
            ok = _precheck_sound(repo)
            why = "guarded by _pre_check(), which itself does not stop on an unconverged power flow"
        ctx.check(bool(ok), "C17.gate", construct, "dominated by a PFlow.converged gate with early return",
                  "dynamic initialisation / integration step runs on an unconverged power flow: " + why, f.W(node))


def _precheck_sound(repo):
    f = F.method(repo, "EIG", "_pre_check", EIG)
    calls = f.calls("TDS.init")
    gates = f.tests(("system.PFlow.converged is False", "not system.PFlow.converged"))
    if not gates:
        return False
    for c in calls:
        for m in f.g.succ_label(gates[0], "true"):
            if m == c or f.g.reachable(m, c, avoid=[gates[0]]):
                return False
    return True


def rule_flag_reset(ctx, repo):
    """a success flag from an earlier solve must not survive into the next one: reset before the Newton loop starts."""
    r = F.method(repo, "PFlow", "run", PFLOW)
    i = F.method(repo, "PFlow", "init", PFLOW)
    n = F.method(repo, "PFlow", "nr_solve", PFLOW)
    reset_in_init = [x for x in i.g.nodes() if i.g.data(x)["kind"] == "stmt" and Q.match("self.converged = False", i.g.data(x)["ast"])]
    ok_init = bool(reset_in_init) and i.g.must_pass(i.g.entry, i.g.exit, reset_in_init)[0]
    loops = [x for x in n.g.nodes() if n.g.data(x)["kind"] == "loop"]
    reset_in_solve = [x for x in n.g.nodes() if n.g.data(x)["kind"] == "stmt" and Q.match("self.converged = False", n.g.data(x)["ast"])]
    ok_solve = bool(loops and reset_in_solve) and n.before(reset_in_solve, loops)[0]
    solve = r.calls("self.nr_solve") + r.calls("self.newton_krylov")
    ok_order = bool(solve) and r.before(r.calls("self.init"), solve)[0]
    ctx.check((ok_init and ok_order) or ok_solve, "C17.success", "PFlow.run/flag-reset",
              "converged := False on every path before the Newton loop (in init(), which run() calls first)",
              "PFlow.converged is not reset before a new solve: after one successful run a later diverged run still reports success "
              "(nr_solve only ever sets the flag to True)", r.W())
    s = F.method(repo, "ImplicitIter", "step", DAEINT)
    loops = [x for x in s.g.nodes() if s.g.data(x)["kind"] == "loop"]
    rs = [x for x in s.g.nodes() if s.g.data(x)["kind"] == "stmt" and Q.match("tds.converged = False", s.g.data(x)["ast"])]
    ctx.check(bool(loops and rs) and s.before(rs, loops)[0], "C17.success", "ImplicitIter.step/flag-reset",
              "tds.converged := False before each step's Newton loop", "step convergence flag is not reset before iterating", s.W())
    t = F.method(repo, "TDS", "reset", TDS)
    ok = Q.has("self.busted = False", t.fn) and Q.has("self.converged = False", t.fn)
    ctx.check(ok, "C17.success", "TDS.reset/flags", "busted/converged cleared by reset", "TDS.reset no longer clears busted/converged", t.W())


def rule_newton_exits(ctx, repo):
    # Newton-Krylov: success only in the non-exception branch
    f = F.method(repo, "PFlow", "newton_krylov", PFLOW)
    hs = [n for n in f.g.nodes() if f.g.data(n)["kind"] == "handler"]
    sets = [n for n in f.assigns("self.converged") if Q.match("self.converged = True", f.g.data(n)["ast"])]
    ok = bool(hs) and bool(sets) and not any(f.g.reachable(h, s) for h in hs for s in sets) and \
        any(Q.match("self.converged = False", f.g.data(n)["ast"]) and f.g.reachable(hs[0], n) for n in f.assigns("self.converged"))
    ctx.check(ok, "C17.success", "PFlow.newton_krylov", "converged=True only when the solver did not raise",
              "Newton-Krylov failure path can leave converged=True", f.W())
    ok, wit = f.before(f.calls("self._set_xy"), sets)
    ctx.check(ok, "C17.success", "PFlow.newton_krylov/solution", "solution written back before success is flagged",
              "success flagged without storing the solution: " + wit, f.W())
    # daeint NaN exit marks busted
    s = F.method(repo, "ImplicitIter", "step", DAEINT)
    t = [tn for tn in s.g.nodes() if s.g.data(tn)["kind"] == "test" and "isnan" in src(s.g.data(tn)["ast"].test)]
    ok = bool(t) and any(s.g.guarded_by(n, t[0], "true") for n in s.assigns("tds.busted"))
    upd = s.assigns("dae.x", aug=True)
    ok = ok and bool(upd) and all(s.g.must_pass(s.g.entry, u, t)[0] for u in upd)
    ctx.check(ok, "C17.nan", "ImplicitIter.step/NaN", "NaN increment => busted, tested before the state is updated",
              "a NaN increment can be applied to the state or does not terminate the run", s.W())
    # PFlow: NaN exit leaves converged False (the only success assignment is under mis < tol; NaN < tol is False)
    p = F.method(repo, "PFlow", "nr_solve", PFLOW)
    t = [tn for tn in p.g.nodes() if p.g.data(tn)["kind"] == "test" and "isnan" in src(p.g.data(tn)["ast"].test)]
    ok = bool(t) and not any(p.g.guarded_by(n, t[0], "true") for n in p.assigns("self.converged"))
    ctx.check(ok, "C17.nan", "PFlow.nr_solve/NaN", "NaN mismatch leaves the loop without success",
              "NaN exit of the power-flow Newton loop removed or sets success", p.W())


SWALLOW = {"max": "the builtin max() returns its first argument when the other is NaN (`max(0, nan) == 0`)",
           "min": "the builtin min() returns its first argument when the other is NaN",
           "np.fmax": "np.fmax ignores NaN", "np.fmin": "np.fmin ignores NaN", "np.nanmax": "np.nanmax ignores NaN",
           "np.nanmin": "np.nanmin ignores NaN", "np.nan_to_num": "np.nan_to_num replaces NaN"}
RESIDUAL_SOURCES = ("dae.f", "dae.g", "self.inc", "inc", "self.res", "dae.x", "dae.y")


def rule_nan_measure(ctx, repo):
    """The quantity compared with the tolerance must be NaN-propagating: on the def-use slice from the residual / increment
    arrays to the convergence measure no reducer that can swallow a NaN may occur (the NaN exits tested above never fire
    otherwise)."""
    for cls, meth, path, measure in (("PFlow", "nr_step", PFLOW, None), ("ImplicitIter", "step", DAEINT, "mis"),
                                     ("TDS", "test_init", TDS, None)):
        f = F.method(repo, cls, meth, path)
        fn = f.fn
        # names tainted by the residual arrays (forward closure over local assignments)
        tainted = set()
        changed = True

        def reads_source(e):
            for x in ast.walk(e):
                d = dotted(x) if isinstance(x, (ast.Attribute, ast.Name)) else None
                if d and (any(d == s_ or d.endswith("." + s_) for s_ in RESIDUAL_SOURCES) or d in tainted):
                    return True
            return False
        while changed:
            changed = False
            for st in walk_noscope(fn):
                if isinstance(st, ast.Assign) and reads_source(st.value):
                    for t in st.targets:
                        for x in ast.walk(t):
                            if isinstance(x, ast.Name) and x.id not in tainted:
                                tainted.add(x.id)
                                changed = True
        bad = []
        n_red = 0
        for c in calls_in(fn):
            d = dotted(c.func)
            if d in SWALLOW and any(reads_source(a) for a in c.args):
                n_red += 1
                bad.append((c, "`%s`: %s" % (src(c), SWALLOW[d])))
        ctx.check(not bad, "C17.nan", "%s.%s/measure" % (cls, meth), "no NaN-swallowing reducer between the residuals and the convergence "
                  "measure (%d residual-derived names followed)" % len(tainted),
                  "; ".join(b[1] for b in bad[:2]) + " -- a NaN residual yields a finite measure: the NaN exit cannot fire and the "
                  "iteration can be reported as converged", f.W(bad[0][0]) if bad else f.W())


def rule_flag_gates(ctx, repo):
    """the property lists PFlow.converged, TDS.busted and TDS.test_ok as the success flags; a dependent routine consults each flag of
    the state it is about to use, on every path to its work, and the consulting test has a refusing branch"""
    import re

    def flag_tests(f, flag):
        rx = re.compile(r"(?<![\w.])%s\b" % re.escape(flag))
        return [t for t in f.tests(lambda c: bool(rx.search(c))) if f.g.data(t)["kind"] == "test"]

    def forced_label(cond, flag, invalid):
        """the branch label (`true`/`false`) the test takes whenever the flag has its invalid value, whatever the other atoms are;
        None if the flag alone does not decide it (e.g. `busted and something_else`)"""
        import itertools
        leaves = []

        def collect(e):
            if isinstance(e, ast.BoolOp):
                for v in e.values:
                    collect(v)
            elif isinstance(e, ast.UnaryOp) and isinstance(e.op, ast.Not):
                collect(e.operand)
            else:
                leaves.append(e)
        collect(cond)
        rx = re.compile(r"(?<![\w.])%s\b" % re.escape(flag))
        free = [l for l in leaves if not rx.search(src(l))]
        keys = sorted({src(l) for l in free})

        def leaf_val(e, env):
            t = src(e)
            if t in env:
                return env[t]
            # a leaf over the flag: the flag itself or a comparison of it with a constant
            if (dotted(e) or "") == flag:
                return bool(invalid)
            if isinstance(e, ast.Compare) and len(e.ops) == 1 and (dotted(e.left) or "") == flag and isinstance(e.comparators[0], ast.Constant):
                c = e.comparators[0].value
                op = type(e.ops[0])
                if op in (ast.Is, ast.Eq):
                    return invalid is c if op is ast.Is else invalid == c
                if op in (ast.IsNot, ast.NotEq):
                    return invalid is not c if op is ast.IsNot else invalid != c
            raise ValueError(t)

        def ev(e, env):
            if isinstance(e, ast.BoolOp):
                vals = [ev(v, env) for v in e.values]
                return all(vals) if isinstance(e.op, ast.And) else any(vals)
            if isinstance(e, ast.UnaryOp) and isinstance(e.op, ast.Not):
                return not ev(e.operand, env)
            return leaf_val(e, env)
        out = set()
        try:
            for combo in itertools.product([False, True], repeat=len(keys)):
                out.add(bool(ev(cond, dict(zip(keys, combo)))))
        except ValueError:
            return None
        return {True: "true", False: "false"}[out.pop()] if len(out) == 1 else None

    def refusing_tests(f, flag, invalid):
        # tests of the flag whose branch for the invalid value is forced and guards a falsy return or a `status = False`
        outs = [r for r in f.returns() if falsy_return(f.g.data(r)["ast"].value) or
                (isinstance(f.g.data(r)["ast"].value, ast.Name) and f.g.data(r)["ast"].value.id in ("succeed", "status"))]
        outs += [n for n in f.g.nodes() if f.g.data(n)["kind"] == "stmt" and Q.match("status = False", f.g.data(n)["ast"])]
        res = []
        for t in flag_tests(f, flag):
            lab = forced_label(f.g.data(t)["expr"][0], flag, invalid)
            if lab is not None and any(f.g.guarded_by(o, t, lab) for o in outs):
                res.append(t)
        return res

    # ---- TDS.run: work = the integration loop and the resume step (which advances the clock)
    f = F.method(repo, "TDS", "run", TDS)
    loops = [n for n in f.g.nodes() if f.g.data(n)["kind"] == "loop" and isinstance(f.g.data(n)["ast"], ast.While)]
    work = loops[:1] + f.calls("self.init_resume")
    inits = f.calls("self.init")
    for flag, invalid, after_init, what in (("self.busted", True, False, "a simulation that was terminated by an error is not continued"),
                                            ("self.test_ok", False, True, "a failed initialisation (test_ok False) is not integrated")):
        ts = refusing_tests(f, flag, invalid)
        bad = []
        if not work:
            ctx.undecided("C17.gate", "TDS.run/flag/%s" % flag.split(".")[-1], "integration loop not found", f.W())
            continue
        for w in work:
            ok, pth = f.g.must_pass(f.g.entry, w, ts)
            if not ok:
                bad.append("path to L%d without a refusing test of `%s`: %s" % (f.g.line(w), flag, f.g.fmt_path(pth or [])))
            if after_init:
                for c in inits:
                    if f.g.reachable(c, w):
                        ok2, pth2 = f.g.must_pass(c, w, ts)
                        if not ok2:
                            bad.append("`%s` is not consulted between init() and L%d" % (flag, f.g.line(w)))
        ctx.check(not bad, "C17.gate", "TDS.run/flag/%s" % flag.split(".")[-1], what,
                  "; ".join(bad[:2]) + " -- TDS.run works on a state its own flag marks invalid", f.W(work[0]))

    # ---- EIG._pre_check: every status that lets the analysis proceed has consulted the flags of the state it linearises
    pcf = F.method(repo, "EIG", "_pre_check", EIG)
    truthy = [r for r in pcf.returns() if not falsy_return(pcf.g.data(r)["ast"].value)]
    inits = pcf.calls("self.system.TDS.init")
    for flag, invalid, what in (("self.system.TDS.busted", True, "the state of a terminated simulation is not linearised"),
                                ("self.system.TDS.test_ok", False, "a failed initialisation is not linearised")):
        ts = refusing_tests(pcf, flag, invalid)
        bad = []
        for r in truthy:
            ok, pth = pcf.g.must_pass(pcf.g.entry, r, ts)
            if not ok:
                bad.append("path to the proceeding return L%d without a refusing test of `%s`: %s" % (pcf.g.line(r), flag, pcf.g.fmt_path(pth or [])))
            for c in inits:
                if pcf.g.reachable(c, r) and not pcf.g.must_pass(c, r, ts)[0]:
                    bad.append("`%s` is not consulted after TDS.init()" % flag)
        ctx.check(bool(truthy) and not bad, "C17.gate", "EIG._pre_check/flag/%s" % flag.split(".")[-1], what,
                  "; ".join(bad[:2]) + " -- EIG.run reports success on a state that TDS marks invalid", pcf.W())


def rule_criterion_operand(ctx, repo):
    """the stability criterion is active from the start of the integration: what `check_criteria` reads (the addresses of the monitored
    rotor angles) is established by TDS.init whenever the criterion is enabled -- not only by a connectivity check after a switching
    event.  Reader, writer and the call chain are discovered from the source."""
    cc = F.method(repo, "TDS", "check_criteria", TDS)
    reads = sorted({n.attr for n in walk_noscope(cc.fn) if isinstance(n, ast.Attribute) and isinstance(n.ctx, ast.Load)
                    and (dotted(n) or "").startswith("self.system.") and n.attr.endswith("_addr")})
    if not reads:
        ctx.undecided("C17.criteria", "TDS.check_criteria/operand", "the criterion's operand (an address list of the system) is not recognised", cc.W())
        return
    for attr in reads:
        writers = []
        # every method that assigns `<x>.<attr>` outside a constructor
        for cname, cis in repo.classes.items():
            for ci in (cis if isinstance(cis, list) else [cis]):
                for mname, fn in ci.methods.items():
                    if mname == "__init__":
                        continue
                    if any(isinstance(t, ast.Attribute) and t.attr == attr for st in walk_noscope(fn) if isinstance(st, ast.Assign) for t in st.targets):
                        writers.append((ci, mname, fn))
        if not writers:
            ctx.violation("C17.criteria", "TDS.check_criteria/%s" % attr, "nothing but a constructor ever writes `%s`: the criterion tests an empty list" % attr, cc.W())
            continue
        wnames = {m for _c, m, _f in writers}
        # functions that call a writer (by method name), one level
        callers = {}
        for cname, cis in repo.classes.items():
            for ci in (cis if isinstance(cis, list) else [cis]):
                for mname, fn in ci.methods.items():
                    cs = [c for c in calls_in(fn) if isinstance(c.func, ast.Attribute) and c.func.attr in wnames]
                    if cs:
                        callers[(ci.name, mname)] = (ci, fn, cs)
        init = F.method(repo, "TDS", "init", TDS)
        flag_set = [n for n in init.g.nodes() if init.g.data(n)["kind"] == "stmt" and Q.match("self.initialized = True", init.g.data(n)["ast"])]
        cand = []
        for n in init.g.nodes():
            d = init.g.data(n)
            if d["kind"] != "stmt":
                continue
            for c in calls_in(d["ast"]):
                if isinstance(c.func, ast.Attribute) and (c.func.attr in wnames or any(c.func.attr == m for (_cn, m) in callers)):
                    cand.append((n, d["ast"], c))
        good, why = False, "TDS.init never calls %s (directly or through %s)" % (sorted(wnames), sorted(m for _c, m in callers))
        for n, st, c in cand:
            pc = Q.path_condition(init.fn, st) or []
            leaves = []
            for t, _pol in pc:
                Q._bool_leaves(t, leaves)
            foreign = [src(l) for l in leaves if "criteria" not in src(l)]
            if foreign:
                why = "the call `%s` in TDS.init is additionally conditional on `%s`" % (src(c)[:60], foreign[0])
                continue
            if (c.func.attr not in wnames) and not (flag_set and all(init.g.dominates(fs, n) for fs in flag_set[:1])):
                why = "`%s` runs before `self.initialized = True`, and the callee only records the addresses of an initialised simulation" % src(c)[:60]
                continue
            good = True
        # the callee's own guard on the writer call mentions nothing but the criterion switch and the initialised flag
        for (cn, mn), (ci, fn, cs) in callers.items():
            if cn != "System":
                continue
            for c in cs:
                stc = [st for st in walk_noscope(fn) if isinstance(st, ast.stmt) and any(x is c for x in ast.walk(st)) and not isinstance(st, (ast.If, ast.For, ast.While, ast.With, ast.Try))]
                pc = Q.path_condition(fn, stc[0]) if stc else []
                leaves = []
                for t, _pol in pc or []:
                    Q._bool_leaves(t, leaves)
                foreign = [src(l) for l in leaves if "criteria" not in src(l) and "initialized" not in src(l)]
                if foreign:
                    good, why = False, "%s.%s records the monitored addresses only if `%s`" % (cn, mn, foreign[0])
        ctx.check(good, "C17.criteria", "TDS.init/%s" % attr, "`%s`, read by check_criteria, is established by TDS.init whenever the criterion is enabled "
                  "(writer: %s)" % (attr, ", ".join("%s.%s" % (c_.name, m_) for c_, m_, _ in writers)),
                  why + ": until a switching event triggers a connectivity check (never with check_conn = 0) the stability criterion tests an "
                  "empty list and an unstable run is reported as a success", init.W())


def run(ctx):
    ctx.rule("C17.exit", "every unsuccessful return of PFlow.run, TDS.run, TDS.test_init, EIG.run, System.setup passes an "
             "exit_code increment (frozen exception: repeated setup())", 9)
    ctx.rule("C17.success", "success flags are dominated by the routine's own residual / termination test", 6)
    ctx.rule("C17.gate", "dependent computations are dominated by a PFlow.converged / is_setup / pre-check gate with early return; no-state refusal on every path; every success flag of the prerequisite state (busted, test_ok) consulted with a refusing branch", 11)
    ctx.rule("C17.aggregate", "CLI aggregation: failed load, None system, lists, missing file, parse failures; entry points propagate the exit status", 8)
    ctx.rule("C17.criteria", "the operand of the stability criterion is established by TDS.init whenever the criterion is enabled", 1)
    ctx.rule("C17.nan", "NaN exits precede state updates / success; the convergence measure is NaN-propagating", 5)
    ctx.rule("C17.sentinel", "linear-solver NaN sentinel propagation (rules shared with C16)", 4)
    ctx.assume("that every ill-posed input actually triggers one of these exits is a runtime fact: declined")
    repo = Repo()
    rule_exits(ctx, repo)
    rule_main(ctx, repo)
    rule_gating(ctx, repo)
    rule_flag_gates(ctx, repo)
    rule_criterion_operand(ctx, repo)
    rule_flag_reset(ctx, repo)
    rule_newton_exits(ctx, repo)
    from rules import c17_nk, c17_update, c17_dropped
    c17_dropped.run_rule(ctx, repo)
    c17_nk.run_rule(ctx, repo)
    c17_update.run_rule(ctx, repo)
    rule_nan_measure(ctx, repo)
    rule_exit_monotone(ctx, repo)
    # sentinel propagation: reuse the C16 sibling rules under this property's name
    before = len(ctx.results)
    c16.rule_suitesparse(ctx, repo)
    for r in ctx.results[before:]:
        keep = r["rule"] == "C16.singular" or r["construct"] == "SuiteSparseSolver.solve"
        r["rule"] = "C17.sentinel" if keep else None
    ctx.results = [r for r in ctx.results if r["rule"] is not None]
    ctx.nontrivial = {(("C17.sentinel" if k[0].startswith("C16") else k[0]), k[1]) for k in ctx.nontrivial}
