"""C13.numeric-type -- the data corrections of NumParam.add do not depend on whether a number arrives as int or float.

The same case is an integer in an xlsx cell (openpyxl returns `20`) and a float in json (`20.0`); `non_zero` / `non_positive` /
`non_negative` parameters replace an inadmissible value by the default.  If the correction looks at floats only, the two files describe
different systems and a dump/re-read changes the value.  Decided by evaluation (engine/tinyexec.py) of NumParam.add on a stand-in parameter
for every property and the values 0, 5, -5 given as int, float and NumPy scalars."""
import math

import numpy as np

from engine.pysrc import F
from engine.tinyexec import TinyExec, Fake, SAFE
from engine.ordertype import Unsupported

PARAM = "andes/core/param.py"


def run_rule(ctx, repo):
    f = F.method(repo, "NumParam", "add", PARAM)

    class _Owner(Fake):
        class_name = "M"

    class _P(Fake):
        name = "p"

        def __init__(self, prop):
            self.prop, self.default, self.owner, self.got = prop, 100.0, _Owner(), []
            self.v = []

        def get_property(self, name):
            return name == self.prop

    bad, und = [], None
    for prop in ("non_zero", "non_positive", "non_negative", None):
        for mag in (0, 5, -5):
            res = {}
            for kind, val in (("int", int(mag)), ("float", float(mag)), ("np.int64", np.int64(mag)), ("np.float64", np.float64(mag))):
                p = _P(prop)

                class _Sup(Fake):
                    def add(self_, value=None, _p=p):
                        _p.got.append(value)
                stubs = {"super": lambda *a, **k: _Sup(), "logger.warning": lambda *a, **k: None, "math.isnan": math.isnan, "callable": callable,
                         "np.integer": np.integer, "np.floating": np.floating, "np.bool_": np.bool_, "np.isnan": np.isnan, "np.nan": np.nan,
                         "numbers.Number": (int, float), "numbers.Real": (int, float)}
                try:
                    TinyExec(repo, "NumParam", PARAM, stubs=stubs).call("add", p, val)
                except Unsupported as ex:
                    und = str(ex)
                    break
                res[kind] = float(p.got[0]) if p.got else None
            if und:
                break
            if len(set(res.values())) != 1:
                bad.append("%s parameter, value %d: stored %s" % (prop or "plain", mag, res))
        if und:
            break
    if und:
        ctx.undecided("C13.numeric-type", "NumParam.add", "evaluator: %s" % und, f.W())
    else:
        ctx.check(not bad, "C13.numeric-type", "NumParam.add", "the stored value is the same for int, float and NumPy scalars of equal value",
                  "; ".join(bad[:3]) + " -- an integer cell of an xlsx file by-passes the correction that the float of the json twin receives: "
                  "the two files are different systems and dump/re-read changes the value", f.W())
