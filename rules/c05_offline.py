"""C05.offline -- an offline device (u = 0) puts nothing on the bus it is attached to.

For every model with a connection status `u` and external algebraic variables linked to Bus (the bus power-balance rows), the declared
injection with the ConstService chain inlined vanishes identically for u = 0 -- after the internal algebraic variables it mentions have
been eliminated through the model's own algebraic equations at u = 0 (`Pe` with `0 = u*(...) - Pe`; `psh` through the equation that
determines it).  Symbolic over all parameters and variables (sympy normal forms on the elaborated models); nothing is simulated.  The
static device a dynamic model replaces stays on when the dynamic model is offline (C05.static-dynamic), so a non-vanishing injection is
counted twice."""
import sympy as sp

from engine import dsl
from rules.c01 import Elem


def run_rule(ctx, models):
    n = 0
    for name, m in models.items():
        if "u" not in m.params:
            continue
        ext = [(vn, v) for vn, v in m.cache.all_vars.items() if type(v).__name__ == "ExtAlgeb" and getattr(v, "model", None) == "Bus" and v.e_str]
        if not ext:
            continue
        try:
            el = Elem(m)
            u = el.st.get("u")
            algebs = {el.st.get(k): k for k, v in m.cache.all_vars.items() if type(v).__name__ == "Algeb"}
            alg_eqs = {k: sp.simplify(el.eq(k).subs(u, 0)) for k in algebs.values()}
        except Exception as ex:      # noqa: front-end limits are UNDECIDED, never a violation
            ctx.undecided("C05.offline", name, "front-end: %r" % ex, "")
            continue
        for vn, v in ext:
            n += 1
            try:
                e0 = sp.simplify(el.eq(vn).subs(u, 0))
                for _ in range(4):
                    ws = [w for w in e0.free_symbols if w in algebs]
                    if not ws or e0 == 0:
                        break
                    rep = {}
                    for w in ws:
                        # an algebraic equation of the model that, at u = 0, involves no other internal algebraic variable than w
                        for k, ek in alg_eqs.items():
                            if w in ek.free_symbols and not ((ek.free_symbols & set(algebs)) - {w}):
                                sol = sp.solve(sp.Eq(ek, 0), w, dict=True)
                                if len(sol) == 1 and w in sol[0]:
                                    rep[w] = sol[0][w]
                                    break
                    if not rep:
                        break
                    e0 = sp.simplify(e0.subs(rep))
            except Exception as ex:      # noqa
                ctx.undecided("C05.offline", "%s.%s" % (name, vn), "front-end: %r" % ex, "")
                continue
            from engine.elab import locate
            ctx.check(e0 == 0, "C05.offline", "%s.%s" % (name, vn), "the injection into the bus vanishes for u = 0",
                      "with u = 0 the device still puts `%s` on its bus row (`%s`): an offline %s injects power; the static device it replaces "
                      "stays on, so the power is counted twice and the initialisation fails" % (str(e0)[:80], v.e_str[:60], name), locate(m, vn))
    ctx.count("offline_injections", n)
