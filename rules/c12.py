"""C12 -- island detection and status propagation match the network graph.

Decided: bus_deps covers every power-flow model attached to a bus; ConnMan.act switches off exactly the devices
found on the off buses; connectivity()'s edge table covers every model that injects into two or more buses (with
its own status and address arrays) and every edge enters the adjacency symmetrically; isolated-bus neutralisation
ordering and its reliance on the Bus block layout; slack classification partitions N; re-check after events.
Correctness of the closure loop for all topologies is declined."""
import ast

from engine import astq as Q
from engine import elab
from engine.cfg import walk_noscope
from engine.ordertype import Interp, Unsupported
from engine.pysrc import Repo, F, dotted, src, calls_in, literal
from engine.report import AnalysisError

SYSTEM = "andes/system.py"
CONN = "andes/core/connman.py"
BUS = "andes/models/bus.py"
TDS = "andes/routines/tds.py"

# frozen exceptions (one symbol each, with reason)
BUS_DEPS_EXCEPTIONS = {
    # Fortescue couples a three-phase section through busa/busb/busc; switching those off separately is not modelled by
    # ConnMan (positive-sequence bus `bus` is listed). Recorded as known finding, not silently excepted.
}


def rule_bus_deps(ctx, repo, models):
    mod = repo.module(CONN)
    deps = None
    for n in mod.body:
        if isinstance(n, ast.Assign) and dotted(n.targets[0]) == "bus_deps":
            for c in ast.walk(n.value):
                if isinstance(c, ast.List) and c.elts and isinstance(c.elts[0], ast.Tuple):
                    deps = {e.elts[0].value: [x.value for x in e.elts[1].elts] for e in c.elts}
    if deps is None:
        raise AnalysisError("connman.bus_deps literal vanished")
    n = 0
    for name, m in models.items():
        if not m.flags.pflow:
            continue
        # a device is *attached* to a bus through a field iff that field is the indexer of one of its external links into Bus
        # (remote-control references such as PV.busr are not attachments)
        linked = {getattr(v.indexer, "name", None) for v in m.cache.vars_ext.values() if getattr(v, "model", None) == "Bus"}
        fields = [pn for pn, p in m.params.items() if type(p).__name__ == "IdxParam" and getattr(p, "model", None) == "Bus"
                  and pn in linked]
        for fld in fields:
            n += 1
            ok = m.group in deps and fld in deps[m.group]
            ctx.check(ok, "C12.bus-deps", "%s.%s" % (name, fld), "group %s / field %s listed in bus_deps" % (m.group, fld),
                      "power-flow model %s (group %s) is attached to buses through `%s`, which bus_deps does not list: switching "
                      "such a bus off leaves the device on" % (name, m.group, fld), elab.locate(m, fld))
    # every listed field exists in every model of the group
    for grp, flds in deps.items():
        members = [m for m in models.values() if m.group == grp]
        for fld in flds:
            bad = [type(m).__name__ for m in members if fld not in m.params]
            ctx.check(bool(members) and not bad, "C12.bus-deps", "bus_deps[%s].%s" % (grp, fld), "field exists in all %d models of the group" % len(members),
                      "bus_deps lists %s.%s but %s lack(s) that field (find_idx would raise)" % (grp, fld, bad or "the group has no models"), CONN)
    ctx.count("pflow_bus_fields", n)
    # act(): switches off exactly the found devices through the group API
    f = F.method(repo, "ConnMan", "act", CONN)
    ok = False
    for lp, e in Q.loops(f.fn, "bus_deps.items()", "($g, $srcs)"):
        e1 = Q.first("$devs = self.system.__dict__[$g].find_idx(keys=$s, values=$off, allow_none=True, allow_all=True, default=None)", lp, e)[1]
        if e1 and Q.has("self.system.__dict__[$g].set(src='u', attr='v', idx=$flat, value=0)", lp, e) and \
                Q.has("$off = [self.system.Bus.idx.v[$i] for $i in np.nonzero(self.changes['off'])[0]]", f.fn, {"off": e1["off"]}):
            ok = True
    ctx.check(ok, "C12.bus-deps", "ConnMan.act", "devices found by find_idx(field, off-bus idx) of each listed group get u := 0",
              "bus-off propagation no longer switches off exactly the devices found on the off buses", f.W())
    ok = any(Q.match("self.system.connectivity(info=True)", c) for c in calls_in(f.fn))
    ctx.check(ok, "C12.bus-deps", "ConnMan.act/recheck", "connectivity re-checked after propagation", "no connectivity re-check after switching devices off", f.W())
    rule_act_dataflow(ctx, repo, f)
    b = F.method(repo, "Bus", "set", BUS)
    ok = Q.has("_check_conn_status(system=self.system, src=src, attr=attr)", b.fn)
    c = F.function(repo, BUS, "_check_conn_status")
    ok = ok and Q.has("system.conn.record()", c.fn) and Q.has("system.PFlow.converged = False", c.fn)
    ctx.check(ok, "C12.bus-deps", "Bus.set", "u changes are recorded and invalidate the power-flow solution",
              "bus status changes are no longer recorded / no longer invalidate PFlow.converged", b.W())


def rule_act_dataflow(ctx, repo, f):
    """Three dataflow obligations behind "switches off exactly the devices attached": (1) the not-found sentinel of find_idx is
    filtered element-wise before the list reaches Group.set; (2) status changes recorded but not yet acted on are accumulated,
    not overwritten by the next record(); (3) the group lookup in all-matches mode merges the matches of every model."""
    fn = f.fn
    # (1) sentinel filter on the def-use chain  find_idx(..., default=D)  ->  set(idx=...)
    fcalls = [c for c in calls_in(fn) if isinstance(c.func, ast.Attribute) and c.func.attr == "find_idx"]
    scalls = [c for c in calls_in(fn) if isinstance(c.func, ast.Attribute) and c.func.attr == "set" and any(k.arg == "idx" for k in c.keywords)]
    if not fcalls or not scalls:
        ctx.undecided("C12.bus-deps", "ConnMan.act/sentinel", "find_idx -> set chain not recognised", f.W())
    else:
        dflt = next((k.value for c in fcalls for k in c.keywords if k.arg == "default"), None)
        allow_none = any(k.arg == "allow_none" and isinstance(k.value, ast.Constant) and k.value.value is True for c in fcalls for k in c.keywords)
        sent = src(dflt) if dflt is not None else "None"
        idx_arg = next(k.value for k in scalls[0].keywords if k.arg == "idx")
        # backward slice over names
        names, work = set(), [x.id for x in ast.walk(idx_arg) if isinstance(x, ast.Name)]
        stmts = []
        while work:
            nm = work.pop()
            if nm in names:
                continue
            names.add(nm)
            for st in walk_noscope(fn):
                contrib = None
                if isinstance(st, ast.Assign) and any(dotted(t) == nm for t in st.targets):
                    contrib = st.value
                elif isinstance(st, ast.Expr) and isinstance(st.value, ast.Call) and isinstance(st.value.func, ast.Attribute) and \
                        st.value.func.attr in ("append", "extend") and dotted(st.value.func.value) == nm:
                    contrib = st.value
                if contrib is not None:
                    stmts.append(st)
                    work += [x.id for x in ast.walk(contrib) if isinstance(x, ast.Name)]
        elementwise = False
        for st in stmts:
            for c in ast.walk(st):
                if isinstance(c, (ast.ListComp, ast.GeneratorExp)):
                    for g_ in c.generators:
                        for t in g_.ifs:
                            if sent in src(t) and any(isinstance(x, ast.Name) and x.id in {n_.id for n_ in ast.walk(g_.target) if isinstance(n_, ast.Name)}
                                                      for x in ast.walk(t)):
                                elementwise = True
                if isinstance(c, ast.Call) and dotted(c.func) == "filter":
                    elementwise = True
        # loop idiom: `for d in <chain>: if d is None: continue` / `if d is not None: <chain>.append(d)`
        for l in walk_noscope(fn):
            if isinstance(l, ast.For) and any(isinstance(x, ast.Name) and x.id in names for x in ast.walk(l.iter)):
                tv = {x.id for x in ast.walk(l.target) if isinstance(x, ast.Name)}
                for t in ast.walk(l):
                    if isinstance(t, ast.If) and sent in src(t.test) and any(isinstance(x, ast.Name) and x.id in tv for x in ast.walk(t.test)):
                        elementwise = True
        whole = [src(n) for n in walk_noscope(fn) if isinstance(n, ast.Compare) and any(src(x) == "[%s]" % sent for x in n.comparators)]
        ok = (not allow_none) or elementwise
        ctx.check(ok, "C12.bus-deps", "ConnMan.act/sentinel", "the not-found sentinel %s is removed element-wise before Group.set(idx=...)" % sent,
                  "find_idx(allow_none=True, default=%s) yields %s for every off bus without a match; the chain to `%s` removes it only by the "
                  "whole-list test %s, which holds for a single off bus only: with two or more off buses %s reaches Group.set (KeyError) " % (
                      sent, sent, src(scalls[0])[:60], whole or "(none)", sent), f.W(scalls[0]))
    # (2) pending changes accumulate
    rec = F.method(repo, "ConnMan", "record", CONN)
    upd = F.method(repo, "ConnMan", "_update", CONN) if repo.has_method("ConnMan", "_update", CONN) else None
    fns = [rec.fn] + ([upd.fn] if upd and any(dotted(c.func) == "self._update" for c in calls_in(rec.fn)) else [])
    writes = []
    ref_adv = False
    for g_ in fns:
        for st in walk_noscope(g_):
            if isinstance(st, (ast.Assign, ast.AugAssign)):
                tg = st.targets[0] if isinstance(st, ast.Assign) else st.target
                t = src(tg)
                if t.startswith("self.changes['off']") or t.startswith('self.changes["off"]'):
                    writes.append(st)
                if t.startswith("self.busu0"):
                    ref_adv = True
    if not writes:
        ctx.undecided("C12.bus-deps", "ConnMan.record/pending", "writer of changes['off'] not recognised", rec.W())
    else:
        acc = all(isinstance(w, ast.AugAssign) or "self.changes['off']" in src(w.value) or 'self.changes["off"]' in src(w.value) for w in writes)
        ok = acc or not ref_adv
        ctx.check(ok, "C12.bus-deps", "ConnMan.record/pending", "changes recorded before the next act() are accumulated",
                  "record() overwrites changes['off'] (`%s`) and advances the reference busu0 in the same call: a bus switched off by an "
                  "earlier set() whose change has not been acted on yet is forgotten, its devices stay in service" % src(writes[0]), rec.W(writes[0]))
    # (3) all-matches mode merges every model
    g = F.method(repo, "GroupBase", "find_idx", "andes/models/group.py")
    coll = [l for l in ast.walk(g.fn) if isinstance(l, ast.For) and isinstance(l.iter, ast.Name) and
            any(isinstance(c, ast.Call) and isinstance(c.func, ast.Attribute) and c.func.attr in ("append", "extend") for c in ast.walk(l))
            and any(isinstance(x, ast.Compare) and "default" in src(x) for x in ast.walk(l))]
    if not coll:
        ctx.undecided("C12.bus-deps", "GroupBase.find_idx/all-models", "per-model result merge loop not recognised", g.W())
    for l in coll:
        ex = [e for e in Q.early_exits(l) if not any("allow_all" in src(c.test) for c in (Q.condition_chain(l, e) or []) if hasattr(c, "test"))]
        ctx.check(not ex, "C12.bus-deps", "GroupBase.find_idx/all-models", "with allow_all the matches of every model of the group are merged",
                  "`%s` at line %d keeps the matches of the first model that has any: devices of the group's other models on the same bus "
                  "are not returned (and not switched off)" % (src(ex[0]) if ex else "", ex[0].lineno if ex else 0), g.W(l))


def rule_series_table(ctx, repo, models):
    f = F.method(repo, "System", "connectivity", SYSTEM)
    fn = f.fn
    # edges collected: triples (fr source, to source, u source) by consecutive fr/to/u extends
    ext = {"fr": [], "to": [], "u": []}
    for n in fn.body:
        if isinstance(n, ast.Expr) and isinstance(n.value, ast.Call):
            d = dotted(n.value.func) or ""
            for k in ext:
                if d == "%s.extend" % k and n.value.args:
                    ext[k].append(src(n.value.args[0]))
    if not (len(ext["fr"]) == len(ext["to"]) == len(ext["u"]) and len(ext["fr"]) >= 2):
        raise AnalysisError("System.connectivity: edge collection (fr/to/u extends) not recognised: %s" % {k: len(v) for k, v in ext.items()})
    edges = set()
    for a, b, u in zip(ext["fr"], ext["to"], ext["u"]):
        ma, mb, mu = a.split(".")[1], b.split(".")[1], u.split(".")[1]
        ok = ma == mb == mu and a.endswith(".a.tolist()") and b.endswith(".a.tolist()") and u == "self.%s.u.v.tolist()" % ma
        ctx.check(ok, "C12.series", "edge(%s)" % ",".join(x.replace("self.", "").replace(".tolist()", "") for x in (a, b, u)),
                  "endpoints and status come from the same device model",
                  "an edge mixes endpoints/status of different models or is not built from address arrays", f.W())
        edges.add((ma, a.split(".")[2], b.split(".")[2]))
    # IR: models injecting into >= 2 distinct bus indexers
    for name, m in models.items():
        inj = {}
        for vn, v in m.cache.vars_ext.items():
            if getattr(v, "model", None) == "Bus" and v.src == "a" and v.e_str is not None and getattr(v, "indexer", None) is not None:
                inj.setdefault(v.indexer.name, vn)
        if len(inj) < 2:
            continue
        vs = list(inj.values())
        covered = {(mm, a, b) for mm, a, b in edges if mm == name}
        nodes_cov = {x for _, a, b in covered for x in (a, b)}
        ok = set(vs) <= nodes_cov
        ctx.check(ok, "C12.series", name, "every bus terminal (%s) appears in the edge table with the model's own status" % vs,
                  "series device %s injects into buses through %s but connectivity() has no edge for %s: islands formed by it are not detected" % (
                      name, vs, sorted(set(vs) - nodes_cov)), f.W())
    # adjacency symmetric: fr+to+fr+to / to+fr+fr+to with u*4
    ok = Q.has("$t = spmatrix(list(u) * 4, fr + to + fr + to, to + fr + fr + to, (n, n), 'd')", fn)
    ctx.check(ok, "C12.series", "connectivity/adjacency", "each edge enters (fr,to), (to,fr) and both diagonals with weight u",
              "adjacency matrix is no longer symmetric with self loops weighted by the device status", f.W())
    ok = Q.has("diag = list(matrix(spmatrix(u, to, os, (n, 1), 'd') + spmatrix(u, fr, os, (n, 1), 'd')))", fn)
    t = [tn for tn in f.g.nodes() if f.g.data(tn)["kind"] == "test" and Q.match("diag[$i] == 0", f.g.data(tn)["ast"].test)]
    ok = ok and bool(t) and any(Q.match("self.Bus.islanded_buses.append($i)", f.g.data(n)["ast"]) and f.g.guarded_by(n, t[0], "true")
                               for n in f.g.nodes() if f.g.data(n)["kind"] == "stmt")
    ctx.check(ok, "C12.series", "connectivity/degree", "isolated bus <=> weighted degree 0 over in-service series devices",
              "isolated-bus test is no longer `sum of in-service incident devices == 0`", f.W())
    # results are reset at entry
    resets = {dotted(n.targets[0]) for n in fn.body if isinstance(n, ast.Assign) and (dotted(n.targets[0]) or "").startswith("self.Bus.")}
    need = {"self.Bus.islanded_buses", "self.Bus.island_sets", "self.Bus.nosw_island", "self.Bus.msw_island", "self.Bus.islands"}
    ctx.check(need <= resets, "C12.series", "connectivity/reset", "results rebuilt from scratch on every call",
              "stale connectivity results survive a re-check: %s not reset" % sorted(need - resets), f.W())


def rule_neutralise(ctx, repo, models):
    f = F.method(repo, "System", "fg_to_dae", SYSTEM)
    a = f.calls("self._e_to_dae")
    b = f.calls("self.g_islands")
    ok = bool(a and b) and f.before(a, b)[0] and f.after(a, b)[0]
    ctx.check(ok, "C12.neutralise", "System.fg_to_dae", "g_islands() after the residuals are collected",
              "isolated-bus residuals are zeroed before collection (and overwritten) or not at all", f.W())
    g = F.method(repo, "System", "g_islands", SYSTEM)
    def _zeroed(rows):
        return any(isinstance(st_, ast.Assign) and isinstance(st_.targets[0], ast.Subscript) and dotted(st_.targets[0].value) == "self.dae.g"
                   and src(st_.targets[0].slice) == rows and isinstance(st_.value, ast.Constant) and st_.value.value == 0 for st_ in ast.walk(g.fn))
    ok = _zeroed("self.Bus.islanded_a") and _zeroed("self.Bus.islanded_v")
    ctx.check(ok, "C12.neutralise", "System.g_islands", "P and Q rows of isolated buses zeroed", "g_islands no longer zeroes both rows", g.W())
    j = F.method(repo, "System", "j_islands", SYSTEM)
    ok = all(Q.has(pt, j.fn) for pt in ("self.dae.gy.ipset(self.config.diag_eps, aidx, aidx)", "self.dae.gy.ipset(self.config.diag_eps, vidx, vidx)",
                                        "self.dae.gy.ipset(0.0, aidx, vidx)", "self.dae.gy.ipset(0.0, vidx, aidx)"))
    ctx.check(ok, "C12.neutralise", "System.j_islands", "diagonals of isolated buses set to diag_eps, cross terms cleared",
              "Jacobian patch for isolated buses changed", j.W())
    c = F.method(repo, "System", "connectivity", SYSTEM)
    ok = any(Q.has("self.Bus.islanded_a = %s(self.Bus.islanded_buses%s)" % (fn_, kw), c.fn) for fn_ in ("np.array", "np.asarray")
             for kw in ("", ", dtype=int")) and Q.has("self.Bus.islanded_v = self.Bus.n + self.Bus.islanded_a", c.fn)
    # layout assumption: Bus is the first model with algebraic variables and is not collated, a before v
    first = None
    for name, m in models.items():
        if len(m.algebs) > 0:
            first = name
            break
    bus = models["Bus"]
    lay = first == "Bus" and bus.flags.collate is False and list(bus.algebs.keys())[:2] == ["a", "v"]
    ctx.check(ok and lay, "C12.neutralise", "Bus layout", "islanded_v = Bus.n + islanded_a is valid: Bus is the first algebraic block, "
              "non-collated, a before v", "address arithmetic islanded_v = Bus.n + uid no longer matches the Bus block layout "
              "(first algebraic model: %s, collate=%s, order=%s)" % (first, bus.flags.collate, list(bus.algebs.keys())[:2]), c.W())


def rule_slack(ctx, repo):
    f = F.method(repo, "System", "connectivity", SYSTEM)
    fn = f.fn
    # counter idiom: nosw starts at c0, decremented once per enabled slack in the island, then classified
    e = Q.first("nosw = $c", fn)[1]
    dec = Q.first("nosw -= $d", fn)[1]
    tests = []
    for tn in sorted(f.g.nodes()):
        d = f.g.data(tn)
        if d["kind"] == "test" and "nosw" in src(d["ast"].test):
            tgt = None
            for n in f.g.nodes():
                if f.g.data(n)["kind"] == "stmt" and f.g.guarded_by(n, tn, "true"):
                    m = Q.match("self.Bus.$lst.append($i)", f.g.data(n)["ast"])
                    if m:
                        tgt = m["lst"]
            tests.append((d["ast"].test, tgt))
    if e is None or dec is None or len(tests) < 2:
        ctx.undecided("C12.slack", "connectivity/slack-count", "classification idiom not recognised", f.W())
        return
    c0, dd = literal(e["c"]), literal(dec["d"])
    bad = []
    for k in range(0, 6):
        nosw = c0 - dd * k
        hits = []
        taken = False
        for test, tgt in tests:
            if taken:
                break
            try:
                if Interp({"nosw": nosw}).ev(test):
                    hits.append(tgt)
                    taken = True       # if / elif chain
            except Unsupported as ex:
                ctx.undecided("C12.slack", "connectivity/slack-count", str(ex), f.W())
                return
        want = "nosw_island" if k == 0 else (None if k == 1 else "msw_island")
        got = hits[0] if hits else None
        if got != want:
            bad.append("%d enabled slack(s) in an island classified as %s (expected %s)" % (k, got, want))
    ctx.check(not bad, "C12.slack", "connectivity/slack-count", "k = 0 -> no slack; 1 -> ok; >= 2 -> multiple (k = 0..5 enumerated; monotone counter)",
              "; ".join(bad), f.W())
    # the counter belongs to ONE island: it is (re)initialised inside the loop over islands, before the slacks are counted
    isl = [l for l in ast.walk(fn) if isinstance(l, ast.For) and "island_sets" in src(l.iter)]
    if not isl:
        ctx.undecided("C12.slack", "connectivity/per-island-counter", "loop over the islands not recognised", f.W())
    else:
        lp0 = isl[0]
        inits = [st for st in lp0.body if isinstance(st, ast.Assign) and dotted(st.targets[0]) == "nosw"]
        first_use = next((k for k, st in enumerate(lp0.body) if any(isinstance(x, ast.AugAssign) and dotted(x.target) == "nosw" for x in ast.walk(st))
                          or any(isinstance(x, ast.Name) and x.id == "nosw" and isinstance(x.ctx, ast.Load) for x in ast.walk(st))), None)
        ok_init = bool(inits) and (first_use is None or lp0.body.index(inits[0]) < first_use)
        ctx.check(ok_init, "C12.slack", "connectivity/per-island-counter", "slack counter initialised per island",
                  "the slack counter `nosw` is not re-initialised at the top of each iteration of the island loop: counts carry over from one "
                  "island to the next (a slack-less island after one with a slack is not reported; islands after a double-slack one are)", f.W(lp0))
    ok = False
    for lp, e2 in Q.loops(fn, "zip($su, $sb)", "($u, $item)"):
        t = [x for x in ast.walk(lp) if isinstance(x, ast.If)]
        if t and Q.match("$u == 1 and $item in island", t[0].test, e2):
            ok = True
    ok = ok and Q.has("$sb = self.Bus.idx2uid(self.Slack.bus.v)", fn) and Q.has("$su = self.Slack.u.v", fn)
    ctx.check(ok, "C12.slack", "connectivity/slack-membership", "a slack counts iff it is enabled and its bus uid is in the island",
              "slack membership test changed (status or bus mapping)", f.W())


def rule_search_bounds(ctx, repo):
    """Island search: the start-bus cursor is advanced past isolated buses inside `while True`; it is used as a row index of the n x n
    adjacency matrix, so on every path from an increment of the cursor to that subscript a test against the number of buses (or the
    number of non-isolated buses) is passed -- otherwise a pattern in which every remaining bus is isolated indexes past the end."""
    f = F.method(repo, "System", "connectivity", SYSTEM)
    g = f.g
    subs = [n for n in g.nodes() if g.data(n)["kind"] == "stmt" and any(
        isinstance(x, ast.Subscript) and isinstance(x.ctx, ast.Load) and any(isinstance(y, ast.Name) and y.id == "starting_bus" for y in ast.walk(x.slice))
        for x in ast.walk(g.data(n)["ast"]))]
    incs = [n for n in g.nodes() if g.data(n)["kind"] == "stmt" and isinstance(g.data(n)["ast"], ast.AugAssign)
            and dotted(g.data(n)["ast"].target) == "starting_bus"]
    if not subs or not incs:
        ctx.undecided("C12.series", "connectivity/search-bound", "cursor increment / row subscript not recognised", f.W())
        return
    bounds = [tn for tn in g.nodes() if g.data(tn)["kind"] in ("test", "loop") and g.data(tn)["expr"] and
              any(isinstance(c, ast.Compare) and "starting_bus" in src(c) and any(k in src(c) for k in ("n", "Bus.n", "len(")) and
                  not any(isinstance(o, (ast.In, ast.NotIn)) for o in c.ops) for c in ast.walk(g.data(tn)["expr"][0]))]
    bad = []
    for i in incs:
        for s_ in subs:
            p = g.path(i, s_, avoid=bounds)
            if p is not None:
                bad.append(g.fmt_path(p))
    ctx.check(not bad, "C12.series", "connectivity/search-bound", "the start-bus cursor is tested against the bus count before it indexes the adjacency matrix",
              "`starting_bus += 1` reaches `%s` without a bound test (path %s): when every remaining bus is isolated (e.g. all lines out of "
              "service) the search indexes past the last bus" % (src(g.data(subs[0])["ast"]), bad[0] if bad else ""), f.W(subs[0]))


def rule_recheck(ctx, repo):
    d = F.method(repo, "TDS", "do_switch", TDS)
    t = [tn for tn in d.g.nodes() if d.g.data(tn)["kind"] == "test" and Q.match("ret is True and self.config.check_conn == 1", d.g.data(tn)["ast"].test)]
    ok = bool(t) and any(d.g.guarded_by(n, t[0], "true") for n in d.calls("system.connectivity"))
    ctx.check(ok, "C12.recheck", "TDS.do_switch", "connectivity re-checked after every switching event (check_conn)",
              "islands are no longer re-detected after a switching event", d.W())
    # ... and by nothing else: any further condition lets some event through without a re-check
    for cn in d.call_nodes("system.connectivity"):
        st = next((x for x in walk_noscope(d.fn) if isinstance(x, ast.Expr) and x.value is cn), None)
        chain = Q.condition_chain(d.fn, st) if st is not None else None
        extra = [c for c in (chain or []) if hasattr(c, "test") and Q.match("ret is True and self.config.check_conn == 1", c.test) is None
                 and Q.match("self.config.check_conn == 1", c.test) is None and Q.match("ret is True", c.test) is None and Q.match("ret", c.test) is None]
        ctx.check(not extra, "C12.recheck", "TDS.do_switch/unconditional", "the re-check depends on `an event fired` and the check_conn option only",
                  "the re-check is additionally gated by `%s`: an event for which this is false changes the topology without islands and isolated "
                  "buses being re-detected" % (src(extra[0].test) if extra else ""), d.W(cn))
    p = F.method(repo, "PFlow", "run", "andes/routines/pflow.py")
    t = [tn for tn in p.g.nodes() if p.g.data(tn)["kind"] == "test" and Q.match("self.config.check_conn == 1", p.g.data(tn)["ast"].test)]
    ok = bool(t) and any(p.g.guarded_by(n, t[0], "true") for n in p.calls("self.system.connectivity")) and \
        p.before(p.calls("self.system.connectivity"), p.calls("self.init"))[0] is False or (bool(t) and p.before(t, p.calls("self.init"))[0])
    ctx.check(bool(ok), "C12.recheck", "PFlow.run", "connectivity checked before the power flow", "power flow no longer checks connectivity first", p.W())


def run(ctx):
    ctx.rule("C12.bus-deps", "dataflow (sentinel filter, pending changes, all-model merge) and cross-table exhaustiveness: every IdxParam(model='Bus') of every power-flow model is listed in bus_deps; "
             "listed fields exist; act() switches off exactly the found devices", 20)
    ctx.rule("C12.series", "island search cursor bounded; connectivity() edge table covers every model injecting into >= 2 buses with its own status/addresses; "
             "symmetric adjacency; degree test; results reset", 8)
    ctx.rule("C12.neutralise", "isolated-bus neutralisation ordering and Bus block layout assumption", 4)
    ctx.rule("C12.slack", "slack-count classification partitions N into {0, 1, >=2}; counter per island", 3)
    ctx.rule("C12.recheck", "connectivity re-checked after events (gated by nothing but event-fired and check_conn) / before power flow", 3)
    ctx.assume("correctness of the Goderya closure loop for all topologies needs loop invariants over sparse-matrix algebra: declined")
    repo = Repo()
    models = elab.load_models()
    rule_bus_deps(ctx, repo, models)
    rule_series_table(ctx, repo, models)
    rule_neutralise(ctx, repo, models)
    rule_slack(ctx, repo)
    rule_search_bounds(ctx, repo)
    rule_recheck(ctx, repo)
