"""C14.snapshot/System.set_var_arrays -- re-pointing the variable views after de-serialisation copes with every state a saved system can
be in.

`fix_view_arrays` (snapshot load, and every system returned by the multi-case pool) calls System.set_var_arrays on ALL models.  Before the
time-domain initialisation the dynamic models have devices (n > 0) but no addresses yet: their variables have an empty address array and
nothing to point to.  Decided by evaluation (engine/tinyexec.py): set_var_arrays on a stand-in system with an addressed model, an
un-addressed model with devices and an empty model: every variable of the addressed model is re-pointed, no variable of the others is
touched (a stand-in variable without addresses raises IndexError when re-pointed, as Var._set_arrays_inplace does: `self.a[0]`)."""
from collections import OrderedDict

from engine.pysrc import F
from engine.tinyexec import TinyExec, Fake
from engine.ordertype import Unsupported

SYSTEM = "andes/system.py"
VAR = "andes/core/var.py"


def run_rule(ctx, repo):
    f = F.method(repo, "System", "set_var_arrays", SYSTEM)
    # confirm the premise from the source: the in-place re-pointing indexes the address array unconditionally
    import ast
    ci, fn = repo.method("BaseVar", "_set_arrays_inplace", VAR)
    premise = any(isinstance(x, ast.Subscript) and isinstance(x.value, ast.Attribute) and x.value.attr == "a" and isinstance(x.slice, ast.Constant)
                  for x in ast.walk(fn)) and not any(isinstance(x, ast.If) for x in ast.walk(fn) if "self.a" in ast.unparse(getattr(x, "test", x)) and "len" in ast.unparse(getattr(x, "test", x)))
    log = []

    class _Var(Fake):
        def __init__(self, name, a):
            self.name, self.a = name, a

        def set_arrays(self, dae, inplace=True, alloc=True):
            if premise and len(self.a) == 0:
                raise IndexError("index 0 is out of bounds for axis 0 with size 0")
            log.append(self.name)

    class _Obj(Fake):
        pass

    def model(n, addressed, tag):
        m = _Obj()
        m.n, m.flags, m.cache = n, _Obj(), _Obj()
        m.flags.address = addressed
        a = [0, 1] if addressed else []
        m.cache.vars_int = OrderedDict([(tag + "_x", _Var(tag + "_x", a))])
        m.cache.vars_ext = OrderedDict([(tag + "_e", _Var(tag + "_e", a))])
        return m
    sysobj = _Obj()
    sysobj.dae = _Obj()
    models = OrderedDict([("PF", model(2, True, "pf")), ("DYN", model(2, False, "dyn")), ("EMPTY", model(0, False, "empty"))])
    try:
        TinyExec(repo, "System", SYSTEM).call("set_var_arrays", sysobj, models)
        ok = sorted(log) == ["pf_e", "pf_x"]
        why = "variables re-pointed: %s" % sorted(log)
    except Unsupported as ex:
        ctx.undecided("C14.snapshot", "System.set_var_arrays/unaddressed", "evaluator: %s" % ex, f.W())
        return
    except IndexError as ex:
        ok, why = False, "re-pointing a variable of a model that has devices but no addresses yet raises IndexError (%s)" % ex
    ctx.check(ok, "C14.snapshot", "System.set_var_arrays/unaddressed", "models without addresses are skipped, addressed ones are re-pointed",
              why + " -- a system saved (or returned by the multi-case pool) after the power flow and before the dynamic initialisation cannot be "
              "loaded", f.W())
