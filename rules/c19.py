"""C19 -- cross-references between devices are resolved completely or rejected.

Decided: idx registry pairing (allocate -> model.add -> group.add; duplicate => raise; uid and _idx2model updated together;
allocation loop leaves only on a free idx; unique parameters raise on duplicates); BackRef reset-then-fill, once per
(referrer, idx-param, name), dangling targets skipped not remapped; find-or-add stages; error discipline of every
link_external call site (no swallowed lookup errors). Lookup correctness for arbitrary add sequences is declined."""
import ast

from engine import astq as Q
from engine.cfg import walk_noscope
from engine.pysrc import Repo, F, dotted, src, calls_in
from engine.report import AnalysisError

SYSTEM = "andes/system.py"
GROUP = "andes/models/group.py"
PARAM = "andes/core/param.py"
SERVICE = "andes/core/service.py"
MODELDATA = "andes/core/model/modeldata.py"


def rule_registry(ctx, repo):
    a = F.method(repo, "System", "add", SYSTEM)
    g1 = a.calls("group.get_next_idx")
    g2 = [n for n in a.g.nodes() if a.g.data(n)["kind"] == "stmt" and Q.match("self.__dict__[model].add(idx=idx, **param_dict)", a.g.data(n)["ast"])]
    g3 = [n for n in a.g.nodes() if a.g.data(n)["kind"] == "stmt" and Q.match("group.add(idx=idx, model=self.__dict__[model])", a.g.data(n)["ast"])]
    ok = bool(g1 and g2 and g3) and a.before(g1, g2)[0] and a.before(g2, g3)[0] and a.after(g2, g3)[0]
    ctx.check(ok, "C19.registry", "System.add", "allocate idx -> model.add(idx) -> group.add(idx, model), same idx",
              "device registration no longer allocates, adds to the model and registers in the group with one idx", a.W())
    ga = F.method(repo, "GroupBase", "add", GROUP)
    t = [tn for tn in ga.g.nodes() if ga.g.data(tn)["kind"] == "test" and Q.match("idx in self._idx2model", ga.g.data(tn)["ast"].test)]
    rs = [n for n in ga.g.nodes() if ga.g.data(n)["kind"] == "stmt" and isinstance(ga.g.data(n)["ast"], ast.Raise)]
    ok = bool(t and rs) and ga.g.guarded_by(rs[0], t[0], "true")
    u1 = [n for n in ga.g.nodes() if ga.g.data(n)["kind"] == "stmt" and Q.match("self.uid[idx] = self.n", ga.g.data(n)["ast"])]
    u2 = [n for n in ga.g.nodes() if ga.g.data(n)["kind"] == "stmt" and Q.match("self._idx2model[idx] = model", ga.g.data(n)["ast"])]
    ok = ok and bool(u1 and u2) and ga.before(t, u1 + u2)[0]
    ctx.check(ok, "C19.registry", "GroupBase.add", "duplicate idx raises; uid and _idx2model updated together after the test",
              "group registration accepts a duplicate idx or updates only one of the two maps", ga.W())
    gn = F.method(repo, "GroupBase", "get_next_idx", GROUP)
    # decided by evaluation (engine/tinyexec.py) over registries with and without collisions
    from engine.tinyexec import TinyExec, Fake, LoopBound
    from engine.ordertype import Unsupported

    class _G(Fake):
        class_name = "Grp"

        def __init__(self, reg):
            self._idx2model, self.n = dict(reg), len(reg)
            self.uid = {k: i for i, k in enumerate(reg)}

        def idx2model(self, idx, *a_, **k_):
            return self._idx2model[idx]

    class _M(Fake):
        class_name = "Mdl"
    nop = lambda *a_, **k_: None      # noqa: E731
    stubs = {"logger.warning": nop, "logger.debug": nop, "logger.info": nop, "logger.error": nop}
    auto_bad, expl_bad, und = [], [], None
    regs = [{}, {"G_1": _M(), "G_2": _M()}, {"G_3": _M(), "G_4": _M()}, {"G_1": _M(), "G_3": _M(), "x": _M()}, {"Grp_2": _M(), 7: _M()}]
    try:
        for reg in regs:
            for mname in ("G", None):
                got = TinyExec(repo, "GroupBase", GROUP, stubs=stubs).call("get_next_idx", _G(reg), None, mname)
                pre = (mname or "Grp") + "_"
                if got in reg or not (isinstance(got, str) and got.startswith(pre) and got[len(pre):].isdigit()):
                    auto_bad.append("registry %s, model_name=%r: generated idx %r" % (sorted(map(str, reg)), mname, got))
            for prop in list(reg)[:2] + ["free", 99]:
                got = TinyExec(repo, "GroupBase", GROUP, stubs=stubs).call("get_next_idx", _G(reg), prop, "G")
                if prop in reg and (got in reg or got is None):
                    expl_bad.append("registry %s: taken idx %r answered with %r" % (sorted(map(str, reg)), prop, got))
                if prop not in reg and got != prop:
                    expl_bad.append("registry %s: free idx %r replaced by %r" % (sorted(map(str, reg)), prop, got))
    except LoopBound:
        auto_bad.append("the generation loop does not terminate on a registry of %d devices" % len(reg))
    except Unsupported as ex:
        und = str(ex)
    if und:
        ctx.undecided("C19.registry", "GroupBase.get_next_idx", "evaluator: %s" % und, gn.W())
        ctx.undecided("C19.registry", "GroupBase.get_next_idx/explicit", "evaluator: %s" % und, gn.W())
    else:
        ctx.check(not auto_bad, "C19.registry", "GroupBase.get_next_idx", "a generated idx is `<model>_<k>` and never one that is registered",
                  "automatically generated idx can collide with an existing one: " + "; ".join(auto_bad[:2]), gn.W())
        ctx.check(not expl_bad, "C19.registry", "GroupBase.get_next_idx/explicit", "explicit idx kept only if free, otherwise a new one is generated",
                  "; ".join(expl_bad[:2]), gn.W())
    ip = F.method(repo, "IdxParam", "add", PARAM)
    t = [tn for tn in ip.g.nodes() if ip.g.data(tn)["kind"] == "test" and Q.match("value in self.v", ip.g.data(tn)["ast"].test)]
    rs = [n for n in ip.g.nodes() if ip.g.data(n)["kind"] == "stmt" and isinstance(ip.g.data(n)["ast"], ast.Raise)]
    ok = bool(t and rs) and ip.g.guarded_by(rs[0], t[0], "true")
    ctx.check(ok, "C19.registry", "IdxParam.add", "duplicate value of a unique parameter raises", "unique-parameter duplicates no longer rejected", ip.W())
    md = F.method(repo, "ModelData", "add", MODELDATA)
    ok = Q.has("self.uid[idx] = self.n", md.fn) and Q.has("self.n += 1", md.fn) and md.before(
        [n for n in md.g.nodes() if md.g.data(n)["kind"] == "stmt" and Q.match("self.uid[idx] = self.n", md.g.data(n)["ast"])],
        [n for n in md.g.nodes() if md.g.data(n)["kind"] == "stmt" and Q.match("self.n += 1", md.g.data(n)["ast"])])[0]
    ctx.check(ok, "C19.registry", "ModelData.add", "uid[idx] = n before n += 1", "model-level uid map no longer assigns consecutive positions", md.W())


def rule_backref(ctx, repo):
    f = F.method(repo, "System", "collect_ref", SYSTEM)
    fn = f.fn
    reset = False
    for lp, e in Q.loops(fn, "$mg", "$m"):
        for lp2, e2 in Q.loops(lp, "$m.services_ref.values()", "$r", e):
            st, b = Q.first("$r.v = [list() for $_ in range($m.n)]", lp2, e2)
            if st is not None:
                reset = lp
                conds = Q.condition_chain(lp, st)
                exits = Q.early_exits(lp) + Q.early_exits(lp2)
                ctx.check(not conds and not exits, "C19.backref", "System.collect_ref/reset-unconditional",
                          "every BackRef of every model and group is re-created on every collection",
                          "the reset `%s` is %s: lists filled by an earlier collection survive and referrers are duplicated" % (
                              src(st), ("guarded by `%s`" % src(conds[0].test) if conds and hasattr(conds[0], "test") else "conditional")
                              if conds else "skipped by an early loop exit"), f.W(st))
    fill = [n for n in walk_noscope(fn) if isinstance(n, ast.Call) and dotted(n.func) == "dest.set_backref"]
    ok = reset is not False and len(fill) == 1
    if ok:
        # reset loop precedes the fill loop
        ok = reset.lineno < fill[0].lineno
    ctx.check(ok, "C19.backref", "System.collect_ref/reset-then-fill", "every BackRef list re-created before filling; one fill site",
              "back-reference lists are not reset before (re)collection: referrers would be duplicated", f.W())
    ok = False
    for lp, e in Q.loops(fn, "zip($m.idx.v, $ip.v)", "($mi, $di)"):
        skips = [n for n in ast.walk(lp) if isinstance(n, ast.If) and Q.match("$di not in dest.uid", n.test, e) and isinstance(n.body[0], ast.Continue)]
        if skips and Q.has("dest.set_backref($name, from_idx=$mi, to_idx=$di)", lp, e):
            ok = True
    ctx.check(ok, "C19.backref", "System.collect_ref/fill", "referrer idx recorded at the target named by its own idx-param value; "
              "missing targets skipped", "back references are no longer filled from (referrer idx, its idx-param value) pairs with dangling targets skipped", f.W())
    ok = any(Q.match("(model.class_name, model.group)", l.iter) for l in walk_noscope(fn) if isinstance(l, ast.For))
    ctx.check(ok, "C19.backref", "System.collect_ref/names", "once per name in {class, group}", "back references no longer collected per class and group name", f.W())
    sb = F.method(repo, "GroupBase", "set_backref", GROUP)
    ok = Q.has("uid = self.idx2uid(to_idx)", sb.fn) and Q.has("self.services_ref[name].v[uid].append(from_idx)", sb.fn)
    ctx.check(ok, "C19.backref", "GroupBase.set_backref", "appended at the target's uid", "back reference stored at the wrong position", sb.W())
    su = F.method(repo, "System", "setup", SYSTEM)
    a = su.calls("self.collect_ref")
    b = su.calls("self._list2array")
    ok = bool(a and b) and su.before(a, b)[0]
    ctx.check(ok, "C19.backref", "System.setup/order", "collect_ref first", "back references collected after array conversion", su.W())


def rule_find_or_add(ctx, repo):
    f = F.method(repo, "DeviceFinder", "find_or_add", SERVICE)
    fn = f.fn
    # decided by evaluation (engine/tinyexec.py): a stand-in system with one helper model in a group; the finder's input mixes a valid
    # idx, missing ones, a wrong one and two references that share a target
    from engine.tinyexec import TinyExec, Fake
    from engine.ordertype import Unsupported

    class _Obj(Fake):
        pass

    def world(auto_find, auto_add, model="H"):
        log = []

        class _H(Fake):
            name = class_name = "H"

            def __init__(self):
                self.dev = [("h1", 1)]

            def find_idx(self, keys, values, allow_none=False, default=None, **kw):
                out = []
                for val in values:
                    hit = [i_ for (i_, l_) in self.dev if (i_ == val if keys == "idx" else l_ == val)]
                    out.append(hit[0] if hit else default)
                return out

            def list2array(self):
                log.append("list2array")

            def refresh_inputs(self):
                log.append("refresh_inputs")
        h = _H()
        system = _Obj()
        system.models, system.groups = {"H": h}, {"HG": h}
        system.__dict__["H"] = h
        system.__dict__["HG"] = h

        def _add(mname, pdict):
            new = "new%d" % (len(h.dev))
            h.dev.append((new, pdict.get("bus")))
            log.append(("add", mname, dict(pdict)))
            return new
        system.add = _add
        system.link_ext_param = lambda *a_, **k_: log.append("link_ext_param")
        fnd = _Obj()
        fnd.u, fnd.link, fnd.owner = _Obj(), _Obj(), _Obj()
        fnd.u.v, fnd.u.name, fnd.u.owner = ["h1", None, None, "bogus", None], "hlp", _Obj()
        fnd.u.owner.class_name = "Own"
        fnd.link.v = [1, 2, 2, 3, 1]
        fnd.owner.class_name, fnd.owner.idx = "Own", _Obj()
        fnd.owner.idx.v = ["o1", "o2", "o3", "o4", "o5"]
        fnd.model, fnd.default_model, fnd.idx_name, fnd.auto_find, fnd.auto_add = model, "H", "bus", auto_find, auto_add
        fnd.v = None
        return fnd, system, log
    nop = lambda *a_, **k_: None      # noqa: E731
    stubs = {"logger.warning": nop, "logger.debug": nop, "logger.info": nop, "logger.error": nop}
    bad, bad_arr, bad_unknown, und = [], [], [], None
    try:
        for model in ("H", "HG"):
            fnd, system, log = world(True, True, model)
            TinyExec(repo, "DeviceFinder", SERVICE, stubs=stubs).call("find_or_add", fnd, system)
            adds = [x for x in log if isinstance(x, tuple)]
            if fnd.v != ["h1", "new1", "new1", "new2", "h1"] or adds != [("add", "H", {"bus": 2}), ("add", "H", {"bus": 3})]:
                bad.append("find+add via %s: v=%s, added %s (expected ['h1', new(2), the same, new(3), 'h1'] and two additions)" % (model, fnd.v, adds))
            tail = log[log.index(adds[-1]) + 1:] if adds else []
            if adds and not ("list2array" in tail and "refresh_inputs" in tail and "link_ext_param" in tail):
                bad_arr.append("after adding via %s only %s ran" % (model, tail))
        fnd, system, log = world(True, False)
        TinyExec(repo, "DeviceFinder", SERVICE, stubs=stubs).call("find_or_add", fnd, system)
        if fnd.v != ["h1", None, None, "bogus", "h1"] and fnd.v != ["h1", None, None, None, "h1"] or any(isinstance(x, tuple) for x in log):
            bad.append("auto_add off: v=%s, log=%s" % (fnd.v, log))
        fnd, system, log = world(False, True)
        TinyExec(repo, "DeviceFinder", SERVICE, stubs=stubs).call("find_or_add", fnd, system)
        if fnd.v[0] != "h1" or len(set(fnd.v[1:])) != 4 or [x[2] for x in log if isinstance(x, tuple)] != [{"bus": 2}, {"bus": 2}, {"bus": 3}, {"bus": 1}]:
            bad.append("auto_find off: v=%s, log=%s" % (fnd.v, [x for x in log if isinstance(x, tuple)]))
        fnd, system, log = world(True, True, "Nope")
        try:
            TinyExec(repo, "DeviceFinder", SERVICE, stubs=stubs).call("find_or_add", fnd, system)
            bad_unknown.append("unknown model name accepted")
        except Unsupported:
            raise
        except (ValueError, KeyError):
            pass
    except Unsupported as ex:
        und = str(ex)
    for construct, txt, b_ in (("DeviceFinder.find_or_add", "check given idx -> find by link -> add linked to the same target; result stored at the "
                                "same position; a device added earlier in the call is found, not duplicated", bad),
                               ("DeviceFinder.find_or_add/re-array", "models re-arrayed, inputs refreshed and external parameters re-linked after adding", bad_arr),
                               ("DeviceFinder.find_or_add/unknown-model", "unknown model/group raises", bad_unknown)):
        if und:
            ctx.undecided("C19.find-or-add", construct, "evaluator: %s" % und, f.W())
        else:
            ctx.check(not b_, "C19.find-or-add", construct, txt, "; ".join(b_[:2]), f.W())


def rule_link_errors(ctx, repo):
    """every link_external call site sits in a try whose handler reports at error level (and fails setup for parameters);
    handlers that swallow lookup errors are reported."""
    n_sites = 0
    for ci_list in repo.classes.values():
        for ci in ci_list:
            if ci.path != SYSTEM:
                continue
            for mname, fn in ci.methods.items():
                for tr in [n for n in walk_noscope(fn) if isinstance(n, ast.Try)]:
                    if not any(isinstance(c, ast.Call) and (dotted(c.func) or "").endswith(".link_external") for st in tr.body for c in ast.walk(st)):
                        continue
                    n_sites += 1
                    ok = True
                    why = ""
                    for h in tr.handlers:
                        logs = [c for st in h.body for c in ast.walk(st) if isinstance(c, ast.Call) and dotted(c.func) == "logger.error"]
                        reraise = any(isinstance(st, ast.Raise) for st in h.body)
                        if not logs and not reraise:
                            ok = False
                            why = "handler `except %s` neither logs at error level nor re-raises" % src(h.type)
                    if mname == "link_ext_param":
                        sets = any(Q.match("ret = False", st) for h in tr.handlers for st in h.body)
                        if not sets:
                            ok = False
                            why = "a failed parameter link does not fail setup (ret = False missing)"
                    ctx.check(ok, "C19.link-errors", "System.%s/link_external" % mname, "lookup errors logged at error level" +
                              (" and fail setup" if mname == "link_ext_param" else ""), why, repo.W(ci, tr))
    if n_sites < 3:
        raise AnalysisError("link_external call sites in system.py: %d found, 3 confirmed by reading" % n_sites)
    su = F.method(repo, "System", "setup", SYSTEM)
    t = [tn for tn in su.g.nodes() if su.g.data(tn)["kind"] == "test" and Q.match("not self.link_ext_param()", su.g.data(tn)["ast"].test)]
    ok = bool(t) and any(Q.match("ret = False", su.g.data(n)["ast"]) and su.g.guarded_by(n, t[0], "true") for n in su.g.nodes() if su.g.data(n)["kind"] == "stmt")
    ctx.check(ok, "C19.link-errors", "System.setup/param-links", "a dangling parameter link fails setup", "setup ignores failed parameter links", su.W())
    # inside the link methods themselves: a missing device idx surfaces as KeyError (idx2model / idx2uid); the FIRST lookup by
    # idx in each link method must not sit in a try that swallows KeyError (later lookups with the same idx cannot fail first)
    for cname, path in (("ExtParam", PARAM), ("ExtVar", "andes/core/var.py"), ("ExtService", SERVICE)):
        ci, fn = repo.method(cname, "link_external", path)
        lookups = [c for c in walk_noscope(fn) if isinstance(c, ast.Call) and isinstance(c.func, ast.Attribute)
                   and c.func.attr in ("get", "idx2uid") and ("indexer" in src(c) or "_idx" in src(c))]
        if not lookups:
            raise AnalysisError("%s.link_external: no lookup by indexer found" % cname)
        by_branch = {}
        for c in sorted(lookups, key=lambda x: x.lineno):
            # group by enclosing top-level branch of the method (group path vs model path)
            top = None
            for st in fn.body:
                if any(x is c for x in ast.walk(st)):
                    top = st
            key = id(top)
            if isinstance(top, ast.If):
                key = (id(top), any(x is c for b in top.body for x in ast.walk(b)))
            by_branch.setdefault(key, c)
        for first in by_branch.values():
            guarded = None
            for tr in [n for n in walk_noscope(fn) if isinstance(n, ast.Try)]:
                if any(x is first for st in tr.body for x in ast.walk(st)):
                    for h in tr.handlers:
                        exc = src(h.type) if h.type else "BaseException"
                        if any(k in exc for k in ("KeyError", "Exception", "BaseException", "LookupError")) and \
                                all(isinstance(st, ast.Pass) for st in h.body):
                            guarded = exc
            ctx.check(guarded is None, "C19.link-errors", "%s.link_external/first-lookup@%s" % (cname, "group" if ".get(" in src(first) else "model"),
                      "a missing device idx (KeyError) propagates to the caller, which reports it",
                      "the first lookup by device idx `%s` is wrapped in `except %s: pass`: a dangling reference is silently ignored" % (
                          src(first)[:70], guarded), repo.W(ci, first))


def run(ctx):
    ctx.rule("C19.registry", "allocate -> add -> register pairing; duplicate => raise; maps updated together; generated idx never collides", 6)
    ctx.rule("C19.backref", "BackRef reset-then-fill (unconditional); once per (referrer, idx-param, name); dangling targets skipped", 6)
    ctx.rule("C19.find-or-add", "find-or-add stages and bookkeeping", 3)
    ctx.rule("C19.link-errors", "error discipline at every link_external call site and inside the link methods", 6)
    ctx.assume("'lookup returns the devices that actually have those values' for arbitrary add sequences is data dependent: declined")
    repo = Repo()
    rule_registry(ctx, repo)
    from rules import c19_atomic
    c19_atomic.run_rule(ctx, repo)
    rule_backref(ctx, repo)
    rule_find_or_add(ctx, repo)
    rule_link_errors(ctx, repo)
    from rules import c19_lookup, c19_get, c19_findidx
    c19_findidx.run_rule(ctx, repo)
    c19_lookup.run_rule(ctx, repo)
    c19_get.run_rule(ctx, repo)
