"""Shared recognisers for the time-domain routine (used by C04, C06, C14, C15)."""
import ast

from engine import astq as Q
from engine.pysrc import dotted, src, calls_in
from engine.cfg import walk_noscope

TDS = "andes/routines/tds.py"


def _is_clock_advance(st):
    """`<..>dae.t += self.h`"""
    return isinstance(st, ast.AugAssign) and isinstance(st.op, ast.Add) and (dotted(st.target) or "").endswith("dae.t") and src(st.value) == "self.h"


def advance_helpers(repo):
    """names of TDS methods that advance the clock by the step: every path through them either adds self.h to dae.t or writes dae.t
    from an attribute that calc_h set together with self.h (the exact landing time)"""
    ci = repo.cls("TDS", TDS)
    calc = ci.methods.get("calc_h")
    # attributes assigned in calc_h from the same target as `self.h = <target> - t`
    targets = set()
    if calc is not None:
        for st in walk_noscope(calc):
            if isinstance(st, ast.Assign) and dotted(st.targets[0]) == "self.h" and isinstance(st.value, ast.BinOp) and isinstance(st.value.op, ast.Sub):
                tgt = src(st.value.left)
                for st2 in walk_noscope(calc):
                    if isinstance(st2, ast.Assign) and src(st2.value) == tgt and (dotted(st2.targets[0]) or "").startswith("self.") \
                            and dotted(st2.targets[0]) != "self.h":
                        targets.add(dotted(st2.targets[0]))
    out = {}
    for name, fn in ci.methods.items():
        if name in ("calc_h", "run", "init", "init_resume", "reset", "__init__"):
            continue
        adds = [st for st in walk_noscope(fn) if _is_clock_advance(st)]
        exact = [st for st in walk_noscope(fn) if isinstance(st, ast.Assign) and isinstance(st.targets[0], ast.Subscript)
                 and (dotted(st.targets[0].value) or "").endswith("dae.t") and src(st.value) in targets]
        if adds:
            out[name] = dict(adds=len(adds), exact=len(exact), targets=sorted(targets))
    return out


def clock_nodes(repo, f):
    """CFG nodes of F-function f that advance the clock by the step (directly or through a helper)"""
    helpers = advance_helpers(repo)
    out = []
    for n in f.g.nodes():
        d = f.g.data(n)
        a = d.get("ast")
        if d["kind"] != "stmt" or a is None:
            continue
        if _is_clock_advance(a):
            out.append(n)
        elif isinstance(a, ast.Expr) and isinstance(a.value, ast.Call):
            c = dotted(a.value.func) or ""
            if c.startswith("self.") and c[5:] in helpers:
                out.append(n)
    return out
