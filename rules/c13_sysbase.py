"""C13.roundtrip/system-level -- what a case reader stores on the system besides devices is carried by the native formats.

The PSS/E and MATPOWER readers set system-level quantities (`system.config.mva`, `system.config.freq`) from the case file; device
parameters are interpreted relative to them (PQ.p0 is per unit on the system base).  A native format (xlsx, json) that writes only the
device tables turns a 1000 MVA / 50 Hz case into a 100 MVA / 60 Hz one on re-read.  Slots from the source: the fields assigned through
`system.config.<field> = ...` in the readers of andes/io, and the `config.<field>` the writers of xlsx / json mention."""
import ast

from engine.pysrc import dotted, src
from engine.cfg import walk_noscope

READERS = ("andes/io/psse.py", "andes/io/matpower.py")
NATIVE = {"xlsx": "andes/io/xlsx.py", "json": "andes/io/json.py"}


def run_rule(ctx, repo):
    fields = {}
    for rel in READERS:
        for name, fn in repo.funcs.get(rel, {}).items():
            for st in walk_noscope(fn):
                if isinstance(st, ast.Assign):
                    for t in st.targets:
                        for x in ast.walk(t):
                            if isinstance(x, ast.Attribute) and isinstance(x.ctx, ast.Store) and (dotted(x.value) or "").endswith("system.config"):
                                fields.setdefault(x.attr, []).append("%s::%s" % (rel.split("/")[-1], name))
    if not fields:
        ctx.ok("C13.roundtrip", "native/system-level", "no reader stores system-level quantities", "", nontrivial=False)
        return
    for fmt, rel in NATIVE.items():
        text = "\n".join(src(fn) for fn in repo.funcs.get(rel, {}).values())
        missing = sorted(f_ for f_ in fields if ("config.%s" % f_) not in text and ("'%s'" % f_) not in text and ('"%s"' % f_) not in text)
        ctx.check(not missing, "C13.roundtrip", "%s/system-level" % fmt, "the %s writer and reader carry the system-level quantities the case readers set (%s)" % (
            fmt, ", ".join(sorted(fields))),
            "the %s format does not carry %s, which %s read from the case file: a case with a system base other than the default is re-read with "
            "the default base (N44_BC.raw: 1000 MVA, 50 Hz -> 100 MVA, 60 Hz; total load 38470 MW -> 3847 MW)" % (
                fmt, ", ".join("System.config.%s" % m for m in missing), ", ".join(sorted({w for m in missing for w in fields[m]}))), rel)
